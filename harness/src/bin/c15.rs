//! C15 — equality, ordering, key lookup. Families:
//!   api    : `a == b`, `a.partial_cmp(&b)`, `a.cmp(&b)` through the public trait impls of
//!            tera::Value                                           vs Model.Order.{veq,vpcmp,vcmp}
//!   pair   : the same plus `{{ x[0] == x[1] }}`, `{{ x[0] < x[1] }}`, `{{ x | unique }}`,
//!            `{{ x | sort }}` with x = [a, b]
//!   lookup : `m[k]`, `k in m`, `m is containing(pat=k)`, `m | get(key=k)`, `m.k` on maps of
//!            size 0..16 with keys of every kind
//!   member : `x in c`, `c is containing(pat=x)` for arrays and strings
//! Oracles on the implementation's own answers (no model involved): reflexivity, symmetry,
//! transitivity of `==`; antisymmetry, transitivity, Equal <=> `==` of `cmp`; partial_cmp
//! consistent with cmp — over ALL pairs and ALL triples of the pool.
use serde_json::json;
use std::cmp::Ordering;
use tera::value::Key;
use tera::{Context, Map, Tera, Value};
use tvh::*;

fn gal_cmp(o: Ordering) -> &'static str {
    match o {
        Ordering::Less => "Lt",
        Ordering::Equal => "Eq",
        Ordering::Greater => "Gt",
    }
}
fn gal_ocmp(o: Option<Ordering>) -> String {
    match o {
        None => "None".into(),
        Some(o) => format!("(Some {})", gal_cmp(o)),
    }
}

fn leak(s: &str) -> &'static str {
    Box::leak(s.to_string().into_boxed_str())
}

fn map_of(entries: Vec<(Key<'static>, Value)>) -> Value {
    let mut m = Map::new();
    for (k, v) in entries {
        m.insert(k, v);
    }
    Value::from(m)
}

fn ks(s: &str) -> Key<'static> {
    Key::String(std::sync::Arc::from(s))
}
fn kb(s: &str) -> Key<'static> {
    Key::Str(leak(s))
}

/// ~130 values: every kind, boundary integers in every encoding, special floats, safe and normal
/// strings, nested mixed arrays and maps (the D2 witnesses among them).
fn pool() -> Vec<Value> {
    let mut p: Vec<Value> = vec![Value::undefined(), Value::none(), Value::from(true), Value::from(false)];
    // integers: each boundary in each encoding it fits
    for z in [0i128, 1, -1, 2, 255, -128, (1 << 53) - 1, 1 << 53, (1 << 53) + 1, -(1 << 53), i64::MAX as i128,
        i64::MIN as i128, (1i128 << 63), u64::MAX as i128, (1i128 << 64), i128::MAX, i128::MIN]
    {
        p.extend(pools::int_reps(z));
    }
    for u in [i128::MAX as u128 + 1, u128::MAX, u128::MAX - 1] {
        p.push(Value::from(u));
    }
    // floats
    for f in [0.0f64, -0.0, 1.0, -1.0, 0.5, 1.5, -1.5, 2.0, 255.0, f64::NAN, f64::INFINITY, f64::NEG_INFINITY,
        9007199254740991.0, 9007199254740992.0, 9007199254740994.0, -9007199254740992.0, 9223372036854775808.0,
        -9223372036854775808.0, 18446744073709551616.0, 170141183460469231731687303715884105728.0,
        -170141183460469231731687303715884105728.0, 340282366920938463463374607431768211456.0,
        f64::from_bits(170141183460469231731687303715884105728.0f64.to_bits() - 1), 1e300, -1e300,
        f64::MIN_POSITIVE, f64::from_bits(1), 0.1]
    {
        p.push(Value::from(f));
    }
    // strings
    for s in ["", "a", "b", "ab", "é", "日本", "😀", "z", "1"] {
        p.push(Value::from(s));
    }
    p.push(Value::safe_string("a"));
    p.push(Value::safe_string("<b>"));
    p.push(Value::from("<b>"));
    // bytes
    p.push(Value::bytes(Vec::<u8>::new()));
    p.push(Value::bytes(vec![0x61u8]));
    p.push(Value::bytes(vec![0x61u8, 0]));
    p.push(Value::bytes(vec![0xffu8]));
    // arrays
    let i = |z: i64| Value::from(z);
    let u = |z: u64| Value::from(z);
    p.push(Value::from(Vec::<Value>::new()));
    p.push(Value::from(vec![u(1)]));
    p.push(Value::from(vec![i(1)]));
    p.push(Value::from(vec![Value::from(1.0f64)]));
    p.push(Value::from(vec![u(1), u(2)]));
    p.push(Value::from(vec![u(2)]));
    p.push(Value::from(vec![u(1), Value::from("a")]));
    p.push(Value::from(vec![u(1), Value::from(true)]));
    p.push(Value::from(vec![u(1), Value::from("b")]));
    p.push(Value::from(vec![u(2), Value::from(true)]));
    p.push(Value::from(vec![Value::none()]));
    p.push(Value::from(vec![Value::undefined()]));
    p.push(Value::from(vec![Value::from(f64::NAN)]));
    p.push(Value::from(vec![Value::from(vec![u(1), Value::from("x")]), u(3)]));
    p.push(Value::from(vec![Value::from(vec![u(1), Value::none()]), u(3)]));
    p.push(Value::from(vec![Value::from(vec![Value::from(Vec::<Value>::new())])]));
    p.push(Value::from(vec![Value::safe_string("a"), Value::from("b")]));
    p.push(Value::from(vec![Value::from("a"), Value::from("b")]));
    // maps
    p.push(map_of(vec![]));
    p.push(map_of(vec![(ks("a"), u(1))]));
    p.push(map_of(vec![(kb("a"), i(1))]));
    p.push(map_of(vec![(ks("a"), u(2))]));
    p.push(map_of(vec![(ks("b"), u(1))]));
    p.push(map_of(vec![(ks("a"), u(1)), (ks("b"), u(2))]));
    p.push(map_of(vec![(kb("b"), u(2)), (kb("a"), Value::from(1.0f64))]));
    p.push(map_of(vec![(Key::U64(1), Value::from("x"))]));
    p.push(map_of(vec![(Key::I128(1), Value::safe_string("x"))]));
    p.push(map_of(vec![(Key::I64(-1), Value::from("x"))]));
    p.push(map_of(vec![(Key::Bool(true), Value::none())]));
    p.push(map_of(vec![(Key::Bool(true), Value::none()), (Key::U64(1), Value::none()), (ks("true"), Value::none())]));
    p.push(map_of(vec![(Key::U128(u128::MAX), u(1))]));
    p.push(map_of(vec![(ks("a"), Value::from(vec![u(1), Value::from("a")]))]));
    p.push(map_of(vec![(ks("a"), Value::from(vec![u(1), Value::from(true)]))]));
    p.push(map_of(vec![(ks("m"), map_of(vec![(ks("a"), u(1))]))]));
    p.push(map_of(vec![(ks("m"), map_of(vec![(ks("a"), u(2))]))]));
    p.push(Value::from(vec![map_of(vec![(ks("a"), u(1))])]));
    p.push(Value::from(vec![map_of(vec![(ks("a"), u(2))])]));
    p.push(Value::from(vec![map_of(vec![(ks("a"), u(1))]), u(0)]));
    p
}

fn jkey(k: &Key) -> serde_json::Value {
    json!(format!("{k:?}"))
}
fn jv(v: &Value) -> serde_json::Value {
    use tera::value::ValueKind as K;
    match v.kind() {
        K::Array => json!({"arr": v.as_array().unwrap().iter().map(jv).collect::<Vec<_>>()}),
        K::Map => json!({"map": sorted_entries(v.as_map().unwrap()).into_iter()
            .map(|(k, x)| json!([jkey(k), jv(x)])).collect::<Vec<_>>()}),
        _ => json_value(v),
    }
}


/// Rebuilds a value from the JSON written by `jv` (maps and undefined included).
fn vj(j: &serde_json::Value) -> Value {
    if let Some(o) = j.as_object() {
        if let Some(a) = o.get("arr") {
            return Value::from(a.as_array().unwrap().iter().map(vj).collect::<Vec<_>>());
        }
        if let Some(m) = o.get("map") {
            let mut out = Map::new();
            for e in m.as_array().unwrap() {
                let k = e[0].as_str().unwrap();
                let (kind, rest) = k.split_once('(').unwrap();
                let inner = &rest[..rest.len() - 1];
                let key: Key<'static> = match kind {
                    "Bool" => Key::Bool(inner == "true"),
                    "U64" => Key::U64(inner.parse().unwrap()),
                    "I64" => Key::I64(inner.parse().unwrap()),
                    "U128" => Key::U128(inner.parse().unwrap()),
                    "I128" => Key::I128(inner.parse().unwrap()),
                    "String" => Key::String(std::sync::Arc::from(serde_json::from_str::<String>(inner).unwrap_or(inner.trim_matches('"').to_string()))),
                    _ => Key::Str(leak(&serde_json::from_str::<String>(inner).unwrap_or(inner.trim_matches('"').to_string()))),
                };
                out.insert(key, vj(&e[1]));
            }
            return Value::from(out);
        }
    }
    value_from_json(j)
}

/// `--replay file`: re-evaluate the recorded values on the current implementation.
fn replay(path: &std::path::Path, tera: &Tera) {
    let r: serde_json::Value = serde_json::from_str(&std::fs::read_to_string(path).expect("replay file")).expect("json");
    let find = |k: &str| r.get(k).or_else(|| r.get("case").and_then(|c| c.get(k))).or_else(|| r.get("input").and_then(|c| c.get(k)));
    let mut vals: Vec<Value> = Vec::new();
    if let Some(vs) = find("values") { vals = vs.as_array().unwrap().iter().map(vj).collect(); }
    if let (Some(a), Some(b)) = (find("a"), find("b")) { vals = vec![vj(a), vj(b)]; }
    if vals.is_empty() {
        if let (Some(m), Some(k)) = (find("m"), find("k")) {
            let (m, k) = (vj(m), vj(k));
            let mut ctx = Context::new();
            ctx.insert_value("m", m);
            ctx.insert_value("k", k);
            for e in ["m[k]", "k in m", "m is containing(pat=k)", "m | get(key=k)"] {
                println!("{e} => {}", eval_expr(tera, e, &ctx).json(jv));
            }
            return;
        }
        println!("nothing to replay in this record");
        return;
    }
    for (i, a) in vals.iter().enumerate() {
        for (j, b) in vals.iter().enumerate() {
            let r = api(a, b);
            if let Outcome::Ok(r) = r {
                println!("[{i}] vs [{j}]: == {} partial_cmp {:?} cmp {:?}", r.eq, r.pcmp, r.cmp);
            } else {
                println!("[{i}] vs [{j}]: panic");
            }
        }
    }
    let x = Value::from(vals.clone());
    let ctx = ctx_with("x", &x);
    println!("x | unique => {}", eval_expr(tera, "x | unique", &ctx).json(jv));
    println!("x | sort => {}", eval_expr(tera, "x | sort", &ctx).json(jv));
}

fn ctx_with(name: &'static str, v: &Value) -> Context {
    let mut c = Context::new();
    c.insert_value(name, v.clone());
    c
}

struct Api {
    eq: bool,
    pcmp: Option<Ordering>,
    cmp: Ordering,
}

fn api(a: &Value, b: &Value) -> Outcome<Api> {
    guarded(|| Ok(Api { eq: a == b, pcmp: a.partial_cmp(b), cmp: a.cmp(b) }))
}

fn is_container(v: &Value) -> bool {
    v.is_array() || v.is_map()
}

fn is_ident(s: &str) -> bool {
    let mut ch = s.chars();
    match ch.next() {
        Some(c) if c.is_ascii_alphabetic() || c == '_' => {}
        _ => return false,
    }
    ch.all(|c| c.is_ascii_alphanumeric() || c == '_')
        && !["true", "false", "none", "and", "or", "not", "in", "is", "if", "else", "loop", "True", "False", "None"].contains(&s)
}

fn main() {
    let args = parse_args();
    silence_panics();
    let mut tera = Tera::default();
    register_probe(&mut tera);
    if let Some(p) = &args.replay {
        replay(p, &tera);
        return;
    }
    let mut rng = Rng::new(args.seed);
    let thorough = args.tier == "thorough";
    let mut meta = Meta::default();

    let hdr = "From TeraV Require Import Model.Value Corr.CorrC15.";
    let mut s_api = Sink::new(&args.out, "api", hdr, "check_api");
    let mut s_pair = Sink::new(&args.out, "pair", hdr, "check_pair");
    let mut s_lookup = Sink::new(&args.out, "lookup", hdr, "check_lookup");
    let mut s_member = Sink::new(&args.out, "member", hdr, "check_member");

    let pool = pool();
    let n = pool.len();

    // ---------------------------------------------------------------- API answers on all pairs
    let mut eq = vec![vec![false; n]; n];
    let mut cm = vec![vec![Ordering::Equal; n]; n];
    let mut pc = vec![vec![None; n]; n];
    for i in 0..n {
        for j in 0..n {
            match api(&pool[i], &pool[j]) {
                Outcome::Ok(r) => {
                    eq[i][j] = r.eq;
                    cm[i][j] = r.cmp;
                    pc[i][j] = r.pcmp;
                }
                Outcome::Panic(m) => {
                    meta.oracle_fail(&format!("panic in ==/cmp: {m}"), None, json!({"a": jv(&pool[i]), "b": jv(&pool[j])}));
                }
                Outcome::Err(..) => unreachable!(),
            }
        }
    }

    // ---------------------------------------------------------------- law oracles (implementation only)
    let mut law_checks = 0usize;
    let mut law_fail: std::collections::BTreeMap<&'static str, usize> = Default::default();
    let mut fail = |meta: &mut Meta, what: &'static str, idx: &[usize]| {
        let c = law_fail.entry(what).or_default();
        *c += 1;
        if *c <= 3 {
            let vals: Vec<_> = idx.iter().map(|i| jv(&pool[*i])).collect();
            meta.oracle_fail(&format!("law violated by the implementation: {what}"), None, json!({"values": vals}));
        }
    };
    for i in 0..n {
        law_checks += 2;
        if !eq[i][i] {
            fail(&mut meta, "== not reflexive", &[i]);
        }
        if cm[i][i] != Ordering::Equal {
            fail(&mut meta, "cmp(a,a) != Equal", &[i]);
        }
        for j in 0..n {
            law_checks += 4;
            if eq[i][j] != eq[j][i] {
                fail(&mut meta, "== not symmetric", &[i, j]);
            }
            if cm[i][j] != cm[j][i].reverse() {
                fail(&mut meta, "cmp not antisymmetric (cmp(a,b) != reverse(cmp(b,a)))", &[i, j]);
            }
            if (cm[i][j] == Ordering::Equal) != eq[i][j] {
                fail(&mut meta, "cmp(a,b) == Equal disagrees with a == b", &[i, j]);
            }
            if let Some(r) = pc[i][j] {
                if r != cm[i][j] {
                    fail(&mut meta, "partial_cmp answers differently from cmp", &[i, j]);
                }
            }
        }
    }
    for i in 0..n {
        for j in 0..n {
            for k in 0..n {
                law_checks += 2;
                if eq[i][j] && eq[j][k] && !eq[i][k] {
                    fail(&mut meta, "== not transitive", &[i, j, k]);
                }
                let (x, y, z) = (cm[i][j], cm[j][k], cm[i][k]);
                let ok = match (x, y) {
                    (Ordering::Equal, r) => z == r,
                    (r, Ordering::Equal) => z == r,
                    (Ordering::Less, Ordering::Less) => z == Ordering::Less,
                    (Ordering::Greater, Ordering::Greater) => z == Ordering::Greater,
                    _ => true,
                };
                if !ok {
                    fail(&mut meta, "cmp not transitive", &[i, j, k]);
                }
            }
        }
    }
    meta.oracle_checks += law_checks;

    // ---------------------------------------------------------------- api family (model side)
    let push_api = |s: &mut Sink, i: usize, j: usize| {
        let (a, b) = (&pool[i], &pool[j]);
        let g = format!(
            "{{| a_a := {}; a_b := {}; a_eq := {}; a_pcmp := {}; a_cmp := {} |}}",
            gal_value(a), gal_value(b), gal_bool(eq[i][j]), gal_ocmp(pc[i][j]), gal_cmp(cm[i][j])
        );
        let desc = json!({"a": jv(a), "b": jv(b), "impl": {"eq": eq[i][j], "partial_cmp": format!("{:?}", pc[i][j]), "cmp": format!("{:?}", cm[i][j])}});
        let nontrivial = i != j && (is_container(a) || is_container(b) || a.kind() != b.kind());
        let tag = if is_container(a) && is_container(b) { "both-containers" } else if a.is_number() && b.is_number() { "both-numbers" } else { "other" };
        s.push(g, desc, nontrivial, None, &[tag]);
    };
    if thorough {
        for i in 0..n {
            for j in 0..n {
                push_api(&mut s_api, i, j);
            }
        }
    } else {
        // every value against itself and its neighbours, then a random sample
        for i in 0..n {
            push_api(&mut s_api, i, i);
            push_api(&mut s_api, i, (i + 1) % n);
        }
        for _ in 0..1300 {
            let (i, j) = (rng.below(n), rng.below(n));
            push_api(&mut s_api, i, j);
        }
    }

    // ---------------------------------------------------------------- pair family (templates)
    let n_pair = if thorough { 3000 } else { 480 };
    let mut pair_idx: Vec<(usize, usize)> = Vec::new();
    // D2 neighbourhood first: all pairs of containers
    let containers: Vec<usize> = (0..n).filter(|i| is_container(&pool[*i])).collect();
    for &i in &containers {
        for &j in &containers {
            if thorough || rng.chance(1, 6) {
                pair_idx.push((i, j));
            }
        }
    }
    while pair_idx.len() < n_pair {
        pair_idx.push((rng.below(n), rng.below(n)));
    }
    for (i, j) in pair_idx {
        let (a, b) = (&pool[i], &pool[j]);
        let x = Value::from(vec![a.clone(), b.clone()]);
        let ctx = ctx_with("x", &x);
        let req = eval_expr(&tera, "x[0] == x[1]", &ctx);
        let rlt = eval_expr(&tera, "x[0] < x[1]", &ctx);
        let runiq = eval_expr(&tera, "x | unique", &ctx);
        let rsort = eval_expr(&tera, "x | sort", &ctx);
        for (r, what) in [(&req, "=="), (&rlt, "<"), (&runiq, "unique"), (&rsort, "sort")] {
            meta.oracle_checks += 1;
            if let Outcome::Panic(m) = r {
                meta.oracle_fail(&format!("panic in `{what}`: {m}"), None, json!({"a": jv(a), "b": jv(b)}));
            }
        }
        // property oracle on the template answers themselves: unique keeps b iff a != b
        meta.oracle_checks += 1;
        if let (Outcome::Ok(e), Outcome::Ok(uq)) = (&req, &runiq) {
            let kept = uq.as_array().map_or(0, |x| x.len());
            if (e.as_bool() == Some(true)) != (kept == 1) {
                meta.oracle_fail("`[a, b] | unique` disagrees with `a == b`", None,
                    json!({"a": jv(a), "b": jv(b), "a==b": jv(e), "unique": jv(uq)}));
            }
        }
        let g = format!(
            "{{| p_a := {}; p_b := {}; p_eq := {}; p_pcmp := {}; p_cmp := {}; p_req := {}; p_rlt := {}; p_uniq := {}; p_sort := {} |}}",
            gal_value(a), gal_value(b), gal_bool(eq[i][j]), gal_ocmp(pc[i][j]), gal_cmp(cm[i][j]),
            req.gal(gal_value), rlt.gal(gal_value), runiq.gal(gal_value), rsort.gal(gal_value)
        );
        let desc = json!({"a": jv(a), "b": jv(b), "impl": {"eq": eq[i][j], "partial_cmp": format!("{:?}", pc[i][j]),
            "cmp": format!("{:?}", cm[i][j]), "a==b": req.json(jv), "a<b": rlt.json(jv), "[a,b]|unique": runiq.json(jv),
            "[a,b]|sort": rsort.json(jv)}});
        let nontrivial = i != j && (is_container(a) || is_container(b) || a.kind() != b.kind());
        let tag = if is_container(a) && is_container(b) { "both-containers" } else { "other" };
        s_pair.push(g, desc, nontrivial, None, &[tag]);
    }

    // ---------------------------------------------------------------- lookups
    // key pool: every kind, same number in several widths, owned and borrowed strings
    let int_keys: Vec<i128> = vec![0, 1, -1, 2, 7, 255, -128, i64::MAX as i128, i64::MIN as i128, 1i128 << 63,
        u64::MAX as i128, 1i128 << 64, i128::MAX, i128::MIN];
    let str_keys = ["a", "b", "k1", "key_two", "", "é", "日本", "1", "true", "A", "x y"];
    let key_of_int = |z: i128, rng: &mut Rng| -> Key<'static> {
        let mut opts: Vec<Key<'static>> = vec![Key::I128(z)];
        if let Ok(x) = u64::try_from(z) { opts.push(Key::U64(x)); }
        if let Ok(x) = i64::try_from(z) { opts.push(Key::I64(x)); }
        if let Ok(x) = u128::try_from(z) { opts.push(Key::U128(x)); }
        opts[rng.below(opts.len())].clone()
    };
    let mut lookup_vals: Vec<Value> = Vec::new();
    for z in &int_keys {
        lookup_vals.extend(pools::int_reps(*z));
    }
    lookup_vals.push(Value::from(u128::MAX));
    lookup_vals.push(Value::from(i128::MAX as u128 + 1));
    for s in str_keys {
        lookup_vals.push(Value::from(s));
    }
    lookup_vals.push(Value::safe_string("a"));
    lookup_vals.push(Value::safe_string("k1"));
    lookup_vals.push(Value::from("missing"));
    lookup_vals.push(Value::from(true));
    lookup_vals.push(Value::from(false));
    lookup_vals.push(Value::from(1.0f64));
    lookup_vals.push(Value::from(0.0f64));
    lookup_vals.push(Value::from(f64::NAN));
    lookup_vals.push(Value::none());
    lookup_vals.push(Value::from(vec![Value::from(1u64)]));
    lookup_vals.push(map_of(vec![(ks("a"), Value::from(1u64))]));
    lookup_vals.push(Value::bytes(vec![0x61u8]));

    let maps_per_size = if thorough { 6 } else { 2 };
    let lookups_per_map = if thorough { 0 } else { 16 };
    for size in 0..=16usize {
        for variant in 0..maps_per_size {
            // choose `size` distinct keys
            let mut entries: Vec<(Key<'static>, Value)> = Vec::new();
            let mut tries = 0;
            while entries.len() < size && tries < 1000 {
                tries += 1;
                let k: Key<'static> = match (variant + rng.below(3)) % 3 {
                    0 => key_of_int(*rng.pick(&int_keys), &mut rng),
                    1 => {
                        let s = *rng.pick(&str_keys);
                        if rng.chance(1, 2) { ks(s) } else { kb(s) }
                    }
                    _ => {
                        if rng.chance(1, 6) { Key::Bool(rng.chance(1, 2)) } else if rng.chance(1, 2) {
                            key_of_int(rng.range(-3, 40) as i128, &mut rng)
                        } else {
                            let s = format!("f{}", rng.below(30));
                            if rng.chance(1, 2) { ks(&s) } else { kb(&s) }
                        }
                    }
                };
                if entries.iter().any(|(k2, _)| *k2 == k) {
                    continue;
                }
                let v = Value::from(format!("v{}", entries.len()));
                entries.push((k, v));
            }
            let m = map_of(entries.clone());
            // lookups: every stored key in another representation + pool values
            let mut ks_: Vec<Value> = Vec::new();
            for (k, _) in &entries {
                match k {
                    Key::Bool(b) => ks_.push(Value::from(*b)),
                    Key::U64(_) | Key::I64(_) | Key::U128(_) | Key::I128(_) => {
                        let kv = Value::from(k.clone());
                        if let Some(z) = kv.as_i128() { ks_.extend(pools::int_reps(z)); } else { ks_.push(kv); }
                    }
                    Key::String(s) => { ks_.push(Value::from(&**s)); ks_.push(Value::safe_string(&**s)); }
                    Key::Str(s) => ks_.push(Value::from(*s)),
                    _ => {}
                }
            }
            if !thorough && ks_.len() > 10 {
                let mut keep = Vec::new();
                for _ in 0..10 { keep.push(ks_[rng.below(ks_.len())].clone()); }
                ks_ = keep;
            }
            for _ in 0..lookups_per_map {
                ks_.push(rng.pick(&lookup_vals).clone());
            }
            if thorough {
                ks_.extend(lookup_vals.iter().cloned());
            }
            for k in ks_ {
                let mut ctx = Context::new();
                ctx.insert_value("m", m.clone());
                ctx.insert_value("k", k.clone());
                let r_idx = eval_expr(&tera, "m[k]", &ctx);
                let r_in = eval_expr(&tera, "k in m", &ctx);
                let r_cont = eval_expr(&tera, "m is containing(pat=k)", &ctx);
                let r_get = eval_expr(&tera, "m | get(key=k)", &ctx);
                let r_getd = eval_expr(&tera, "m | get(key=k, default=0)", &ctx);
                let r_attr = match k.as_str() {
                    Some(s) if is_ident(s) => Some(eval_expr(&tera, &format!("m.{s}"), &ctx)),
                    _ => None,
                };
                let mut all: Vec<(&Outcome<Value>, &str)> = vec![(&r_idx, "m[k]"), (&r_in, "in"), (&r_cont, "containing"), (&r_get, "get"), (&r_getd, "get+default")];
                if let Some(r) = &r_attr { all.push((r, "m.k")); }
                for (r, what) in all {
                    meta.oracle_checks += 1;
                    if let Outcome::Panic(msg) = r {
                        meta.oracle_fail(&format!("panic in `{what}`: {msg}"), None, json!({"m": jv(&m), "k": jv(&k)}));
                    }
                }
                // oracle: the five ways of looking up agree with each other
                meta.oracle_checks += 1;
                let found_idx = matches!(&r_idx, Outcome::Ok(v) if !v.is_undefined());
                let found_in = matches!(&r_in, Outcome::Ok(v) if v.as_bool() == Some(true));
                let found_cont = matches!(&r_cont, Outcome::Ok(v) if v.as_bool() == Some(true));
                let is_keyish = k.is_bool() || k.is_string() || (k.is_number() && k.as_f64().map_or(true, |_| k.as_i128().is_some() || k.as_u128().is_some()) && !matches!(k.kind(), tera::value::ValueKind::F64));
                if is_keyish && (found_idx != found_in || found_in != found_cont) {
                    meta.oracle_fail("m[k], `k in m` and containing disagree", None, json!({"m": jv(&m), "k": jv(&k)}));
                }
                if let Some(Outcome::Ok(v)) = &r_attr {
                    if !v.is_undefined() != found_idx {
                        meta.oracle_fail("m.k disagrees with m[k]", None, json!({"m": jv(&m), "k": jv(&k)}));
                    }
                }
                if k.is_string() {
                    let found_get = matches!(&r_get, Outcome::Ok(_));
                    if found_get != found_idx {
                        meta.oracle_fail("get(key=k) disagrees with m[k]", None, json!({"m": jv(&m), "k": jv(&k)}));
                    }
                }
                let g = format!(
                    "{{| l_m := {}; l_k := {}; l_idx := {}; l_in := {}; l_cont := {}; l_get := {}; l_getd := {}; l_attr := {} |}}",
                    gal_value(&m), gal_value(&k), r_idx.gal(gal_value), r_in.gal(gal_value), r_cont.gal(gal_value),
                    r_get.gal(gal_value), r_getd.gal(gal_value), gal_opt(&r_attr, |r| r.gal(gal_value))
                );
                let desc = json!({"m": jv(&m), "k": jv(&k), "impl": {"m[k]": r_idx.json(jv), "k in m": r_in.json(jv),
                    "containing": r_cont.json(jv), "get": r_get.json(jv), "get+default": r_getd.json(jv),
                    "m.k": r_attr.as_ref().map(|r| r.json(jv))}});
                let nontrivial = size >= 1 && is_keyish;
                let tag_size = if size <= 6 { "size<=cutoff" } else { "size>cutoff" };
                let tag_found = if found_idx { "found" } else { "not-found" };
                let tag_attr = if r_attr.is_some() { "attr-path" } else { "no-attr" };
                s_lookup.push(g, desc, nontrivial, None, &[tag_size, tag_found, tag_attr]);
            }
        }
    }

    // ---------------------------------------------------------------- membership in arrays / strings
    let n_member = if thorough { 2000 } else { 320 };
    let arrays: Vec<Value> = {
        let mut v = Vec::new();
        for _ in 0..40 {
            let len = rng.below(6);
            v.push(Value::from((0..len).map(|_| rng.pick(&pool).clone()).collect::<Vec<_>>()));
        }
        v.push(Value::from("hello wörld 日本"));
        v.push(Value::from(""));
        v.push(Value::safe_string("a<b>a"));
        v.push(Value::from(3u64));
        v.push(Value::none());
        v
    };
    let needles: Vec<Value> = ["", "a", "lo w", "ö", "日", "本日", "<b>", "hello wörld 日本!"].iter().map(|s| Value::from(*s)).collect();
    for _ in 0..n_member {
        let c = rng.pick(&arrays).clone();
        let x = if c.is_array() && rng.chance(2, 3) && c.len().unwrap_or(0) > 0 {
            // an element of the array in possibly another representation
            let e = c.as_array().unwrap()[rng.below(c.len().unwrap())].clone();
            if let Some(z) = e.as_i128() { let r = pools::int_reps(z); r[rng.below(r.len())].clone() } else { e }
        } else if c.is_string() && rng.chance(2, 3) {
            rng.pick(&needles).clone()
        } else {
            rng.pick(&pool).clone()
        };
        if x.is_undefined() {
            continue;
        }
        let mut ctx = Context::new();
        ctx.insert_value("c", c.clone());
        ctx.insert_value("x", x.clone());
        let r_in = eval_expr(&tera, "x in c", &ctx);
        let r_cont = eval_expr(&tera, "c is containing(pat=x)", &ctx);
        for r in [&r_in, &r_cont] {
            meta.oracle_checks += 1;
            if let Outcome::Panic(msg) = r {
                meta.oracle_fail(&format!("panic in membership: {msg}"), None, json!({"c": jv(&c), "x": jv(&x)}));
            }
        }
        let g = format!("{{| e_c := {}; e_x := {}; e_in := {}; e_cont := {} |}}",
            gal_value(&c), gal_value(&x), r_in.gal(gal_value), r_cont.gal(gal_value));
        let desc = json!({"c": jv(&c), "x": jv(&x), "impl": {"x in c": r_in.json(jv), "containing": r_cont.json(jv)}});
        let nontrivial = c.len().unwrap_or(0) >= 2;
        s_member.push(g, desc, nontrivial, None, &[if c.is_array() { "array" } else if c.is_string() { "string" } else { "other" }]);
    }

    meta.extra.insert("pool_size".into(), json!(n));
    meta.extra.insert("law_oracle".into(), json!({"pairs": n * n, "triples": n * n * n, "checks": law_checks,
        "failures": law_fail.iter().map(|(k, v)| (k.to_string(), *v)).collect::<std::collections::BTreeMap<_, _>>()}));
    meta.extra.insert("oracle_only_evaluations".into(), json!(n * n * n));
    meta.extra.insert("all_pairs_model_side".into(), json!(thorough));
    meta.families.push(s_api.finish());
    meta.families.push(s_pair.finish());
    meta.families.push(s_lookup.finish());
    meta.families.push(s_member.finish());
    meta.write(&args.out);
}
