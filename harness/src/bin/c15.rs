//! C15 — equality, ordering, key lookup. Families:
//!   api    : `a == b`, `a.partial_cmp(&b)`, `a.cmp(&b)` through the public trait impls of
//!            tera::Value                                           vs Model.Order.{veq,vpcmp,vcmp}
//!   pair   : the same plus `{{ x[0] == x[1] }}`, `{{ x[0] < x[1] }}`, `{{ x | unique }}`,
//!            `{{ x | sort }}` with x = [a, b]
//!   lookup : `m[k]`, `k in m`, `m is containing(pat=k)`, `m | get(key=k)`, `m.k` on maps of
//!            size 0..16 with keys of every kind
//!   member : `x in c`, `c is containing(pat=x)` for arrays and strings
//! Oracles on the implementation's own answers (no model involved): reflexivity, symmetry,
//! transitivity of `==`; antisymmetry, transitivity, Equal <=> `==` of `cmp`; partial_cmp
//! consistent with cmp — over ALL pairs and ALL triples of the pool.
use serde_json::json;
use std::cmp::Ordering;
use tera::value::Key;
use tera::{Context, Map, Tera, Value};
use tvh::*;

fn gal_cmp(o: Ordering) -> &'static str {
    match o {
        Ordering::Less => "Lt",
        Ordering::Equal => "Eq",
        Ordering::Greater => "Gt",
    }
}
fn gal_ocmp(o: Option<Ordering>) -> String {
    match o {
        None => "None".into(),
        Some(o) => format!("(Some {})", gal_cmp(o)),
    }
}

fn leak(s: &str) -> &'static str {
    Box::leak(s.to_string().into_boxed_str())
}

fn map_of(entries: Vec<(Key<'static>, Value)>) -> Value {
    let mut m = Map::new();
    for (k, v) in entries {
        m.insert(k, v);
    }
    Value::from(m)
}

fn ks(s: &str) -> Key<'static> {
    Key::String(std::sync::Arc::from(s))
}
fn kb(s: &str) -> Key<'static> {
    Key::Str(leak(s))
}

/// ~130 values: every kind, boundary integers in every encoding, special floats, safe and normal
/// strings, nested mixed arrays and maps (the D2 witnesses among them).
fn pool() -> Vec<Value> {
    let mut p: Vec<Value> = vec![Value::undefined(), Value::none(), Value::from(true), Value::from(false)];
    // integers: each boundary in each encoding it fits
    for z in [0i128, 1, -1, 2, 255, -128, (1 << 53) - 1, 1 << 53, (1 << 53) + 1, -(1 << 53), i64::MAX as i128,
        i64::MIN as i128, (1i128 << 63), u64::MAX as i128, (1i128 << 64), i128::MAX, i128::MIN]
    {
        p.extend(pools::int_reps(z));
    }
    for u in [i128::MAX as u128 + 1, u128::MAX, u128::MAX - 1] {
        p.push(Value::from(u));
    }
    // floats
    for f in [0.0f64, -0.0, 1.0, -1.0, 0.5, 1.5, -1.5, 2.0, 255.0, f64::NAN, f64::INFINITY, f64::NEG_INFINITY,
        9007199254740991.0, 9007199254740992.0, 9007199254740994.0, -9007199254740992.0, 9223372036854775808.0,
        -9223372036854775808.0, 18446744073709551616.0, 170141183460469231731687303715884105728.0,
        -170141183460469231731687303715884105728.0, 340282366920938463463374607431768211456.0,
        f64::from_bits(170141183460469231731687303715884105728.0f64.to_bits() - 1), 1e300, -1e300,
        f64::MIN_POSITIVE, f64::from_bits(1), 0.1]
    {
        p.push(Value::from(f));
    }
    // strings
    for s in ["", "a", "b", "ab", "é", "日本", "😀", "z", "1"] {
        p.push(Value::from(s));
    }
    p.push(Value::safe_string("a"));
    p.push(Value::safe_string("<b>"));
    p.push(Value::from("<b>"));
    // bytes
    p.push(Value::bytes(Vec::<u8>::new()));
    p.push(Value::bytes(vec![0x61u8]));
    p.push(Value::bytes(vec![0x61u8, 0]));
    p.push(Value::bytes(vec![0xffu8]));
    // arrays
    let i = |z: i64| Value::from(z);
    let u = |z: u64| Value::from(z);
    p.push(Value::from(Vec::<Value>::new()));
    p.push(Value::from(vec![u(1)]));
    p.push(Value::from(vec![i(1)]));
    p.push(Value::from(vec![Value::from(1.0f64)]));
    p.push(Value::from(vec![u(1), u(2)]));
    p.push(Value::from(vec![u(2)]));
    p.push(Value::from(vec![u(1), Value::from("a")]));
    p.push(Value::from(vec![u(1), Value::from(true)]));
    p.push(Value::from(vec![u(1), Value::from("b")]));
    p.push(Value::from(vec![u(2), Value::from(true)]));
    p.push(Value::from(vec![Value::none()]));
    p.push(Value::from(vec![Value::undefined()]));
    p.push(Value::from(vec![Value::from(f64::NAN)]));
    p.push(Value::from(vec![Value::from(vec![u(1), Value::from("x")]), u(3)]));
    p.push(Value::from(vec![Value::from(vec![u(1), Value::none()]), u(3)]));
    p.push(Value::from(vec![Value::from(vec![Value::from(Vec::<Value>::new())])]));
    p.push(Value::from(vec![Value::safe_string("a"), Value::from("b")]));
    p.push(Value::from(vec![Value::from("a"), Value::from("b")]));
    // maps
    p.push(map_of(vec![]));
    p.push(map_of(vec![(ks("a"), u(1))]));
    p.push(map_of(vec![(kb("a"), i(1))]));
    p.push(map_of(vec![(ks("a"), u(2))]));
    p.push(map_of(vec![(ks("b"), u(1))]));
    p.push(map_of(vec![(ks("a"), u(1)), (ks("b"), u(2))]));
    p.push(map_of(vec![(kb("b"), u(2)), (kb("a"), Value::from(1.0f64))]));
    p.push(map_of(vec![(Key::U64(1), Value::from("x"))]));
    p.push(map_of(vec![(Key::I128(1), Value::safe_string("x"))]));
    p.push(map_of(vec![(Key::I64(-1), Value::from("x"))]));
    p.push(map_of(vec![(Key::Bool(true), Value::none())]));
    p.push(map_of(vec![(Key::Bool(true), Value::none()), (Key::U64(1), Value::none()), (ks("true"), Value::none())]));
    p.push(map_of(vec![(Key::U128(u128::MAX), u(1))]));
    p.push(map_of(vec![(ks("a"), Value::from(vec![u(1), Value::from("a")]))]));
    p.push(map_of(vec![(ks("a"), Value::from(vec![u(1), Value::from(true)]))]));
    p.push(map_of(vec![(ks("m"), map_of(vec![(ks("a"), u(1))]))]));
    p.push(map_of(vec![(ks("m"), map_of(vec![(ks("a"), u(2))]))]));
    p.push(Value::from(vec![map_of(vec![(ks("a"), u(1))])]));
    p.push(Value::from(vec![map_of(vec![(ks("a"), u(2))])]));
    p.push(Value::from(vec![map_of(vec![(ks("a"), u(1))]), u(0)]));
    p
}

fn jkey(k: &Key) -> serde_json::Value {
    json!(format!("{k:?}"))
}
fn jv(v: &Value) -> serde_json::Value {
    use tera::value::ValueKind as K;
    match v.kind() {
        K::Array => json!({"arr": v.as_array().unwrap().iter().map(jv).collect::<Vec<_>>()}),
        K::Map => json!({"map": sorted_entries(v.as_map().unwrap()).into_iter()
            .map(|(k, x)| json!([jkey(k), jv(x)])).collect::<Vec<_>>()}),
        _ => json_value(v),
    }
}


/// Rebuilds a value from the JSON written by `jv` (maps and undefined included).
fn vj(j: &serde_json::Value) -> Value {
    if let Some(o) = j.as_object() {
        if let Some(a) = o.get("arr") {
            return Value::from(a.as_array().unwrap().iter().map(vj).collect::<Vec<_>>());
        }
        if let Some(m) = o.get("map") {
            let mut out = Map::new();
            for e in m.as_array().unwrap() {
                let k = e[0].as_str().unwrap();
                let (kind, rest) = k.split_once('(').unwrap();
                let inner = &rest[..rest.len() - 1];
                let key: Key<'static> = match kind {
                    "Bool" => Key::Bool(inner == "true"),
                    "U64" => Key::U64(inner.parse().unwrap()),
                    "I64" => Key::I64(inner.parse().unwrap()),
                    "U128" => Key::U128(inner.parse().unwrap()),
                    "I128" => Key::I128(inner.parse().unwrap()),
                    "String" => Key::String(std::sync::Arc::from(serde_json::from_str::<String>(inner).unwrap_or(inner.trim_matches('"').to_string()))),
                    _ => Key::Str(leak(&serde_json::from_str::<String>(inner).unwrap_or(inner.trim_matches('"').to_string()))),
                };
                out.insert(key, vj(&e[1]));
            }
            return Value::from(out);
        }
    }
    value_from_json(j)
}

/// `--replay file`: re-evaluate the recorded values on the current implementation.
fn replay(path: &std::path::Path, tera: &Tera) {
    let r: serde_json::Value = serde_json::from_str(&std::fs::read_to_string(path).expect("replay file")).expect("json");
    let find = |k: &str| r.get(k).or_else(|| r.get("case").and_then(|c| c.get(k))).or_else(|| r.get("input").and_then(|c| c.get(k)));
    // values are rebuilt through the recorded route when the record names one (the route matters:
    // it decides e.g. whether a string is stored inline or on the heap)
    let by_label = |lab: &str| -> Option<Value> {
        if let Some(i) = lab.strip_prefix("base pool #") {
            pool().get(i.parse::<usize>().ok()?).cloned()
        } else {
            provenance_pool(tera).into_iter().find(|p| p.label == lab).map(|p| p.v)
        }
    };
    let labels: Vec<String> = find("provenance").and_then(|p| p.as_array().cloned()).map(|a| a.iter().filter_map(|x| x.as_str().map(String::from)).collect()).unwrap_or_default();
    let mut vals: Vec<Value> = Vec::new();
    if let Some(vs) = find("values") { vals = vs.as_array().unwrap().iter().map(vj).collect(); }
    if let (Some(a), Some(b)) = (find("a"), find("b")) { vals = vec![vj(a), vj(b)]; }
    if !labels.is_empty() && labels.len() == vals.len() {
        for (i, l) in labels.iter().enumerate() {
            if let Some(v) = by_label(l) {
                println!("[{i}] = {l}");
                vals[i] = v;
            }
        }
    }
    if vals.is_empty() {
        if let (Some(m), Some(k)) = (find("m"), find("k")) {
            let (m, mut k) = (vj(m), vj(k));
            if let Some(l) = find("provenance_of_k").and_then(|x| x.as_str()) {
                if let Some(v) = by_label(l) {
                    println!("k = {l}");
                    k = v;
                }
            }
            let mut ctx = Context::new();
            ctx.insert_value("m", m);
            ctx.insert_value("k", k);
            for e in ["m[k]", "k in m", "m is containing(pat=k)", "m | get(key=k)"] {
                println!("{e} => {}", eval_expr(tera, e, &ctx).json(jv));
            }
            return;
        }
        if let (Some(c), Some(x)) = (find("c"), find("x")) {
            let (mut c, mut x) = (vj(c), vj(x));
            if let Some(l) = find("provenance").and_then(|x| x.as_str()) {
                if let Some((nl, el)) = l.strip_prefix("needle: ").and_then(|r| r.split_once(" | element: ")) {
                    if let (Some(nv), Some(ev)) = (by_label(nl), by_label(el)) {
                        if c.as_array().map_or(false, |a| a.len() == 2 && a[0].as_str() == Some("other")) {
                            println!("x = {nl}; c = [\"other\", {el}]");
                            x = nv;
                            c = Value::from(vec![Value::from("other"), ev]);
                        }
                    }
                }
            }
            let mut ctx = Context::new();
            ctx.insert_value("c", c);
            ctx.insert_value("x", x);
            for e in ["x in c", "c is containing(pat=x)"] {
                println!("{e} => {}", eval_expr(tera, e, &ctx).json(jv));
            }
            return;
        }
        println!("nothing to replay in this record");
        return;
    }
    for (i, a) in vals.iter().enumerate() {
        for (j, b) in vals.iter().enumerate() {
            let r = api(a, b);
            if let Outcome::Ok(r) = r {
                println!("[{i}] vs [{j}]: == {} partial_cmp {:?} cmp {:?}", r.eq, r.pcmp, r.cmp);
            } else {
                println!("[{i}] vs [{j}]: panic");
            }
        }
    }
    let x = Value::from(vals.clone());
    let ctx = ctx_with("x", &x);
    println!("x | unique => {}", eval_expr(tera, "x | unique", &ctx).json(jv));
    println!("x | sort => {}", eval_expr(tera, "x | sort", &ctx).json(jv));
}

fn ctx_with(name: &'static str, v: &Value) -> Context {
    let mut c = Context::new();
    c.insert_value(name, v.clone());
    c
}

struct Api {
    eq: bool,
    pcmp: Option<Ordering>,
    cmp: Ordering,
}

fn api(a: &Value, b: &Value) -> Outcome<Api> {
    guarded(|| Ok(Api { eq: a == b, pcmp: a.partial_cmp(b), cmp: a.cmp(b) }))
}

fn is_container(v: &Value) -> bool {
    v.is_array() || v.is_map()
}

fn is_ident(s: &str) -> bool {
    let mut ch = s.chars();
    match ch.next() {
        Some(c) if c.is_ascii_alphabetic() || c == '_' => {}
        _ => return false,
    }
    ch.all(|c| c.is_ascii_alphanumeric() || c == '_')
        && !["true", "false", "none", "and", "or", "not", "in", "is", "if", "else", "loop", "True", "False", "None"].contains(&s)
}


/// Renders `src` and returns everything the `probe` filter saw (empty when the render failed).
fn probe_all(tera: &Tera, src: &str, ctx: &Context) -> Vec<Value> {
    take_probe();
    match guarded(|| tera.render_str(src, ctx, false)) {
        Outcome::Ok(_) => take_probe(),
        _ => {
            take_probe();
            Vec::new()
        }
    }
}

/// One value reached through one route; `class` names the abstract value: all members of a class
/// must be `==`, `cmp`-Equal, interchangeable as keys and as members of arrays/maps.
struct Prov {
    label: String,
    class: usize,
    v: Value,
}

#[derive(serde::Serialize)]
struct UserRec {
    name: String,
}
#[derive(serde::Serialize)]
struct AbRec {
    a: u32,
    b: String,
}

/// The same abstract values obtained through every route a value can take into a template:
/// Rust constructors, Key -> Value (owned and borrowed), serde (Context::insert,
/// from_serializable), template literals, arithmetic, filters, loop keys, keys/pairs filters,
/// safe and normal strings, short (<= 21 bytes, stored inline) and long strings.
fn provenance_pool(tera: &Tera) -> Vec<Prov> {
    let mut out: Vec<Prov> = Vec::new();
    let mut class = 0usize;
    let add = |out: &mut Vec<Prov>, class: usize, label: String, v: Value| {
        out.push(Prov { label, class, v });
    };
    let via = |expr: &str, ctx: &Context| -> Option<Value> {
        match eval_expr(tera, expr, ctx) {
            Outcome::Ok(v) => Some(v),
            _ => None,
        }
    };

    // ---- strings
    let long300: String = "x".repeat(300);
    let texts: Vec<String> = vec!["a".into(), "name".into(), "key_two".into(), "".into(), "é日".into(),
        "abcdefghijklmnopqrstu".into(), "abcdefghijklmnopqrstuv".into(), "日本語日本語日".into(), long300];
    for t in &texts {
        let c = class;
        class += 1;
        let tag = if t.len() > 40 { format!("<{} bytes>", t.len()) } else { format!("{t:?}") };
        let l = |route: &str| format!("str {tag} via {route}");
        add(&mut out, c, l("Value::from(&str)"), Value::from(t.as_str()));
        add(&mut out, c, l("Value::from(String)"), Value::from(t.clone()));
        add(&mut out, c, l("Value::safe_string"), Value::safe_string(t));
        add(&mut out, c, l("Value::normal_string"), Value::normal_string(t));
        add(&mut out, c, l("Value::from(Cow)"), Value::from(std::borrow::Cow::Borrowed(t.as_str())));
        add(&mut out, c, l("Value::from(Key::String)"), Value::from(ks(t)));
        add(&mut out, c, l("Value::from(Key::Str)"), Value::from(kb(t)));
        add(&mut out, c, l("Key::String.as_value()"), ks(t).as_value());
        add(&mut out, c, l("Key::Str.as_value()"), kb(t).as_value());
        add(&mut out, c, l("from_serializable(&str)"), Value::from_serializable(t.as_str()));
        add(&mut out, c, l("from_serializable(&String)"), Value::from_serializable(t));
        let mut ctx = Context::new();
        ctx.insert("x", t);
        let nchars = t.chars().count();
        let half: String = t.chars().take(nchars / 2).collect();
        let rest: String = t.chars().skip(nchars / 2).collect();
        ctx.insert("p", &half);
        ctx.insert("q", &rest);
        ctx.insert_value("mo", map_of(vec![(ks(t), Value::from(1u64))]));
        ctx.insert_value("mb", map_of(vec![(kb(t), Value::from(1u64))]));
        let mut hm = std::collections::HashMap::new();
        hm.insert(t.clone(), 1i32);
        ctx.insert("hm", &hm);
        let mut bm = std::collections::BTreeMap::new();
        bm.insert(t.as_str(), 1i32);
        ctx.insert("bm", &bm);
        let lit = format!("\"{t}\"");
        let exprs: Vec<(String, String)> = vec![
            ("Context::insert(&String)".into(), "x".into()),
            ("template literal".into(), lit.clone()),
            ("x ~ \"\"".into(), "x ~ \"\"".into()),
            ("\"\" ~ x".into(), "\"\" ~ x".into()),
            ("p ~ q".into(), "p ~ q".into()),
            ("x | str".into(), "x | str".into()),
            ("x | trim".into(), "x | trim".into()),
            ("x | replace".into(), "x | replace(from=\"#\", to=\"\")".into()),
            ("x | reverse | reverse".into(), "x | reverse | reverse".into()),
            ("x[:]".into(), "x[:]".into()),
            ("x | safe".into(), "x | safe".into()),
            ("x | default".into(), "x | default(value=\"zz\")".into()),
            ("[x] | first".into(), "[x] | first".into()),
            ("[x] | join".into(), "[x] | join(sep=\"\")".into()),
            ("x | split | join".into(), "x | split(pat=\"#\") | join(sep=\"#\")".into()),
            ("keys of owned-key map".into(), "(mo | keys)[0]".into()),
            ("keys of borrowed-key map".into(), "(mb | keys)[0]".into()),
            ("pairs of owned-key map".into(), "(mo | pairs)[0][0]".into()),
            ("keys of serde HashMap".into(), "(hm | keys)[0]".into()),
            ("keys of serde BTreeMap".into(), "(bm | keys)[0]".into()),
            ("keys of map literal".into(), format!("({{{lit}: 1}} | keys)[0]")),
            ("literal if-else".into(), format!("{lit} if true else 1")),
        ];
        for (route, e) in exprs {
            if let Some(v) = via(&e, &ctx) {
                add(&mut out, c, l(&route), v);
            }
        }
        for (route, src) in [
            ("loop key of owned-key map", "{% for k, v in mo %}{{ k | probe }}{% endfor %}".to_string()),
            ("loop key of borrowed-key map", "{% for k, v in mb %}{{ k | probe }}{% endfor %}".to_string()),
            ("loop key of serde HashMap", "{% for k, v in hm %}{{ k | probe }}{% endfor %}".to_string()),
            ("loop key of map literal", format!("{{% for k, v in {{{lit}: 1}} %}}{{{{ k | probe }}}}{{% endfor %}}")),
            ("set then read", "{% set y = x %}{{ y | probe }}".to_string()),
            ("captured by set-block", "{% set y %}{{ x | safe }}{% endset %}{{ y | probe }}".to_string()),
        ] {
            for v in probe_all(tera, &src, &ctx) {
                add(&mut out, c, l(route), v);
            }
        }
    }

    // ---- integers (and the floats equal to them)
    for z in [0i128, 1, -1, 255, 1i128 << 63, 1i128 << 64] {
        let c = class;
        class += 1;
        let l = |route: &str| format!("int {z} via {route}");
        for v in pools::int_reps(z) {
            add(&mut out, c, l(&format!("Value::from({})", v.name())), v);
        }
        let mut ctx = Context::new();
        if let Ok(x) = u64::try_from(z) {
            add(&mut out, c, l("Value::from(Key::U64)"), Value::from(Key::U64(x)));
            ctx.insert("u", &x);
            add(&mut out, c, l("from_serializable(u64)"), Value::from_serializable(&x));
            ctx.insert_value("mk", map_of(vec![(Key::U64(x), Value::none())]));
        } else {
            ctx.insert_value("mk", map_of(vec![(Key::I128(z), Value::none())]));
        }
        if let Ok(x) = i64::try_from(z) {
            add(&mut out, c, l("Value::from(Key::I64)"), Value::from(Key::I64(x)));
            ctx.insert("i", &x);
            add(&mut out, c, l("from_serializable(i64)"), Value::from_serializable(&x));
        }
        if let Ok(x) = u8::try_from(z) {
            ctx.insert("b", &x);
        }
        if let Ok(x) = u128::try_from(z) {
            add(&mut out, c, l("Value::from(Key::U128)"), Value::from(Key::U128(x)));
            ctx.insert("uu", &x);
        }
        add(&mut out, c, l("Value::from(Key::I128)"), Value::from(Key::I128(z)));
        ctx.insert("ii", &z);
        ctx.insert_value("w", Value::from(z));
        ctx.insert("s", &z.to_string());
        let f = z as f64;
        if f as i128 == z && f.abs() < 1e30 {
            add(&mut out, c, l("Value::from(f64)"), Value::from(f));
            ctx.insert("f", &f);
            add(&mut out, c, l("from_serializable(f32)"), Value::from_serializable(&(f as f32)));
        }
        let mut exprs: Vec<(String, String)> = vec![
            ("Context::insert(u64)".into(), "u".into()), ("Context::insert(i64)".into(), "i".into()),
            ("Context::insert(u8)".into(), "b".into()), ("Context::insert(u128)".into(), "uu".into()),
            ("Context::insert(i128)".into(), "ii".into()), ("Context::insert(f64)".into(), "f".into()),
            ("w + 0 (arithmetic result)".into(), "w + 0".into()), ("w * 1".into(), "w * 1".into()),
            ("0 + w".into(), "0 + w".into()), ("w - 0".into(), "w - 0".into()),
            ("s | int".into(), "s | int".into()), ("f | round".into(), "f | round".into()),
            ("keys of int-key map".into(), "(mk | keys)[0]".into()),
            ("f + 0".into(), "f + 0".into()),
        ];
        if (0..=i64::MAX as i128).contains(&z) {
            exprs.push(("template literal".into(), format!("{z}")));
            exprs.push(("literal + 0".into(), format!("{z} + 0")));
            exprs.push(("float literal".into(), format!("{z}.0")));
            exprs.push(("keys of map literal".into(), format!("({{{z}: 1}} | keys)[0]")));
        }
        if z == -1 {
            exprs.push(("0 - 1".into(), "0 - 1".into()));
            exprs.push(("-1 literal".into(), "-1".into()));
        }
        if z == 0 || z == 1 {
            exprs.push(("length filter".into(), if z == 0 { "[] | length".into() } else { "[none] | length".into() }));
            exprs.push(("loop.index".into(), if z == 0 { "[] | length".into() } else { "[7] | length".into() }));
        }
        for (route, e) in exprs {
            if let Some(v) = via(&e, &ctx) {
                if !v.is_undefined() {
                    add(&mut out, c, l(&route), v);
                }
            }
        }
        for v in probe_all(tera, "{% for k, v in mk %}{{ k | probe }}{% endfor %}", &ctx) {
            add(&mut out, c, l("loop key of int-key map"), v);
        }
    }

    // ---- bools and none
    for b in [true, false] {
        let c = class;
        class += 1;
        let l = |route: &str| format!("bool {b} via {route}");
        add(&mut out, c, l("Value::from(bool)"), Value::from(b));
        add(&mut out, c, l("Value::from(Key::Bool)"), Value::from(Key::Bool(b)));
        add(&mut out, c, l("from_serializable"), Value::from_serializable(&b));
        let mut ctx = Context::new();
        ctx.insert("x", &b);
        ctx.insert_value("mk", map_of(vec![(Key::Bool(b), Value::none())]));
        for (route, e) in [("Context::insert", "x".to_string()), ("template literal", format!("{b}")),
            ("comparison result", if b { "1 == 1".to_string() } else { "1 == 2".to_string() }),
            ("not", if b { "not false".to_string() } else { "not true".to_string() }),
            ("and", format!("{b} and {b}")), ("in", if b { "1 in [1]".to_string() } else { "1 in []".to_string() }),
            ("is test", if b { "1 is defined".to_string() } else { "nope is defined".to_string() }),
            ("keys of bool-key map", "(mk | keys)[0]".to_string())]
        {
            if let Some(v) = via(&e, &ctx) {
                add(&mut out, c, l(route), v);
            }
        }
    }
    {
        let c = class;
        class += 1;
        add(&mut out, c, "none via Value::none()".into(), Value::none());
        add(&mut out, c, "none via from_serializable(Option::None)".into(), Value::from_serializable(&Option::<i32>::None));
        add(&mut out, c, "none via from_serializable(())".into(), Value::from_serializable(&()));
        let mut ctx = Context::new();
        ctx.insert("x", &Option::<String>::None);
        for (route, e) in [("Context::insert(None)", "x"), ("template literal", "none"), ("[] | first", "[] | first")] {
            if let Some(v) = via(e, &ctx) {
                add(&mut out, c, format!("none via {route}"), v);
            }
        }
    }

    // ---- arrays
    {
        let c = class;
        class += 1;
        let l = |route: &str| format!("array [1, \"a\"] via {route}");
        add(&mut out, c, l("Value::from(Vec)"), Value::from(vec![Value::from(1u64), Value::from("a")]));
        add(&mut out, c, l("Value::from(Vec) i128 + key string"), Value::from(vec![Value::from(1i128), Value::from(ks("a"))]));
        add(&mut out, c, l("from_serializable(tuple)"), Value::from_serializable(&(1u8, "a")));
        let mut ctx = Context::new();
        ctx.insert("x", &serde_json::json!([1, "a"]));
        ctx.insert_value("mo", map_of(vec![(ks("a"), Value::from(1u64))]));
        for (route, e) in [("Context::insert(json)", "x"), ("template literal", "[1, \"a\"]"), ("literal with arithmetic", "[0 + 1, \"\" ~ \"a\"]"),
            ("x | reverse | reverse", "x | reverse | reverse"), ("x[:]", "x[:]"), ("x | unique", "x | unique"),
            ("pairs entry reversed", "(mo | pairs)[0] | reverse")]
        {
            if let Some(v) = via(e, &ctx) {
                add(&mut out, c, l(route), v);
            }
        }
    }
    {
        let c = class;
        class += 1;
        let l = |route: &str| format!("array [\"a\", \"b\"] via {route}");
        add(&mut out, c, l("Value::from(Vec)"), Value::from(vec![Value::from("a"), Value::from("b")]));
        add(&mut out, c, l("from_serializable(Vec<&str>)"), Value::from_serializable(&vec!["a", "b"]));
        let mut ctx = Context::new();
        ctx.insert_value("mo", map_of(vec![(ks("a"), Value::from(1u64)), (ks("b"), Value::from(2u64))]));
        for (route, e) in [("template literal", "[\"a\", \"b\"]"), ("split", "\"a,b\" | split(pat=\",\")"),
            ("keys | sort", "mo | keys | sort"), ("keys of map literal | sort", "{\"a\": 1, \"b\": 2} | keys | sort")]
        {
            if let Some(v) = via(e, &ctx) {
                add(&mut out, c, l(route), v);
            }
        }
    }

    // ---- maps
    {
        let c = class;
        class += 1;
        let l = |route: &str| format!("map {{a: 1, b: \"x\"}} via {route}");
        add(&mut out, c, l("Map with Key::String"), map_of(vec![(ks("a"), Value::from(1u64)), (ks("b"), Value::from("x"))]));
        add(&mut out, c, l("Map with Key::Str"), map_of(vec![(kb("b"), Value::safe_string("x")), (kb("a"), Value::from(1i128))]));
        add(&mut out, c, l("from_serializable(struct)"), Value::from_serializable(&AbRec { a: 1, b: "x".into() }));
        let mut ctx = Context::new();
        ctx.insert("x", &serde_json::json!({"a": 1, "b": "x"}));
        ctx.insert("r", &AbRec { a: 1, b: "x".into() });
        for (route, e) in [("Context::insert(json)", "x"), ("Context::insert(struct)", "r"), ("template literal", "{\"a\": 1, \"b\": \"x\"}"),
            ("literal with computed values", "{\"b\": \"\" ~ \"x\", \"a\": 0 + 1}")]
        {
            if let Some(v) = via(e, &ctx) {
                add(&mut out, c, l(route), v);
            }
        }
    }
    {
        let c = class;
        class += 1;
        let l = |route: &str| format!("map {{1: \"x\"}} via {route}");
        add(&mut out, c, l("Map with Key::U64"), map_of(vec![(Key::U64(1), Value::from("x"))]));
        add(&mut out, c, l("Map with Key::I128"), map_of(vec![(Key::I128(1), Value::from(ks("x")))]));
        let mut bm = std::collections::BTreeMap::new();
        bm.insert(1u8, "x");
        add(&mut out, c, l("from_serializable(BTreeMap<u8,_>)"), Value::from_serializable(&bm));
        let ctx = Context::new();
        if let Some(v) = via("{1: \"x\"}", &ctx) {
            add(&mut out, c, l("template literal"), v);
        }
    }
    {
        // a map that stores an undefined value (Rust API, and a literal with a missing field)
        let c = class;
        class += 1;
        let l = |route: &str| format!("map {{nick: undefined, n: 1}} via {route}");
        add(&mut out, c, l("Map with Value::undefined()"), map_of(vec![(ks("nick"), Value::undefined()), (ks("n"), Value::from(1u64))]));
        let mut ctx = Context::new();
        ctx.insert("user", &UserRec { name: "bob".into() });
        if let Some(v) = via("{\"nick\": user.nick, \"n\": 1}", &ctx) {
            add(&mut out, c, l("literal with a missing field"), v);
        }
    }
    let _ = class;
    out
}

fn main() {
    let args = parse_args();
    silence_panics();
    let mut tera = Tera::default();
    register_probe(&mut tera);
    if let Some(p) = &args.replay {
        replay(p, &tera);
        return;
    }
    let mut rng = Rng::new(args.seed);
    let thorough = args.tier == "thorough";
    let mut meta = Meta::default();

    let hdr = "From TeraV Require Import Model.Value Corr.CorrC15.";
    let mut s_api = Sink::new(&args.out, "api", hdr, "check_api");
    let mut s_pair = Sink::new(&args.out, "pair", hdr, "check_pair");
    let mut s_lookup = Sink::new(&args.out, "lookup", hdr, "check_lookup");
    let mut s_member = Sink::new(&args.out, "member", hdr, "check_member");

    let mut pool = pool();
    let n_base = pool.len();
    let prov = provenance_pool(&tera);
    let mut labels: Vec<String> = (0..n_base).map(|i| format!("base pool #{i}")).collect();
    let mut class_of: Vec<Option<usize>> = vec![None; n_base];
    for p in &prov {
        pool.push(p.v.clone());
        labels.push(p.label.clone());
        class_of.push(Some(p.class));
    }
    let n = pool.len();

    // ---------------------------------------------------------------- API answers on all pairs
    let mut eq = vec![vec![false; n]; n];
    let mut cm = vec![vec![Ordering::Equal; n]; n];
    let mut pc = vec![vec![None; n]; n];
    for i in 0..n {
        for j in 0..n {
            match api(&pool[i], &pool[j]) {
                Outcome::Ok(r) => {
                    eq[i][j] = r.eq;
                    cm[i][j] = r.cmp;
                    pc[i][j] = r.pcmp;
                }
                Outcome::Panic(m) => {
                    meta.oracle_fail(&format!("panic in ==/cmp: {m}"), None, json!({"a": jv(&pool[i]), "b": jv(&pool[j])}));
                }
                Outcome::Err(..) => unreachable!(),
            }
        }
    }

    // ---------------------------------------------------------------- law oracles (implementation only)
    let mut law_checks = 0usize;
    let mut law_fail: std::collections::BTreeMap<&'static str, usize> = Default::default();
    let mut fail = |meta: &mut Meta, what: &'static str, idx: &[usize]| {
        let c = law_fail.entry(what).or_default();
        *c += 1;
        if *c <= 3 {
            let vals: Vec<_> = idx.iter().map(|i| jv(&pool[*i])).collect();
            let prov: Vec<_> = idx.iter().map(|i| labels[*i].clone()).collect();
            meta.oracle_fail(&format!("law violated by the implementation: {what}"), None, json!({"values": vals, "provenance": prov}));
        }
    };
    for i in 0..n {
        law_checks += 2;
        if !eq[i][i] {
            fail(&mut meta, "== not reflexive", &[i]);
        }
        if cm[i][i] != Ordering::Equal {
            fail(&mut meta, "cmp(a,a) != Equal", &[i]);
        }
        for j in 0..n {
            law_checks += 4;
            if eq[i][j] != eq[j][i] {
                fail(&mut meta, "== not symmetric", &[i, j]);
            }
            if cm[i][j] != cm[j][i].reverse() {
                fail(&mut meta, "cmp not antisymmetric (cmp(a,b) != reverse(cmp(b,a)))", &[i, j]);
            }
            if (cm[i][j] == Ordering::Equal) != eq[i][j] {
                fail(&mut meta, "cmp(a,b) == Equal disagrees with a == b", &[i, j]);
            }
            if let Some(r) = pc[i][j] {
                if r != cm[i][j] {
                    fail(&mut meta, "partial_cmp answers differently from cmp", &[i, j]);
                }
            }
        }
    }
    for i in 0..n {
        for j in 0..n {
            for k in 0..n {
                law_checks += 2;
                if eq[i][j] && eq[j][k] && !eq[i][k] {
                    fail(&mut meta, "== not transitive", &[i, j, k]);
                }
                let (x, y, z) = (cm[i][j], cm[j][k], cm[i][k]);
                let ok = match (x, y) {
                    (Ordering::Equal, r) => z == r,
                    (r, Ordering::Equal) => z == r,
                    (Ordering::Less, Ordering::Less) => z == Ordering::Less,
                    (Ordering::Greater, Ordering::Greater) => z == Ordering::Greater,
                    _ => true,
                };
                if !ok {
                    fail(&mut meta, "cmp not transitive", &[i, j, k]);
                }
            }
        }
    }
    // the same abstract value reached through two routes: must be ==, Equal, and never ordered
    let mut same_class: Vec<(usize, usize)> = Vec::new();
    for i in n_base..n {
        for j in n_base..n {
            if class_of[i] == class_of[j] {
                same_class.push((i, j));
                law_checks += 2;
                if !eq[i][j] {
                    fail(&mut meta, "the same value obtained through two routes is not ==", &[i, j]);
                }
                if cm[i][j] != Ordering::Equal {
                    fail(&mut meta, "the same value obtained through two routes does not compare Equal", &[i, j]);
                }
            }
        }
    }
    meta.oracle_checks += law_checks;

    // ---------------------------------------------------------------- api family (model side)
    let push_api = |s: &mut Sink, i: usize, j: usize| {
        let (a, b) = (&pool[i], &pool[j]);
        let g = format!(
            "{{| a_a := {}; a_b := {}; a_eq := {}; a_pcmp := {}; a_cmp := {} |}}",
            gal_value(a), gal_value(b), gal_bool(eq[i][j]), gal_ocmp(pc[i][j]), gal_cmp(cm[i][j])
        );
        let desc = json!({"a": jv(a), "b": jv(b), "provenance": [labels[i].clone(), labels[j].clone()],
            "impl": {"eq": eq[i][j], "partial_cmp": format!("{:?}", pc[i][j]), "cmp": format!("{:?}", cm[i][j])}});
        let nontrivial = i != j && (is_container(a) || is_container(b) || a.kind() != b.kind());
        let tag = if is_container(a) && is_container(b) { "both-containers" } else if a.is_number() && b.is_number() { "both-numbers" } else { "other" };
        s.push(g, desc, nontrivial, None, &[tag]);
    };
    // every pair of routes to the same value (identical terms with identical answers collapse in the sink)
    for &(i, j) in &same_class {
        push_api(&mut s_api, i, j);
    }
    if thorough {
        for i in 0..n_base {
            for j in 0..n_base {
                push_api(&mut s_api, i, j);
            }
        }
        for _ in 0..4000 {
            let (i, j) = (rng.below(n), rng.below(n));
            push_api(&mut s_api, i, j);
        }
    } else {
        // every value against itself and its neighbours, then a random sample
        for i in 0..n_base {
            push_api(&mut s_api, i, i);
            push_api(&mut s_api, i, (i + 1) % n_base);
        }
        for _ in 0..1000 {
            let (i, j) = (rng.below(n_base), rng.below(n_base));
            push_api(&mut s_api, i, j);
        }
        for _ in 0..500 {
            let (i, j) = (rng.below(n), rng.below(n));
            push_api(&mut s_api, i, j);
        }
    }

    // ---------------------------------------------------------------- pair family (templates)
    let n_pair = if thorough { 3000 } else { 480 };
    let mut pair_idx: Vec<(usize, usize)> = Vec::new();
    // D2 neighbourhood first: all pairs of containers
    let containers: Vec<usize> = (0..n_base).filter(|i| is_container(&pool[*i])).collect();
    for &i in &containers {
        for &j in &containers {
            if thorough || rng.chance(1, 6) {
                pair_idx.push((i, j));
            }
        }
    }
    while pair_idx.len() < n_pair {
        pair_idx.push((rng.below(n_base), rng.below(n_base)));
    }
    // routes to the same value, through the template operators (all of them: they collapse in the
    // sink when the answers agree, and the render side is cheap)
    for &(i, j) in &same_class {
        if thorough || rng.chance(1, 4) {
            pair_idx.push((i, j));
        }
    }
    for (i, j) in pair_idx {
        let (a, b) = (&pool[i], &pool[j]);
        let x = Value::from(vec![a.clone(), b.clone()]);
        let ctx = ctx_with("x", &x);
        let req = eval_expr(&tera, "x[0] == x[1]", &ctx);
        let rlt = eval_expr(&tera, "x[0] < x[1]", &ctx);
        let runiq = eval_expr(&tera, "x | unique", &ctx);
        let rsort = eval_expr(&tera, "x | sort", &ctx);
        for (r, what) in [(&req, "=="), (&rlt, "<"), (&runiq, "unique"), (&rsort, "sort")] {
            meta.oracle_checks += 1;
            if let Outcome::Panic(m) = r {
                meta.oracle_fail(&format!("panic in `{what}`: {m}"), None, json!({"a": jv(a), "b": jv(b), "provenance": [labels[i].clone(), labels[j].clone()]}));
            }
        }
        // property oracle on the template answers themselves: unique keeps b iff a != b
        meta.oracle_checks += 1;
        if let (Outcome::Ok(e), Outcome::Ok(uq)) = (&req, &runiq) {
            let kept = uq.as_array().map_or(0, |x| x.len());
            if (e.as_bool() == Some(true)) != (kept == 1) {
                meta.oracle_fail("`[a, b] | unique` disagrees with `a == b`", None,
                    json!({"a": jv(a), "b": jv(b), "provenance": [labels[i].clone(), labels[j].clone()], "a==b": jv(e), "unique": jv(uq)}));
            }
        }
        if class_of[i].is_some() && class_of[i] == class_of[j] {
            meta.oracle_checks += 1;
            if !matches!(&req, Outcome::Ok(e) if e.as_bool() == Some(true)) {
                meta.oracle_fail("`a == b` is not true for the same value obtained through two routes", None,
                    json!({"a": jv(a), "b": jv(b), "provenance": [labels[i].clone(), labels[j].clone()], "a==b": req.json(jv)}));
            }
        }
        let g = format!(
            "{{| p_a := {}; p_b := {}; p_eq := {}; p_pcmp := {}; p_cmp := {}; p_req := {}; p_rlt := {}; p_uniq := {}; p_sort := {} |}}",
            gal_value(a), gal_value(b), gal_bool(eq[i][j]), gal_ocmp(pc[i][j]), gal_cmp(cm[i][j]),
            req.gal(gal_value), rlt.gal(gal_value), runiq.gal(gal_value), rsort.gal(gal_value)
        );
        let desc = json!({"a": jv(a), "b": jv(b), "provenance": [labels[i].clone(), labels[j].clone()], "impl": {"eq": eq[i][j], "partial_cmp": format!("{:?}", pc[i][j]),
            "cmp": format!("{:?}", cm[i][j]), "a==b": req.json(jv), "a<b": rlt.json(jv), "[a,b]|unique": runiq.json(jv),
            "[a,b]|sort": rsort.json(jv)}});
        let nontrivial = i != j && (is_container(a) || is_container(b) || a.kind() != b.kind());
        let tag = if is_container(a) && is_container(b) { "both-containers" } else { "other" };
        s_pair.push(g, desc, nontrivial, None, &[tag]);
    }

    // ---------------------------------------------------------------- lookups
    // key pool: every kind, same number in several widths, owned and borrowed strings
    let int_keys: Vec<i128> = vec![0, 1, -1, 2, 7, 255, -128, i64::MAX as i128, i64::MIN as i128, 1i128 << 63,
        u64::MAX as i128, 1i128 << 64, i128::MAX, i128::MIN];
    let str_keys = ["a", "b", "k1", "key_two", "", "é", "日本", "1", "true", "A", "x y"];
    let key_of_int = |z: i128, rng: &mut Rng| -> Key<'static> {
        let mut opts: Vec<Key<'static>> = vec![Key::I128(z)];
        if let Ok(x) = u64::try_from(z) { opts.push(Key::U64(x)); }
        if let Ok(x) = i64::try_from(z) { opts.push(Key::I64(x)); }
        if let Ok(x) = u128::try_from(z) { opts.push(Key::U128(x)); }
        opts[rng.below(opts.len())].clone()
    };
    let mut lookup_vals: Vec<Value> = Vec::new();
    for z in &int_keys {
        lookup_vals.extend(pools::int_reps(*z));
    }
    lookup_vals.push(Value::from(u128::MAX));
    lookup_vals.push(Value::from(i128::MAX as u128 + 1));
    for s in str_keys {
        lookup_vals.push(Value::from(s));
    }
    lookup_vals.push(Value::safe_string("a"));
    lookup_vals.push(Value::safe_string("k1"));
    lookup_vals.push(Value::from("missing"));
    lookup_vals.push(Value::from(true));
    lookup_vals.push(Value::from(false));
    lookup_vals.push(Value::from(1.0f64));
    lookup_vals.push(Value::from(0.0f64));
    lookup_vals.push(Value::from(f64::NAN));
    lookup_vals.push(Value::none());
    lookup_vals.push(Value::from(vec![Value::from(1u64)]));
    lookup_vals.push(map_of(vec![(ks("a"), Value::from(1u64))]));
    lookup_vals.push(Value::bytes(vec![0x61u8]));

    // one (map, operand) pair through all five lookup routes
    let do_lookup = |meta: &mut Meta, sink: &mut Sink, m: &Value, k: &Value, prov_label: &str| {
        let entries = sorted_entries(m.as_map().unwrap());
        let size = entries.len();
        let mut ctx = Context::new();
        ctx.insert_value("m", m.clone());
        ctx.insert_value("k", k.clone());
        let r_idx = eval_expr(&tera, "m[k]", &ctx);
        let r_in = eval_expr(&tera, "k in m", &ctx);
        let r_cont = eval_expr(&tera, "m is containing(pat=k)", &ctx);
        let r_get = eval_expr(&tera, "m | get(key=k)", &ctx);
        let r_getd = eval_expr(&tera, "m | get(key=k, default=0)", &ctx);
        let r_attr = match k.as_str() {
            Some(s) if is_ident(s) => Some(eval_expr(&tera, &format!("m.{s}"), &ctx)),
            _ => None,
        };
        let input = || json!({"m": jv(m), "k": jv(k), "provenance_of_k": prov_label});
        let mut all: Vec<(&Outcome<Value>, &str)> = vec![(&r_idx, "m[k]"), (&r_in, "in"), (&r_cont, "containing"), (&r_get, "get"), (&r_getd, "get+default")];
        if let Some(r) = &r_attr { all.push((r, "m.k")); }
        for (r, what) in all {
            meta.oracle_checks += 1;
            if let Outcome::Panic(msg) = r {
                meta.oracle_fail(&format!("panic in `{what}`: {msg}"), None, input());
            }
        }
        // oracle, independent of the engine's Key Eq/Hash: the key is present iff some stored key has
        // the same kind class and the same mathematical value / text, whatever value is stored under it
        #[derive(PartialEq)]
        enum NK { B(bool), Neg(i128), Pos(u128), S(String) }
        let norm_key = |k: &Key| -> NK { match k {
            Key::Bool(b) => NK::B(*b),
            Key::U64(x) => NK::Pos(*x as u128),
            Key::U128(x) => NK::Pos(*x),
            Key::I64(x) => if *x < 0 { NK::Neg(*x as i128) } else { NK::Pos(*x as u128) },
            Key::I128(x) => if *x < 0 { NK::Neg(*x) } else { NK::Pos(*x as u128) },
            Key::String(s) => NK::S(s.to_string()),
            Key::Str(s) => NK::S(s.to_string()),
            _ => NK::S(String::from("\u{0}?")),
        } };
        let is_float = matches!(k.kind(), tera::value::ValueKind::F64);
        let norm_k: Option<NK> = if let Some(b) = k.as_bool() { Some(NK::B(b)) } else if let Some(s) = k.as_str() { Some(NK::S(s.to_string())) }
            else if is_float { None } else if let Some(u) = k.as_u128() { Some(NK::Pos(u)) } else { k.as_i128().map(NK::Neg) };
        let is_keyish = norm_k.is_some();
        let stored: Option<&Value> = norm_k.as_ref().and_then(|nk| entries.iter().find(|(k2, _)| norm_key(k2) == *nk).map(|(_, v)| *v));
        let present = stored.is_some();
        let found_in = matches!(&r_in, Outcome::Ok(v) if v.as_bool() == Some(true));
        let found_cont = matches!(&r_cont, Outcome::Ok(v) if v.as_bool() == Some(true));
        meta.oracle_checks += 1;
        if found_in != present {
            meta.oracle_fail("`k in m` does not say whether a key equal to k is stored", None, json!({"input": input(), "key_present": present, "k in m": r_in.json(jv)}));
        }
        if found_cont != present {
            meta.oracle_fail("`m is containing(pat=k)` does not say whether a key equal to k is stored", None, json!({"input": input(), "key_present": present, "containing": r_cont.json(jv)}));
        }
        if is_keyish {
            let expect = stored.cloned().unwrap_or(Value::undefined());
            let same = |v: &Value| v.kind() == expect.kind() && (v.is_undefined() || *v == expect);
            if !matches!(&r_idx, Outcome::Ok(v) if same(v)) {
                meta.oracle_fail("m[k] is not the value stored under the key equal to k", None, json!({"input": input(), "key_present": present, "m[k]": r_idx.json(jv)}));
            }
            if let Some(r) = &r_attr {
                if !matches!(r, Outcome::Ok(v) if same(v)) {
                    meta.oracle_fail("m.k is not the value stored under the key equal to k", None, json!({"input": input(), "key_present": present, "m.k": r.json(jv)}));
                }
            }
            if k.is_string() {
                let ok = match &r_get { Outcome::Ok(v) => present && same(v), Outcome::Err(..) => !present, Outcome::Panic(_) => false };
                if !ok {
                    meta.oracle_fail("get(key=k) is not the value stored under the key equal to k", None, json!({"input": input(), "key_present": present, "get": r_get.json(jv)}));
                }
            }
        }
        let g = format!(
            "{{| l_m := {}; l_k := {}; l_idx := {}; l_in := {}; l_cont := {}; l_get := {}; l_getd := {}; l_attr := {} |}}",
            gal_value(m), gal_value(k), r_idx.gal(gal_value), r_in.gal(gal_value), r_cont.gal(gal_value),
            r_get.gal(gal_value), r_getd.gal(gal_value), gal_opt(&r_attr, |r| r.gal(gal_value))
        );
        let desc = json!({"m": jv(m), "k": jv(k), "provenance_of_k": prov_label, "impl": {"m[k]": r_idx.json(jv), "k in m": r_in.json(jv),
            "containing": r_cont.json(jv), "get": r_get.json(jv), "get+default": r_getd.json(jv),
            "m.k": r_attr.as_ref().map(|r| r.json(jv))}});
        let nontrivial = size >= 1 && is_keyish;
        let tag_size = if size <= 6 { "size<=cutoff" } else { "size>cutoff" };
        let tag_found = if present { "key-present" } else { "key-absent" };
        let tag_attr = if r_attr.is_some() { "attr-path" } else { "no-attr" };
        let tag_stored = match stored { Some(v) if v.is_undefined() => "stored:undefined", Some(v) if v.is_none() => "stored:none", Some(_) => "stored:value", None => "stored:-" };
        sink.push(g, desc, nontrivial, None, &[tag_size, tag_found, tag_attr, tag_stored]);
    };

    let maps_per_size = if thorough { 6 } else { 2 };
    let lookups_per_map = if thorough { 0 } else { 16 };
    for size in 0..=16usize {
        for variant in 0..maps_per_size {
            // choose `size` distinct keys
            let mut entries: Vec<(Key<'static>, Value)> = Vec::new();
            let mut tries = 0;
            while entries.len() < size && tries < 1000 {
                tries += 1;
                let k: Key<'static> = match (variant + rng.below(3)) % 3 {
                    0 => key_of_int(*rng.pick(&int_keys), &mut rng),
                    1 => {
                        let s = *rng.pick(&str_keys);
                        if rng.chance(1, 2) { ks(s) } else { kb(s) }
                    }
                    _ => {
                        if rng.chance(1, 6) { Key::Bool(rng.chance(1, 2)) } else if rng.chance(1, 2) {
                            key_of_int(rng.range(-3, 40) as i128, &mut rng)
                        } else {
                            let s = format!("f{}", rng.below(30));
                            if rng.chance(1, 2) { ks(&s) } else { kb(&s) }
                        }
                    }
                };
                if entries.iter().any(|(k2, _)| *k2 == k) {
                    continue;
                }
                let v = match rng.below(8) { 0 => Value::undefined(), 1 => Value::none(), _ => Value::from(format!("v{}", entries.len())) };
                entries.push((k, v));
            }
            let m = map_of(entries.clone());
            // lookups: every stored key in another representation + pool values
            let mut ks_: Vec<Value> = Vec::new();
            for (k, _) in &entries {
                match k {
                    Key::Bool(b) => ks_.push(Value::from(*b)),
                    Key::U64(_) | Key::I64(_) | Key::U128(_) | Key::I128(_) => {
                        let kv = Value::from(k.clone());
                        if let Some(z) = kv.as_i128() { ks_.extend(pools::int_reps(z)); } else { ks_.push(kv); }
                    }
                    Key::String(s) => { ks_.push(Value::from(&**s)); ks_.push(Value::safe_string(&**s)); }
                    Key::Str(s) => ks_.push(Value::from(*s)),
                    _ => {}
                }
            }
            if !thorough && ks_.len() > 10 {
                let mut keep = Vec::new();
                for _ in 0..10 { keep.push(ks_[rng.below(ks_.len())].clone()); }
                ks_ = keep;
            }
            for _ in 0..lookups_per_map {
                ks_.push(rng.pick(&lookup_vals).clone());
            }
            if thorough {
                ks_.extend(lookup_vals.iter().cloned());
            }
            for k in ks_ {
                do_lookup(&mut meta, &mut s_lookup, &m, &k, "");
            }
        }
    }

    // maps that store undefined / none values, for every key kind and width, both sides of the
    // scan cutoff, built through the Rust API and by map literals with missing variables
    {
        let filler = |n: usize| -> Vec<(Key<'static>, Value)> { (0..n).map(|i| (ks(&format!("fill{i}")), Value::from(i as u64))).collect() };
        let key_variants: Vec<(Key<'static>, Vec<Value>)> = vec![
            (ks("key"), vec![Value::from("key"), Value::safe_string("key"), Value::from(ks("key")), Value::from("nokey")]),
            (kb("key"), vec![Value::from("key"), Value::from(ks("key"))]),
            (Key::U64(1), vec![Value::from(1u64), Value::from(1i64), Value::from(1u128), Value::from(1i128), Value::from(2u64)]),
            (Key::I64(-5), vec![Value::from(-5i64), Value::from(-5i128), Value::from(5u64)]),
            (Key::U128(u128::MAX), vec![Value::from(u128::MAX), Value::from(u64::MAX)]),
            (Key::I128(1i128 << 64), vec![Value::from(1i128 << 64), Value::from(1u128 << 64)]),
            (Key::Bool(true), vec![Value::from(true), Value::from(false), Value::from(1u64)]),
        ];
        for (key, probes) in &key_variants {
            for stored in [Value::undefined(), Value::none(), Value::from(0u64), Value::from("")] {
                for extra in [0usize, 1, 5, 6, 12] {
                    if !thorough && (extra == 1 || extra == 12) && !stored.is_undefined() {
                        continue;
                    }
                    let mut e = filler(extra);
                    e.push((key.clone(), stored.clone()));
                    let m = map_of(e);
                    for k in probes {
                        do_lookup(&mut meta, &mut s_lookup, &m, k, "stored-undefined-or-none");
                    }
                }
            }
        }
        // literals whose value expressions are missing variables / fields
        let mut ctx = Context::new();
        ctx.insert("user", &UserRec { name: "bob".into() });
        ctx.insert("one", &1u64);
        for src in ["{\"nick\": user.nick, \"name\": user.name}", "{\"nick\": user.nick, 1: user.nick, true: user.nick, \"n\": none}",
            "{1: user.nick, 2: user.name, \"a\": 1, \"b\": 2, \"c\": 3, \"d\": 4, \"e\": user.nick}"]
        {
            if let Outcome::Ok(m) = eval_expr(&tera, src, &ctx) {
                if !m.is_map() {
                    continue;
                }
                for k in [Value::from("nick"), Value::from("name"), Value::from(1u64), Value::from(1i128), Value::from(true), Value::from("n"),
                    Value::from("e"), Value::from("zz"), Value::from(2i64), Value::from(ks("nick"))]
                {
                    do_lookup(&mut meta, &mut s_lookup, &m, &k, "literal-with-missing-values");
                }
            }
        }
    }

    // lookups by values of every provenance: a key stored as owned / borrowed string or as an integer
    // of some width, probed with the same abstract value obtained through every route
    {
        for p in &prov {
            let kinds_ok = p.v.is_string() || p.v.is_bool() || (p.v.is_number() && !matches!(p.v.kind(), tera::value::ValueKind::F64));
            if !kinds_ok {
                continue;
            }
            // the stored key is built from the Rust side in a fixed representation of the same abstract value
            let stored: Vec<Key<'static>> = if let Some(t) = p.v.as_str() {
                vec![ks(t), kb(t)]
            } else if let Some(b) = p.v.as_bool() {
                vec![Key::Bool(b)]
            } else if let Some(z) = p.v.as_i128() {
                let mut v = vec![Key::I128(z)];
                if let Ok(x) = u64::try_from(z) { v.push(Key::U64(x)); }
                if let Ok(x) = i64::try_from(z) { v.push(Key::I64(x)); }
                v
            } else {
                vec![Key::U128(p.v.as_u128().unwrap())]
            };
            for (n_extra, key) in stored.into_iter().enumerate() {
                if !thorough && rng.chance(1, 2) {
                    continue;
                }
                let mut e: Vec<(Key<'static>, Value)> = (0..(n_extra * 7)).map(|i| (ks(&format!("fill{i}")), Value::from(i as u64))).collect();
                e.push((key, Value::from("hit")));
                let m = map_of(e);
                do_lookup(&mut meta, &mut s_lookup, &m, &p.v, &p.label);
            }
        }
    }

    // ---------------------------------------------------------------- membership in arrays / strings
    let n_member = if thorough { 2000 } else { 320 };
    let arrays: Vec<Value> = {
        let mut v = Vec::new();
        for _ in 0..40 {
            let len = rng.below(6);
            v.push(Value::from((0..len).map(|_| rng.pick(&pool).clone()).collect::<Vec<_>>()));
        }
        v.push(Value::from("hello wörld 日本"));
        v.push(Value::from(""));
        v.push(Value::safe_string("a<b>a"));
        v.push(Value::from(3u64));
        v.push(Value::none());
        v
    };
    let needles: Vec<Value> = ["", "a", "lo w", "ö", "日", "本日", "<b>", "hello wörld 日本!"].iter().map(|s| Value::from(*s)).collect();
    let do_member = |meta: &mut Meta, sink: &mut Sink, c: &Value, x: &Value, prov_label: &str| -> bool {
        let mut ctx = Context::new();
        ctx.insert_value("c", c.clone());
        ctx.insert_value("x", x.clone());
        let r_in = eval_expr(&tera, "x in c", &ctx);
        let r_cont = eval_expr(&tera, "c is containing(pat=x)", &ctx);
        for r in [&r_in, &r_cont] {
            meta.oracle_checks += 1;
            if let Outcome::Panic(msg) = r {
                meta.oracle_fail(&format!("panic in membership: {msg}"), None, json!({"c": jv(c), "x": jv(x), "provenance": prov_label}));
            }
        }
        let g = format!("{{| e_c := {}; e_x := {}; e_in := {}; e_cont := {} |}}",
            gal_value(c), gal_value(x), r_in.gal(gal_value), r_cont.gal(gal_value));
        let desc = json!({"c": jv(c), "x": jv(x), "provenance": prov_label, "impl": {"x in c": r_in.json(jv), "containing": r_cont.json(jv)}});
        let nontrivial = c.len().unwrap_or(0) >= 2;
        sink.push(g, desc, nontrivial, None, &[if c.is_array() { "array" } else if c.is_string() { "string" } else { "other" }]);
        matches!(&r_in, Outcome::Ok(v) if v.as_bool() == Some(true)) && matches!(&r_cont, Outcome::Ok(v) if v.as_bool() == Some(true))
    };
    for _ in 0..n_member {
        let c = rng.pick(&arrays).clone();
        let x = if c.is_array() && rng.chance(2, 3) && c.len().unwrap_or(0) > 0 {
            // an element of the array in possibly another representation
            let e = c.as_array().unwrap()[rng.below(c.len().unwrap())].clone();
            if let Some(z) = e.as_i128() { let r = pools::int_reps(z); r[rng.below(r.len())].clone() } else { e }
        } else if c.is_string() && rng.chance(2, 3) {
            rng.pick(&needles).clone()
        } else {
            rng.pick(&pool).clone()
        };
        if x.is_undefined() {
            continue;
        }
        do_member(&mut meta, &mut s_member, &c, &x, "");
    }
    // the same value through two routes: one inside an array (or a nested array / map value), the
    // other as the needle
    for &(i, j) in &same_class {
        if !thorough && rng.chance(2, 3) {
            continue;
        }
        let (x, y) = (&pool[i], &pool[j]);
        let lab = format!("needle: {} | element: {}", labels[i], labels[j]);
        let c = Value::from(vec![Value::from("other"), y.clone()]);
        let r = do_member(&mut meta, &mut s_member, &c, x, &lab);
        meta.oracle_checks += 1;
        if !r {
            meta.oracle_fail("`x in [.., y]` is false although x and y are the same value obtained through two routes", None,
                json!({"c": jv(&c), "x": jv(x), "provenance": lab}));
        }
        if thorough || rng.chance(1, 3) {
            let nested = Value::from(vec![Value::from(vec![y.clone()]), map_of(vec![(ks("v"), y.clone())])]);
            let needle = if rng.chance(1, 2) { Value::from(vec![x.clone()]) } else { map_of(vec![(kb("v"), x.clone())]) };
            let r = do_member(&mut meta, &mut s_member, &nested, &needle, &lab);
            meta.oracle_checks += 1;
            if !r {
                meta.oracle_fail("`[x] in [[y], {v: y}]` / `{v: x} in ..` is false although x and y are the same value obtained through two routes", None,
                    json!({"c": jv(&nested), "x": jv(&needle), "provenance": lab}));
            }
        }
    }

    meta.extra.insert("pool_size".into(), json!(n));
    meta.extra.insert("base_pool_size".into(), json!(n_base));
    meta.extra.insert("provenance_pool".into(), json!({"values": prov.len(), "classes": prov.iter().map(|p| p.class).max().map_or(0, |c| c + 1),
        "same_value_route_pairs": same_class.len()}));
    meta.extra.insert("law_oracle".into(), json!({"pairs": n * n, "triples": n * n * n, "checks": law_checks,
        "failures": law_fail.iter().map(|(k, v)| (k.to_string(), *v)).collect::<std::collections::BTreeMap<_, _>>()}));
    meta.extra.insert("oracle_only_evaluations".into(), json!(n * n * n));
    meta.extra.insert("all_pairs_model_side".into(), json!(thorough));
    meta.families.push(s_api.finish());
    meta.families.push(s_pair.finish());
    meta.families.push(s_lookup.finish());
    meta.families.push(s_member.finish());
    meta.write(&args.out);
}
