//! C04 — inheritance. Family:
//!   set : a generated template SET (real sources), the class of `add_raw_templates`, `render(T)`
//!         for every T and `render_block(T, b)` for every (T, b)   vs   Model.Lineage
//! Oracles (implementation side, every set): the outcome is the same for every batch order,
//! for repeated instances (fresh HashMap seeds) and for every parent-before-child incremental
//! order; no panic; the output consists of marker tokens only.
//! Sets whose block nesting is cyclic through the chain (D13 class) are rejected by finalize since
//! the D13 repair (the model ports that check). Should one be accepted again, its renders run in
//! a child process (`c04 --child`) and are recorded as CDiverge when the child dies or times out.
//! Oracle for D9: `{% include "T" %}` renders what render(T) renders.
use serde_json::json;
use std::collections::{BTreeMap, BTreeSet};
use std::io::{Read, Write};
use tera::{Context, Kwargs, State, Tera, Value};
use tvh::*;

#[derive(Clone, Debug, PartialEq)]
enum Node {
    Text(u64),
    Block(usize, Vec<Node>),
    Super,
    /// true = `{% filter w %}`, false = `{% set v %}..{% endset %}{{ v }}`
    Cap(bool, Vec<Node>),
}

#[derive(Clone, Debug, PartialEq)]
struct Tpl {
    name: usize,
    extends: Option<usize>,
    body: Vec<Node>,
}

// ---------------------------------------------------------------- printing

fn src_nodes(ns: &[Node], var: &mut usize, out: &mut String) {
    for n in ns {
        match n {
            Node::Text(i) => out.push_str(&format!("t{i};")),
            Node::Block(b, body) => {
                out.push_str(&format!("{{% block b{b} %}}"));
                src_nodes(body, var, out);
                out.push_str("{% endblock %}");
            }
            Node::Super => out.push_str("{{ super() }}"),
            Node::Cap(true, body) => {
                out.push_str("{% filter w %}");
                src_nodes(body, var, out);
                out.push_str("{% endfilter %}");
            }
            Node::Cap(false, body) => {
                let v = *var;
                *var += 1;
                out.push_str(&format!("{{% set v{v} %}}"));
                src_nodes(body, var, out);
                out.push_str(&format!("{{% endset %}}{{{{ v{v} }}}}"));
            }
        }
    }
}

fn source(t: &Tpl) -> String {
    let mut s = String::new();
    if let Some(p) = t.extends {
        s.push_str(&format!("{{% extends \"t{p}\" %}}"));
    }
    let mut var = 0;
    src_nodes(&t.body, &mut var, &mut s);
    s
}

fn gal_nodes(ns: &[Node]) -> String {
    let parts: Vec<String> = ns
        .iter()
        .map(|n| match n {
            Node::Text(i) => format!("Text {i}%N"),
            Node::Block(b, body) => format!("BlockDef {b}%N {}", gal_nodes(body)),
            Node::Super => "Super".to_string(),
            Node::Cap(f, body) => {
                format!("FilterSection {} {}", if *f { "KFilter" } else { "KSet" }, gal_nodes(body))
            }
        })
        .collect();
    format!("[{}]", parts.join("; "))
}

fn gal_tpl(t: &Tpl) -> String {
    format!(
        "{{| t_name := {}%N; t_extends := {}; t_body := {} |}}",
        t.name,
        match t.extends {
            Some(p) => format!("(Some {p}%N)"),
            None => "None".to_string(),
        },
        gal_nodes(&t.body)
    )
}

// ---------------------------------------------------------------- implementation results

#[derive(Clone, Debug, PartialEq)]
enum IRes {
    Ok(Vec<Tok>),
    Err(&'static str, String),
}

#[derive(Clone, Copy, Debug, PartialEq)]
enum Tok {
    T(u64),
    Open,
    Close,
}

fn class_of(c: &str) -> &'static str {
    match c {
        "syntax" => "CSyntax",
        "missingparent" => "CMissingParent",
        "circularextend" => "CCircular",
        "msg" => "CMsg",
        "render" => "CRender",
        _ => "COther",
    }
}

fn parse_out(s: &str) -> Option<Vec<Tok>> {
    let b = s.as_bytes();
    let mut i = 0;
    let mut v = Vec::new();
    while i < b.len() {
        match b[i] {
            b'(' => {
                v.push(Tok::Open);
                i += 1;
            }
            b')' => {
                v.push(Tok::Close);
                i += 1;
            }
            b't' => {
                let mut j = i + 1;
                let mut n: u64 = 0;
                while j < b.len() && b[j].is_ascii_digit() {
                    n = n * 10 + (b[j] - b'0') as u64;
                    j += 1;
                }
                if j == i + 1 || j >= b.len() || b[j] != b';' {
                    return None;
                }
                v.push(Tok::T(n));
                i = j + 1;
            }
            _ => return None,
        }
    }
    Some(v)
}

fn to_ires(o: Outcome<String>) -> IRes {
    match o {
        Outcome::Ok(s) => match parse_out(&s) {
            Some(v) => IRes::Ok(v),
            None => IRes::Err("COther", format!("unparsable output {s:?}")),
        },
        Outcome::Err(c, m) => IRes::Err(class_of(&c), m),
        Outcome::Panic(m) => IRes::Err("CPanic", m),
    }
}

impl IRes {
    fn gal(&self) -> String {
        match self {
            IRes::Ok(v) => format!(
                "IOk [{}]",
                v.iter()
                    .map(|t| match t {
                        Tok::T(i) => format!("OText {i}%N"),
                        Tok::Open => "OOpen".to_string(),
                        Tok::Close => "OClose".to_string(),
                    })
                    .collect::<Vec<_>>()
                    .join("; ")
            ),
            IRes::Err(c, _) => format!("IErr {c}"),
        }
    }
    fn json(&self) -> serde_json::Value {
        match self {
            IRes::Ok(v) => json!({"ok": v.iter().map(|t| match t {
                Tok::T(i) => format!("t{i};"), Tok::Open => "(".to_string(), Tok::Close => ")".to_string() }).collect::<String>()}),
            IRes::Err(c, m) => json!({"err": c, "msg": m}),
        }
    }
    /// compared by class only
    fn same(&self, o: &IRes) -> bool {
        match (self, o) {
            (IRes::Ok(a), IRes::Ok(b)) => a == b,
            (IRes::Err(a, _), IRes::Err(b, _)) => a == b,
            _ => false,
        }
    }
}

fn new_tera() -> Tera {
    let mut tera = Tera::default();
    tera.register_filter("w", |v: Value, _: Kwargs, _: &State| {
        Value::from(format!("({})", v.as_str().unwrap_or("?")))
    });
    tera
}

fn register_batch(set: &[Tpl], order: &[usize]) -> (Tera, IRes) {
    let mut tera = new_tera();
    let srcs: Vec<(String, String)> =
        order.iter().map(|&i| (format!("t{}", set[i].name), source(&set[i]))).collect();
    let r = guarded(|| tera.add_raw_templates(srcs.iter().map(|(n, s)| (n.as_str(), s.as_str()))).map(|_| String::new()));
    (tera, to_ires(r))
}

#[derive(Clone, Debug, PartialEq)]
struct Results {
    reg: IRes,
    renders: Vec<(usize, IRes)>,
    blocks: Vec<(usize, usize, IRes)>,
}

impl Results {
    fn same(&self, o: &Results) -> bool {
        self.reg.same(&o.reg)
            && self.renders.len() == o.renders.len()
            && self.renders.iter().zip(&o.renders).all(|(a, b)| a.0 == b.0 && a.1.same(&b.1))
            && self.blocks.len() == o.blocks.len()
            && self.blocks.iter().zip(&o.blocks).all(|(a, b)| a.0 == b.0 && a.1 == b.1 && a.2.same(&b.2))
    }
}

fn block_names(set: &[Tpl]) -> Vec<usize> {
    fn walk(ns: &[Node], acc: &mut BTreeSet<usize>) {
        for n in ns {
            match n {
                Node::Block(b, body) => {
                    acc.insert(*b);
                    walk(body, acc);
                }
                Node::Cap(_, body) => walk(body, acc),
                _ => {}
            }
        }
    }
    let mut acc = BTreeSet::new();
    for t in set {
        walk(&t.body, &mut acc);
    }
    // one name nobody defines, to exercise "block not found"
    acc.insert(9);
    acc.into_iter().collect()
}

/// renders in-process; `diverges[t]` says the render of template t must not be attempted here
fn observe(tera: &Tera, set: &[Tpl], reg: IRes, diverges: &BTreeMap<usize, bool>, child: &dyn Fn(usize, Option<usize>) -> IRes) -> Results {
    let mut res = Results { reg: reg.clone(), renders: vec![], blocks: vec![] };
    if !matches!(reg, IRes::Ok(_)) {
        return res;
    }
    let ctx = Context::new();
    let names = block_names(set);
    for t in set {
        let tn = format!("t{}", t.name);
        let risky = *diverges.get(&t.name).unwrap_or(&false);
        let r = if risky { child(t.name, None) } else { to_ires(guarded(|| tera.render(&tn, &ctx))) };
        res.renders.push((t.name, r));
        // a divergent template: one child-process render_block of a block the chain defines;
        // names the chain does not define are answered before any rendering starts
        let chain_defines = |b: usize| match chain_of(set, t) {
            Some(ch) => ch.iter().any(|x| find_def(&x.body, b).is_some()),
            None => true,
        };
        let mut child_done = false;
        for &b in &names {
            let r = if risky {
                if !chain_defines(b) {
                    to_ires(guarded(|| tera.render_block(&tn, &format!("b{b}"), &ctx)))
                } else if !child_done {
                    child_done = true;
                    child(t.name, Some(b))
                } else {
                    continue;
                }
            } else {
                to_ires(guarded(|| tera.render_block(&tn, &format!("b{b}"), &ctx)))
            };
            res.blocks.push((t.name, b, r));
        }
    }
    res
}

// ---------------------------------------------------------------- reference evaluation (divergence detector only)

fn find_def<'a>(ns: &'a [Node], b: usize) -> Option<&'a Vec<Node>> {
    for n in ns {
        match n {
            Node::Block(x, body) => {
                if *x == b {
                    return Some(body);
                }
                if let Some(d) = find_def(body, b) {
                    return Some(d);
                }
            }
            Node::Cap(_, body) => {
                if let Some(d) = find_def(body, b) {
                    return Some(d);
                }
            }
            _ => {}
        }
    }
    None
}

/// chain most-derived first; returns false if the expansion exceeds the depth budget
fn finite(chain: &[&Tpl], cur: Option<(usize, usize)>, ns: &[Node], depth: usize) -> Result<bool, ()> {
    if depth > 120 {
        return Ok(false);
    }
    for n in ns {
        match n {
            Node::Text(_) => {}
            Node::Cap(_, body) => {
                if !finite(chain, cur, body, depth)? {
                    return Ok(false);
                }
            }
            Node::Block(b, _) => {
                let Some(i) = (0..chain.len()).find(|&i| find_def(&chain[i].body, *b).is_some()) else { return Err(()) };
                let body = find_def(&chain[i].body, *b).unwrap();
                if !finite(chain, Some((*b, i + 1)), body, depth + 1)? {
                    return Ok(false);
                }
            }
            Node::Super => {
                let Some((b, from)) = cur else { return Err(()) };
                let Some(i) = (from..chain.len()).find(|&i| find_def(&chain[i].body, b).is_some()) else { return Err(()) };
                let body = find_def(&chain[i].body, b).unwrap();
                if !finite(chain, Some((b, i + 1)), body, depth + 1)? {
                    return Ok(false);
                }
            }
        }
    }
    Ok(true)
}

fn chain_of<'a>(set: &'a [Tpl], t: &'a Tpl) -> Option<Vec<&'a Tpl>> {
    let mut ch = vec![t];
    let mut cur = t;
    while let Some(p) = cur.extends {
        let pt = set.iter().find(|x| x.name == p)?;
        if ch.iter().any(|x| x.name == pt.name) {
            return None;
        }
        ch.push(pt);
        cur = pt;
    }
    Some(ch)
}

fn divergence_map(set: &[Tpl]) -> BTreeMap<usize, bool> {
    let mut m = BTreeMap::new();
    for t in set {
        let d = match chain_of(set, t) {
            Some(ch) => {
                let root = ch[ch.len() - 1];
                matches!(finite(&ch, None, &root.body, 0), Ok(false))
            }
            None => false,
        };
        m.insert(t.name, d);
    }
    m
}

// ---------------------------------------------------------------- child process

fn child_main() {
    // a small stack makes unbounded recursion die quickly; finite renders of generated sets
    // need a few dozen frames
    let h = std::thread::Builder::new().stack_size(1 << 20).spawn(child_work).unwrap();
    if h.join().is_err() {
        std::process::exit(3);
    }
}

fn child_work() {
    let mut inp = String::new();
    std::io::stdin().read_to_string(&mut inp).unwrap();
    let j: serde_json::Value = serde_json::from_str(&inp).unwrap();
    let mut tera = new_tera();
    let srcs: Vec<(String, String)> = j["templates"]
        .as_array()
        .unwrap()
        .iter()
        .map(|p| (p[0].as_str().unwrap().to_string(), p[1].as_str().unwrap().to_string()))
        .collect();
    if let Err(e) = tera.add_raw_templates(srcs.iter().map(|(n, s)| (n.as_str(), s.as_str()))) {
        println!("{}", json!({"err": err_class(&e), "msg": format!("{e}")}));
        return;
    }
    let t = j["render"].as_str().unwrap();
    let ctx = Context::new();
    let r = match j["block"].as_str() {
        Some(b) => tera.render_block(t, b, &ctx),
        None => tera.render(t, &ctx),
    };
    match r {
        Ok(s) => println!("{}", json!({"ok": s})),
        Err(e) => println!("{}", json!({"err": err_class(&e), "msg": format!("{e}")})),
    }
}

fn run_child(set: &[Tpl], t: usize, b: Option<usize>) -> IRes {
    let exe = std::env::current_exe().unwrap();
    let input = json!({
        "templates": set.iter().map(|t| json!([format!("t{}", t.name), source(t)])).collect::<Vec<_>>(),
        "render": format!("t{t}"),
        "block": b.map(|b| format!("b{b}")),
    });
    let mut ch = std::process::Command::new(exe)
        .arg("--child")
        .stdin(std::process::Stdio::piped())
        .stdout(std::process::Stdio::piped())
        .stderr(std::process::Stdio::null())
        .spawn()
        .expect("spawn child");
    ch.stdin.take().unwrap().write_all(input.to_string().as_bytes()).unwrap();
    let t0 = std::time::Instant::now();
    loop {
        match ch.try_wait().unwrap() {
            Some(st) => {
                let mut out = String::new();
                ch.stdout.take().unwrap().read_to_string(&mut out).ok();
                if !st.success() {
                    return IRes::Err("CDiverge", format!("child died: {st}"));
                }
                let j: serde_json::Value = match serde_json::from_str(out.trim()) {
                    Ok(j) => j,
                    Err(_) => return IRes::Err("COther", format!("child output {out:?}")),
                };
                return match j.get("ok") {
                    Some(s) => to_ires(Outcome::Ok(s.as_str().unwrap().to_string())),
                    None => IRes::Err(class_of(j["err"].as_str().unwrap()), j["msg"].as_str().unwrap_or("").to_string()),
                };
            }
            None => {
                if t0.elapsed().as_secs() > 20 {
                    ch.kill().ok();
                    ch.wait().ok();
                    return IRes::Err("CDiverge", "child timed out".into());
                }
                std::thread::sleep(std::time::Duration::from_millis(5));
            }
        }
    }
}

// ---------------------------------------------------------------- orders

fn permutations(n: usize) -> Vec<Vec<usize>> {
    fn go(cur: &mut Vec<usize>, used: &mut Vec<bool>, n: usize, acc: &mut Vec<Vec<usize>>) {
        if cur.len() == n {
            acc.push(cur.clone());
            return;
        }
        for i in 0..n {
            if !used[i] {
                used[i] = true;
                cur.push(i);
                go(cur, used, n, acc);
                cur.pop();
                used[i] = false;
            }
        }
    }
    let mut acc = Vec::new();
    go(&mut Vec::new(), &mut vec![false; n], n, &mut acc);
    acc
}

fn shuffle(rng: &mut Rng, n: usize) -> Vec<usize> {
    let mut v: Vec<usize> = (0..n).collect();
    for i in (1..n).rev() {
        let j = rng.below(i + 1);
        v.swap(i, j);
    }
    v
}

fn parent_first(set: &[Tpl], order: &[usize]) -> bool {
    order.iter().enumerate().all(|(pos, &i)| match set[i].extends {
        None => true,
        Some(p) => order[..pos].iter().any(|&j| set[j].name == p),
    })
}

// ---------------------------------------------------------------- one set

struct Stats {
    sets: usize,
    accepted: usize,
    rejected: usize,
    d13_sets: usize,
    d13_child_runs: usize,
    orders_checked: usize,
    incr_checked: usize,
    renders: usize,
    block_renders: usize,
    d8_shape: usize,
    d13_seen: usize,
    d13_cap: usize,
    d13_skipped: usize,
    include_checked: usize,
}

fn has_block_in_cap(ns: &[Node], in_cap: bool) -> bool {
    ns.iter().any(|n| match n {
        Node::Block(_, body) => in_cap || has_block_in_cap(body, false),
        Node::Cap(_, body) => has_block_in_cap(body, true),
        _ => false,
    })
}

fn max_depth(ns: &[Node]) -> usize {
    ns.iter()
        .map(|n| match n {
            Node::Block(_, b) | Node::Cap(_, b) => 1 + max_depth(b),
            _ => 0,
        })
        .max()
        .unwrap_or(0)
}

fn count_super(ns: &[Node]) -> usize {
    ns.iter()
        .map(|n| match n {
            Node::Super => 1,
            Node::Block(_, b) | Node::Cap(_, b) => count_super(b),
            _ => 0,
        })
        .sum()
}

static T_BASE: std::sync::atomic::AtomicU64 = std::sync::atomic::AtomicU64::new(0);
static T_ORD: std::sync::atomic::AtomicU64 = std::sync::atomic::AtomicU64::new(0);
static T_INC: std::sync::atomic::AtomicU64 = std::sync::atomic::AtomicU64::new(0);

fn push_set(sink: &mut Sink, meta: &mut Meta, rng: &mut Rng, st: &mut Stats, set: &[Tpl], max_orders: usize, origin: &str) {
    let n = set.len();
    // canonical listing: sorted by name (the order of finalize's first loop)
    let mut sorted: Vec<Tpl> = set.to_vec();
    sorted.sort_by_key(|t| t.name);
    let set = &sorted[..];
    let div = divergence_map(set);
    let any_div = div.values().any(|d| *d);
    let ident: Vec<usize> = (0..n).collect();
    let t_start = std::time::Instant::now();
    let (tera, reg) = register_batch(set, &ident);
    // accepted although the expansion is unbounded (must not happen since the D13 repair; such a
    // set still goes to the model, its renders through a child process, at most d13_cap times)
    if any_div && matches!(reg, IRes::Ok(_)) {
        if st.d13_seen >= st.d13_cap {
            st.d13_skipped += 1;
            return;
        }
        st.d13_seen += 1;
    }
    let child = |t: usize, b: Option<usize>| run_child(set, t, b);
    let base = observe(&tera, set, reg, &div, &child);
    T_BASE.fetch_add(t_start.elapsed().as_micros() as u64, std::sync::atomic::Ordering::Relaxed);
    st.sets += 1;
    if any_div && matches!(base.reg, IRes::Ok(_)) {
        st.d13_sets += 1;
        st.d13_child_runs += base.renders.iter().filter(|r| div[&r.0]).count();
    }
    match base.reg {
        IRes::Ok(_) => st.accepted += 1,
        _ => st.rejected += 1,
    }
    st.renders += base.renders.len();
    st.block_renders += base.blocks.len();
    let desc = |r: &Results| {
        json!({
            "templates": set.iter().map(|t| json!([format!("t{}", t.name), source(t)])).collect::<Vec<_>>(),
            "register": r.reg.json(),
            "render": r.renders.iter().map(|(t, x)| json!([format!("t{t}"), x.json()])).collect::<Vec<_>>(),
            "render_block": r.blocks.iter().map(|(t, b, x)| json!([format!("t{t}"), format!("b{b}"), x.json()])).collect::<Vec<_>>(),
            "origin": origin,
        })
    };

    // ---- oracles: no panic, outputs are marker tokens
    meta.oracle_checks += 1;
    let bad = |r: &IRes| matches!(r, IRes::Err("CPanic", _) | IRes::Err("COther", _));
    if bad(&base.reg) || base.renders.iter().any(|r| bad(&r.1)) || base.blocks.iter().any(|r| bad(&r.2)) {
        meta.oracle_fail("panic, unexpected error kind or foreign bytes in the output", None, desc(&base));
    }

    // ---- oracle: registration order / HashMap seeds / incremental orders give the same result
    // (divergent renders are not repeated)
    let no_div: BTreeMap<usize, bool> = BTreeMap::new();
    let t_ord = std::time::Instant::now();
    if !any_div {
        let mut orders: Vec<Vec<usize>> = if n <= 4 { permutations(n) } else { (0..max_orders).map(|_| shuffle(rng, n)).collect() };
        if orders.len() > max_orders {
            // keep identity-reversed and a random subset
            let mut keep: Vec<Vec<usize>> = vec![ident.iter().rev().cloned().collect()];
            while keep.len() < max_orders {
                let k = rng.below(orders.len());
                keep.push(orders.swap_remove(k));
            }
            orders = keep;
        }
        for ord in &orders {
            let (t2, r2) = register_batch(set, ord);
            let o2 = observe(&t2, set, r2, &no_div, &child);
            meta.oracle_checks += 1;
            st.orders_checked += 1;
            if !o2.same(&base) {
                meta.oracle_fail("result depends on the batch order / map iteration order", None,
                    json!({"order": ord, "first": desc(&base), "other": desc(&o2)}));
                break;
            }
        }
        T_ORD.fetch_add(t_ord.elapsed().as_micros() as u64, std::sync::atomic::Ordering::Relaxed);
        // incremental, parent before child
        let incr: Vec<Vec<usize>> = if n <= 4 {
            permutations(n).into_iter().filter(|o| parent_first(set, o)).collect()
        } else {
            let mut v = Vec::new();
            for _ in 0..40 {
                let o = shuffle(rng, n);
                if parent_first(set, &o) {
                    v.push(o);
                }
                if v.len() >= 3 {
                    break;
                }
            }
            v
        };
        for ord in incr.iter().take(max_orders) {
            let mut tera = new_tera();
            let mut all_ok = true;
            for &i in ord {
                let src = source(&set[i]);
                let r = guarded(|| tera.add_raw_template(&format!("t{}", set[i].name), &src).map(|_| String::new()));
                if !matches!(r, Outcome::Ok(_)) {
                    all_ok = false;
                    if matches!(r, Outcome::Panic(_)) {
                        meta.oracle_fail("panic in incremental registration", None, desc(&base));
                    }
                    break;
                }
            }
            meta.oracle_checks += 1;
            st.incr_checked += 1;
            let batch_ok = matches!(base.reg, IRes::Ok(_));
            // every prefix of a parent-first order is a closed set, so the whole set is accepted
            // iff every step is
            if all_ok != batch_ok {
                // a rejected batch may still have an accepted strict prefix; only the final
                // verdict is compared
                meta.oracle_fail("incremental parent-first registration and batch registration disagree on acceptance", None,
                    json!({"order": ord, "incremental_all_ok": all_ok, "batch": desc(&base)}));
                break;
            }
            if all_ok {
                let o2 = observe(&tera, set, IRes::Ok(vec![]), &no_div, &child);
                if !o2.same(&base) {
                    meta.oracle_fail("incremental registration renders differently from batch registration", None,
                        json!({"order": ord, "batch": desc(&base), "incremental": desc(&o2)}));
                    break;
                }
            }
        }
    }

    // ---- oracle (D9): `{% include "T" %}` renders what render(T) renders, for every T of an accepted set
    if !any_div && matches!(base.reg, IRes::Ok(_)) {
        let mut tera = new_tera();
        let mut srcs: Vec<(String, String)> = set.iter().map(|t| (format!("t{}", t.name), source(t))).collect();
        for t in set {
            srcs.push((format!("i{}", t.name), format!("{{% include \"t{}\" %}}", t.name)));
        }
        let r = guarded(|| tera.add_raw_templates(srcs.iter().map(|(n, s)| (n.as_str(), s.as_str()))).map(|_| String::new()));
        meta.oracle_checks += 1;
        if !matches!(r, Outcome::Ok(_)) {
            meta.oracle_fail("adding includers of an accepted set is rejected", None, desc(&base));
        } else {
            let ctx = Context::new();
            for (tn, expected) in &base.renders {
                let got = to_ires(guarded(|| tera.render(&format!("i{tn}"), &ctx)));
                st.include_checked += 1;
                if !got.same(expected) {
                    meta.oracle_fail("include of a template renders differently from rendering it", None,
                        json!({"template": format!("t{tn}"), "include": got.json(), "set": desc(&base)}));
                    break;
                }
            }
        }
    }

    // ---- the case for the model
    let _ = &T_INC;
    let gal = format!(
        "{{| sc_tpls := [{}]; sc_reg := {}; sc_renders := [{}]; sc_blocks := [{}] |}}",
        set.iter().map(gal_tpl).collect::<Vec<_>>().join("; "),
        base.reg.gal(),
        base.renders.iter().map(|(t, r)| format!("({t}%N, {})", r.gal())).collect::<Vec<_>>().join("; "),
        base.blocks.iter().map(|(t, b, r)| format!("({t}%N, {b}%N, {})", r.gal())).collect::<Vec<_>>().join("; ")
    );
    let accepted = matches!(base.reg, IRes::Ok(_));
    let supers: usize = set.iter().map(|t| count_super(&t.body)).sum();
    let deep = set.iter().map(|t| max_depth(&t.body)).max().unwrap_or(0);
    let in_cap = set.iter().any(|t| has_block_in_cap(&t.body, false));
    if in_cap {
        st.d8_shape += 1;
    }
    let nontrivial = accepted && n >= 2 && supers >= 1 && deep >= 2;
    let mut tags: Vec<String> = vec![format!("templates={n}"), format!("origin={origin}")];
    tags.push(format!("reg={}", match &base.reg { IRes::Ok(_) => "ok", IRes::Err(c, _) => c }));
    if in_cap { tags.push("block-in-capture".into()); }
    if any_div && accepted { tags.push("d13-class".into()); }
    if base.renders.iter().any(|r| matches!(r.1, IRes::Err("CRender", _))) { tags.push("render-error".into()); }
    let tag_refs: Vec<&str> = tags.iter().map(|s| s.as_str()).collect();
    sink.push(gal, desc(&base), nontrivial, None, &tag_refs);
}

// ---------------------------------------------------------------- generators

#[derive(Clone, Copy, PartialEq, Debug)]
enum BS {
    Absent,
    Plain,
    WithSuper,
}

/// arrangement of two blocks a (=0), b (=1) in one template
#[derive(Clone, Copy, PartialEq, Debug)]
enum Arr {
    Sib,
    BinA,
    BinFilterInA,
    AinB,
    BinFilterTop,
    BinSetInA,
}

struct Ids(u64);
impl Ids {
    fn t(&mut self) -> Node {
        self.0 += 1;
        Node::Text(self.0)
    }
}

fn block_with(ids: &mut Ids, name: usize, s: BS, inner: Vec<Node>) -> Node {
    let mut body = vec![ids.t()];
    if s == BS::WithSuper {
        body.push(Node::Super);
    }
    body.extend(inner);
    if !body.iter().any(|n| matches!(n, Node::Text(_))) {
        body.push(ids.t());
    }
    Node::Block(name, body)
}

fn layout2(ids: &mut Ids, sa: BS, sb: BS, arr: Arr, root: bool) -> Vec<Node> {
    let mut body = Vec::new();
    if root {
        body.push(ids.t());
    }
    let a_present = sa != BS::Absent;
    let b_present = sb != BS::Absent;
    match (a_present, b_present) {
        (false, false) => {}
        (true, false) => {
            let a = block_with(ids, 0, sa, vec![]);
            body.push(if arr == Arr::BinFilterTop { Node::Cap(true, vec![a]) } else { a });
        }
        (false, true) => {
            let b = block_with(ids, 1, sb, vec![]);
            body.push(match arr {
                Arr::BinFilterTop | Arr::BinFilterInA => Node::Cap(true, vec![b]),
                Arr::BinSetInA => Node::Cap(false, vec![b]),
                _ => b,
            });
        }
        (true, true) => match arr {
            Arr::Sib => {
                body.push(block_with(ids, 0, sa, vec![]));
                if root {
                    body.push(ids.t());
                }
                body.push(block_with(ids, 1, sb, vec![]));
            }
            Arr::BinA => {
                let b = block_with(ids, 1, sb, vec![]);
                let t = ids.t();
                body.push(block_with(ids, 0, sa, vec![b, t]));
            }
            Arr::BinFilterInA => {
                let b = block_with(ids, 1, sb, vec![]);
                let t = ids.t();
                body.push(block_with(ids, 0, sa, vec![Node::Cap(true, vec![t, b])]));
            }
            Arr::BinSetInA => {
                let b = block_with(ids, 1, sb, vec![]);
                let t = ids.t();
                body.push(block_with(ids, 0, sa, vec![Node::Cap(false, vec![b, t])]));
            }
            Arr::AinB => {
                let a = block_with(ids, 0, sa, vec![]);
                let t = ids.t();
                body.push(block_with(ids, 1, sb, vec![t, a]));
            }
            Arr::BinFilterTop => {
                body.push(block_with(ids, 0, sa, vec![]));
                let b = block_with(ids, 1, sb, vec![]);
                let t = ids.t();
                body.push(Node::Cap(true, vec![b, t]));
            }
        },
    }
    if root {
        body.push(ids.t());
    }
    body
}

/// the layouts of one level over two block names; `n` arrangements (2, 3 or 6)
fn level_menu_n(n: usize) -> Vec<(BS, BS, Arr)> {
    let states = [BS::Absent, BS::Plain, BS::WithSuper];
    let arrs: &[Arr] = match n {
        6 => &[Arr::Sib, Arr::BinA, Arr::BinFilterInA, Arr::AinB, Arr::BinFilterTop, Arr::BinSetInA],
        3 => &[Arr::Sib, Arr::BinA, Arr::BinFilterInA],
        _ => &[Arr::Sib, Arr::BinFilterInA],
    };
    let mut v = Vec::new();
    for &sa in &states {
        for &sb in &states {
            for &arr in arrs {
                // arrangements that coincide when a block is absent are listed once
                let dup = match (sa != BS::Absent, sb != BS::Absent) {
                    (false, false) => arr != Arr::Sib,
                    (true, false) => !(arr == Arr::Sib || arr == Arr::BinFilterTop),
                    (false, true) => !(arr == Arr::Sib || arr == Arr::BinFilterTop || arr == Arr::BinSetInA),
                    (true, true) => false,
                };
                if !dup {
                    v.push((sa, sb, arr));
                }
            }
        }
    }
    v
}

fn chain_from_layouts(ls: &[(BS, BS, Arr)]) -> Vec<Tpl> {
    let mut ids = Ids(0);
    ls.iter()
        .enumerate()
        .map(|(i, &(sa, sb, arr))| Tpl {
            name: i,
            extends: if i == 0 { None } else { Some(i - 1) },
            body: layout2(&mut ids, sa, sb, arr, i == 0),
        })
        .collect()
}

/// random body: blocks from `avail` (each name at most once per template), nesting <= depth
fn rand_body(rng: &mut Rng, ids: &mut Ids, avail: &mut Vec<usize>, depth: usize, in_block: bool, width: usize) -> Vec<Node> {
    let mut body = Vec::new();
    let n = 1 + rng.below(width);
    for _ in 0..n {
        match rng.below(10) {
            0..=2 => body.push(ids.t()),
            3..=6 if !avail.is_empty() && depth > 0 => {
                let k = rng.below(avail.len());
                let b = avail.remove(k);
                let mut inner = Vec::new();
                if rng.chance(1, 2) {
                    inner.push(ids.t());
                }
                if rng.chance(1, 2) {
                    inner.push(Node::Super);
                }
                if rng.chance(1, 2) {
                    inner.extend(rand_body(rng, ids, avail, depth - 1, true, 2));
                }
                if rng.chance(1, 5) {
                    inner.push(Node::Super);
                }
                if rng.chance(2, 3) {
                    inner.push(ids.t());
                }
                body.push(Node::Block(b, inner));
            }
            7 | 8 if depth > 0 => {
                let inner = rand_body(rng, ids, avail, depth - 1, in_block, 2);
                body.push(Node::Cap(rng.chance(2, 3), inner));
            }
            9 if in_block || rng.chance(1, 12) => body.push(Node::Super),
            _ => body.push(ids.t()),
        }
    }
    body
}

fn rand_set(rng: &mut Rng, max_tpls: usize, max_names: usize, forest: bool) -> Vec<Tpl> {
    let n = 1 + rng.below(max_tpls);
    let k = 1 + rng.below(max_names);
    let mut ids = Ids(0);
    let mut set: Vec<Tpl> = Vec::new();
    for i in 0..n {
        let extends = if i == 0 {
            None
        } else if forest && rng.chance(1, 3) {
            if rng.chance(1, 6) { None } else { Some(rng.below(i)) }
        } else {
            Some(i - 1)
        };
        // names this template may use: mostly those an ancestor already has (so that top-level
        // blocks are accepted), sometimes fresh ones
        let mut anc_names: BTreeSet<usize> = BTreeSet::new();
        let mut cur = extends;
        while let Some(p) = cur {
            fn collect(ns: &[Node], acc: &mut BTreeSet<usize>) {
                for n in ns {
                    match n {
                        Node::Block(b, body) => {
                            acc.insert(*b);
                            collect(body, acc);
                        }
                        Node::Cap(_, body) => collect(body, acc),
                        _ => {}
                    }
                }
            }
            collect(&set[p].body, &mut anc_names);
            cur = set[p].extends;
        }
        let mut body = Vec::new();
        if extends.is_none() {
            let mut avail: Vec<usize> = (0..k).collect();
            body.push(ids.t());
            body.extend(rand_body(rng, &mut ids, &mut avail, 3, false, 4));
            body.push(ids.t());
        } else {
            // top level of a child: blocks an ancestor has (rarely an orphan), each with a body
            // that may introduce new nested blocks
            let mut avail: Vec<usize> = (0..k).collect();
            let mut tops: Vec<usize> = anc_names.iter().cloned().collect();
            let ntop = rng.below(tops.len().min(3) + 1);
            for _ in 0..ntop {
                if tops.is_empty() {
                    break;
                }
                let b = tops.remove(rng.below(tops.len()));
                if !avail.contains(&b) {
                    continue;
                }
                avail.retain(|x| *x != b);
                let mut inner = Vec::new();
                if rng.chance(2, 3) {
                    inner.push(ids.t());
                }
                if rng.chance(1, 2) {
                    inner.push(Node::Super);
                }
                if rng.chance(1, 2) {
                    inner.extend(rand_body(rng, &mut ids, &mut avail, 2, true, 2));
                }
                if rng.chance(1, 2) {
                    inner.push(ids.t());
                }
                let blk = Node::Block(b, inner);
                body.push(if rng.chance(1, 8) { Node::Cap(rng.chance(1, 2), vec![blk]) } else { blk });
            }
            if rng.chance(1, 25) && !avail.is_empty() {
                // orphan (or, if an ancestor happens to have it, a plain override)
                let b = avail.remove(rng.below(avail.len()));
                body.push(Node::Block(b, vec![ids.t()]));
            }
            if rng.chance(1, 6) {
                body.push(ids.t());
            }
        }
        set.push(Tpl { name: i, extends, body });
    }
    set
}

fn malformed_sets() -> Vec<Vec<Tpl>> {
    let t = |i| Node::Text(i);
    vec![
        // missing parent
        vec![Tpl { name: 0, extends: Some(5), body: vec![t(1)] }],
        // extends cycle
        vec![Tpl { name: 0, extends: Some(1), body: vec![t(1)] }, Tpl { name: 1, extends: Some(0), body: vec![t(2)] }],
        vec![Tpl { name: 0, extends: Some(0), body: vec![t(1)] }],
        // duplicate block name in one template (nested and sibling)
        vec![Tpl { name: 0, extends: None, body: vec![Node::Block(0, vec![t(1)]), Node::Block(0, vec![t(2)])] }],
        vec![Tpl { name: 0, extends: None, body: vec![Node::Block(0, vec![t(1), Node::Block(0, vec![t(2)])])] }],
        // super() outside of any block, in the root and (never run) in a child
        vec![Tpl { name: 0, extends: None, body: vec![t(1), Node::Super] }],
        vec![Tpl { name: 0, extends: None, body: vec![t(1)] }, Tpl { name: 1, extends: Some(0), body: vec![Node::Super, t(2)] }],
        // super() in the root's block
        vec![Tpl { name: 0, extends: None, body: vec![Node::Block(0, vec![t(1), Node::Super])] }],
        // orphan top-level block / the same block nested is fine
        vec![Tpl { name: 0, extends: None, body: vec![Node::Block(0, vec![t(1)])] },
             Tpl { name: 1, extends: Some(0), body: vec![Node::Block(1, vec![t(2)])] }],
        vec![Tpl { name: 0, extends: None, body: vec![Node::Block(0, vec![t(1)])] },
             Tpl { name: 1, extends: Some(0), body: vec![Node::Block(0, vec![t(2), Node::Block(1, vec![t(3)])])] }],
        // orphan inside a top-level filter section of a child
        vec![Tpl { name: 0, extends: None, body: vec![Node::Block(0, vec![t(1)])] },
             Tpl { name: 1, extends: Some(0), body: vec![Node::Cap(true, vec![Node::Block(1, vec![t(2)])])] }],
        // a top-level block of a grandchild that only the middle template has, nested
        vec![Tpl { name: 0, extends: None, body: vec![Node::Block(0, vec![t(1)])] },
             Tpl { name: 1, extends: Some(0), body: vec![Node::Block(0, vec![t(2), Node::Block(1, vec![t(3)])])] },
             Tpl { name: 2, extends: Some(1), body: vec![Node::Block(1, vec![t(4), Node::Super])] }],
        // D8 shape: the requested block sits in a filter section / a set capture
        vec![Tpl { name: 0, extends: None, body: vec![t(1), Node::Cap(true, vec![t(2), Node::Block(0, vec![t(3)]), t(4)]), t(5)] }],
        vec![Tpl { name: 0, extends: None, body: vec![t(1), Node::Cap(false, vec![t(2), Node::Block(0, vec![t(3)]), t(4)]), t(5)] }],
        // D13 shape (block nesting cyclic through the chain)
        vec![Tpl { name: 0, extends: None, body: vec![Node::Block(0, vec![t(1), Node::Block(1, vec![t(2)])])] },
             Tpl { name: 1, extends: Some(0), body: vec![Node::Block(1, vec![Node::Block(0, vec![Node::Super])])] }],
        // the same block reached twice (nested copy in a child + the root's own position)
        vec![Tpl { name: 0, extends: None, body: vec![Node::Block(0, vec![t(1)]), t(2), Node::Block(1, vec![t(3)])] },
             Tpl { name: 1, extends: Some(0), body: vec![Node::Block(0, vec![t(4), Node::Block(1, vec![t(5), Node::Super])])] }],
        // super() twice, and through a skipped level
        vec![Tpl { name: 0, extends: None, body: vec![Node::Block(0, vec![t(1)])] },
             Tpl { name: 1, extends: Some(0), body: vec![t(9)] },
             Tpl { name: 2, extends: Some(1), body: vec![Node::Block(0, vec![Node::Super, t(2), Node::Super])] }],
    ]
}

// ---------------------------------------------------------------- main

fn replay(path: &std::path::Path) {
    let j: serde_json::Value = serde_json::from_str(&std::fs::read_to_string(path).expect("replay file")).expect("json");
    let case = if j.get("case").is_some() { &j["case"] } else if j.get("input").is_some() { &j["input"] } else { &j };
    let case = if case.get("templates").is_some() { case } else if case.get("first").is_some() { &case["first"] } else if case.get("batch").is_some() { &case["batch"] } else { case };
    let Some(tpls) = case["templates"].as_array() else {
        println!("no templates in replay");
        return;
    };
    let mut tera = new_tera();
    let srcs: Vec<(String, String)> = tpls.iter().map(|p| (p[0].as_str().unwrap().to_string(), p[1].as_str().unwrap().to_string())).collect();
    for (n, s) in &srcs {
        println!("{n}: {s}");
    }
    let r = guarded(|| tera.add_raw_templates(srcs.iter().map(|(n, s)| (n.as_str(), s.as_str()))).map(|_| String::new()));
    println!("register: {}", to_ires(r.clone()).json());
    if !matches!(r, Outcome::Ok(_)) {
        return;
    }
    println!("(renders run in a child process)");
    let exe = std::env::current_exe().unwrap();
    let run = |t: &str, b: Option<&str>| {
        let input = json!({"templates": tpls, "render": t, "block": b});
        let mut ch = std::process::Command::new(&exe).arg("--child").stdin(std::process::Stdio::piped()).stdout(std::process::Stdio::piped()).stderr(std::process::Stdio::null()).spawn().unwrap();
        ch.stdin.take().unwrap().write_all(input.to_string().as_bytes()).unwrap();
        let o = ch.wait_with_output().unwrap();
        format!("{} {}", String::from_utf8_lossy(&o.stdout).trim(), if o.status.success() { String::new() } else { format!("[child: {}]", o.status) })
    };
    for (n, _) in &srcs {
        println!("render {n}: {}", run(n, None));
    }
    if let Some(bl) = case["render_block"].as_array() {
        for e in bl {
            let (t, b) = (e[0].as_str().unwrap(), e[1].as_str().unwrap());
            println!("render_block {t} {b}: {}   (recorded: {})", run(t, Some(b)), e[2]);
        }
    }
}

fn main() {
    if std::env::args().any(|a| a == "--child") {
        child_main();
        return;
    }
    let args = parse_args();
    silence_panics();
    if let Some(p) = &args.replay {
        replay(p);
        return;
    }
    let thorough = args.tier == "thorough";
    let mut rng = Rng::new(args.seed);
    let mut meta = Meta::default();
    let header = "From Coq Require Import List NArith.\nFrom TeraV Require Import Model.Value Model.Lineage Corr.CorrC04.\nImport ListNotations.";
    let mut sink = Sink::new(&args.out, "set", header, "check_set");
    let mut st = Stats { sets: 0, accepted: 0, rejected: 0, d13_sets: 0, d13_child_runs: 0, orders_checked: 0, incr_checked: 0, renders: 0, block_renders: 0, d8_shape: 0, d13_seen: 0, d13_cap: if thorough { 40 } else { 8 }, d13_skipped: 0, include_checked: 0 };

    // corpus: hand-written edge cases first
    for s in malformed_sets() {
        push_set(&mut sink, &mut meta, &mut rng, &mut st, &s, 24, "corpus");
    }

    // exhaustive: chains of length <= 3 over two block names
    //   quick:    the 2-arrangement menu (13 layouts per level), every chain of length 1..3
    //   thorough: the 3-arrangement menu (17 layouts per level), every chain of length 1..3,
    //             plus the 6-arrangement menu (33 layouts) exhaustively for length 1..2 and
    //             sampled for length 3 (35 937 chains)
    let menu = level_menu_n(if thorough { 3 } else { 2 });
    let mut exhaustive = 0usize;
    let sweep = |menu: &[(BS, BS, Arr)], max_len: usize, sink: &mut Sink, meta: &mut Meta, rng: &mut Rng, st: &mut Stats, exhaustive: &mut usize| {
        for len in 1..=max_len {
            let mut idx = vec![0usize; len];
            loop {
                let ls: Vec<(BS, BS, Arr)> = idx.iter().map(|&i| menu[i]).collect();
                let set = chain_from_layouts(&ls);
                push_set(sink, meta, rng, st, &set, if thorough { 3 } else { 6 }, "exhaustive");
                *exhaustive += 1;
                let mut k = 0;
                loop {
                    if k == len {
                        break;
                    }
                    idx[k] += 1;
                    if idx[k] < menu.len() {
                        break;
                    }
                    idx[k] = 0;
                    k += 1;
                }
                if k == len {
                    break;
                }
            }
        }
    };
    sweep(&menu, 3, &mut sink, &mut meta, &mut rng, &mut st, &mut exhaustive);
    if thorough {
        let full = level_menu_n(6);
        sweep(&full, 2, &mut sink, &mut meta, &mut rng, &mut st, &mut exhaustive);
        for _ in 0..6_000 {
            let ls: Vec<(BS, BS, Arr)> = (0..3).map(|_| *rng.pick(&full)).collect();
            let set = chain_from_layouts(&ls);
            push_set(&mut sink, &mut meta, &mut rng, &mut st, &set, 3, "chain3-full-menu");
        }
    }
    // chains of length 4 over the full menu: sampled
    let n4 = if thorough { 2_500 } else { 200 };
    let full = level_menu_n(6);
    for _ in 0..n4 {
        let ls: Vec<(BS, BS, Arr)> = (0..4).map(|_| *rng.pick(&full)).collect();
        let set = chain_from_layouts(&ls);
        push_set(&mut sink, &mut meta, &mut rng, &mut st, &set, 4, "chain4");
    }

    // random sets: chains and forests up to 6 templates x 5 block names
    let n_rand = if thorough { 6_000 } else { 500 };
    for i in 0..n_rand {
        let (mt, mn) = if i % 3 == 0 { (4, 3) } else { (6, 5) };
        let set = rand_set(&mut rng, mt, mn, i % 2 == 0);
        push_set(&mut sink, &mut meta, &mut rng, &mut st, &set, 6, "random");
    }

    meta.extra.insert("exhaustive_sets".into(), json!(exhaustive));
    meta.extra.insert("exhaustive_space".into(), json!(format!(
        "every chain of length 1..3 over block names {{b0,b1}} where each level picks one of {} layouts (each block absent / plain / with super(); arrangements {})",
        menu.len(), if thorough { "sibling, b1 in b0, b1 in filter in b0; plus every chain of length 1..2 over the 33-layout menu that adds b0 in b1, b1 in top-level filter, b1 in set-capture in b0" } else { "sibling, b1 in filter in b0" })));
    meta.extra.insert("sets".into(), json!(st.sets));
    meta.extra.insert("accepted".into(), json!(st.accepted));
    meta.extra.insert("rejected".into(), json!(st.rejected));
    meta.extra.insert("renders".into(), json!(st.renders));
    meta.extra.insert("block_renders".into(), json!(st.block_renders));
    meta.extra.insert("batch_orders_checked".into(), json!(st.orders_checked));
    meta.extra.insert("incremental_orders_checked".into(), json!(st.incr_checked));
    meta.extra.insert("include_renders_compared".into(), json!(st.include_checked));
    meta.extra.insert("sets_with_block_in_capture".into(), json!(st.d8_shape));
    meta.extra.insert("d13_class_sets_accepted_and_divergent".into(), json!(st.d13_sets));
    meta.extra.insert("d13_child_process_renders".into(), json!(st.d13_child_runs));
    meta.extra.insert("d13_class_sets_skipped_over_cap".into(), json!(st.d13_skipped));
    meta.extra.insert("impl_ms_first_registration_and_renders".into(), json!(T_BASE.load(std::sync::atomic::Ordering::Relaxed) / 1000));
    meta.extra.insert("impl_ms_order_oracles".into(), json!(T_ORD.load(std::sync::atomic::Ordering::Relaxed) / 1000));
    meta.families.push(sink.finish());
    meta.write(&args.out);
}
