//! C01 — autoescaping. Generated programs route one POISON context string (all of & < > " '
//! plus multi-byte text) through every construct of the language; every render is checked by an
//! implementation-side oracle and a subset is also run on the model (Corr/CorrC01.v).
//!
//! Oracle, autoescape on everywhere and no `safe`: erase the literal tokens the generator wrote
//! (`<L7 "'>`; the poison contains no `L`), the remainder must contain none of < > " ' and — unless
//! the program cuts captured text with index/slice — every & must start one of the five entities;
//! the escaped poison must be present (the final `{{ p }}`). Autoescape off or `| safe`: the poison
//! must appear verbatim.
use serde_json::json;
use tera::verif::{component_listings, template_listing, Listing};
use tera::{Context, Map, Tera, Value};
use tvh::galvm::*;
use tvh::*;

const POISON: &str = "&<b q=\"x\" r='y'>\u{65e5}\u{672c}\u{1F600}&amp;&#39;</b>";
const POISON2: &str = "<<>>\"\"''&&";
const POISON3: &str = "'\"><&";

fn esc(s: &str) -> String {
    let mut o = String::new();
    for c in s.chars() {
        match c {
            '&' => o.push_str("&amp;"),
            '<' => o.push_str("&lt;"),
            '>' => o.push_str("&gt;"),
            '"' => o.push_str("&quot;"),
            '\'' => o.push_str("&#39;"),
            c => o.push(c),
        }
    }
    o
}

#[derive(Clone, Copy, PartialEq, Debug)]
enum K {
    S,
    A,
    M,
    N,
}

#[derive(Clone)]
struct CompDef {
    name: String,
    /// (name, default literal as a string)
    params: Vec<(String, Option<String>)>,
    rest: Option<String>,
    body: String,
    /// kind of the value the generator passes for `a`; whether the body uses `body`
    a_kind: K,
    uses_body: bool,
}

const COMP_PRELUDE: &str = "{% set t = true %}{% set e = \"\" %}{% set p = \"k\" %}";

impl CompDef {
    fn source(&self) -> String {
        let mut ps: Vec<String> = self
            .params
            .iter()
            .map(|(n, d)| match d {
                Some(d) => format!("{n}=\"{d}\""),
                None => n.clone(),
            })
            .collect();
        if let Some(r) = &self.rest {
            ps.push(format!("...{r}"));
        }
        format!("{{% component {}({}) %}}{}{{% endcomponent {} %}}", self.name, ps.join(", "), self.body, self.name)
    }
    fn gal(&self) -> String {
        // BTreeMap order (sorted by name) — irrelevant for the resulting context, kept for fidelity
        let mut ps = self.params.clone();
        ps.sort_by(|a, b| a.0.cmp(&b.0));
        let items: Vec<String> = ps
            .iter()
            .map(|(n, d)| {
                format!(
                    "({}, None, {})",
                    gal_str(n),
                    match d {
                        Some(d) => format!("(Some (VStr {} false))", gal_str(d)),
                        None => "None".to_string(),
                    }
                )
            })
            .collect();
        format!(
            "{{| cd_params := [{}]; cd_rest := {} |}}",
            items.join("; "),
            match &self.rest {
                Some(r) => format!("(Some {})", gal_str(r)),
                None => "None".to_string(),
            }
        )
    }
}

struct Gen<'a> {
    rng: &'a mut Rng,
    lit_special: bool,
    allow_safe: bool,
    allow_cuts: bool,
    /// also use built-ins outside Model/WorldC01.v (such programs are checked by the oracle only)
    wide: bool,
    ext: &'static str,
    incs: Vec<(String, String)>,
    comps: Vec<CompDef>,
    n: usize,
    uses_safe: bool,
    cuts: bool,
    budget: i32,
    tags: std::collections::BTreeSet<&'static str>,
}

impl<'a> Gen<'a> {
    fn fresh(&mut self) -> usize {
        self.n += 1;
        self.n
    }
    fn lit(&mut self) -> String {
        let n = self.fresh();
        if self.lit_special { format!("<L{n} \"'>") } else { format!("[L{n}]") }
    }
    fn tag(&mut self, t: &'static str) {
        self.tags.insert(t);
    }

    /// An expression over `var` that evaluates to something printable.
    fn expr(&mut self, var: &str, k: K) -> String {
        match k {
            K::S => {
                let c = self.rng.below(if self.allow_safe { 17 } else { 16 });
                match c {
                    0 | 1 => var.to_string(),
                    2 => { self.tag("concat"); format!("{var} ~ \"\"") }
                    3 => format!("({var})"),
                    4 => { self.tag("ternary"); format!("{var} if t else e") }
                    5 => { self.tag("or"); format!("u or {var}") }
                    6 => { self.tag("and"); format!("t and {var}") }
                    7 => { self.tag("default"); format!("u | default(value={var})") }
                    8 => { self.tag("array-index"); format!("[{var}, 1][0]") }
                    9 => { self.tag("upper"); format!("{var} | upper") }
                    10 => { self.tag("escape_html"); format!("{var} | escape_html") }
                    11 => { self.tag("slice"); format!("{var}[0:]") }
                    12 => { self.tag("slice"); format!("{var}[1:4]") }
                    13 => { self.tag("index"); format!("{var}[0]") }
                    14 => { self.tag("concat"); format!("{var} ~ {var}") }
                    15 => { self.tag("default"); format!("{var} | default(value=\"d\")") }
                    _ => { self.uses_safe = true; self.tag("safe"); format!("{var} | safe") }
                }
            }
            K::A => match self.rng.below(5) {
                0 => format!("{var}[0]"),
                1 => format!("{var}[-1]"),
                2 => { self.tag("array-whole"); var.to_string() }
                3 => { self.tag("slice"); format!("{var}[1:]") }
                _ => format!("{var}[0] ~ {var}[1]"),
            },
            K::M => match self.rng.below(4) {
                0 => format!("{var}.k"),
                1 => format!("{var}[\"k\"]"),
                2 => { self.tag("map-whole"); var.to_string() }
                _ => format!("{var}[p]"),
            },
            K::N => match self.rng.below(5) {
                0 => { self.tag("attr-path"); format!("{var}.a.b") }
                1 => { self.tag("attr-path"); format!("{var}.a.c[0]") }
                2 => { self.tag("attr-path"); format!("{var}?.a?.b") }
                3 => { self.tag("map-whole"); format!("{var}.a") }
                _ => format!("{var}[\"a\"][\"b\"]"),
            },
        }
    }

    /// Ways to use a captured (safe) string variable.
    fn use_capt(&mut self, v: &str) -> String {
        if self.wide && self.rng.chance(1, 2) {
            self.tag("wide-filters");
            let e = match self.rng.below(14) {
                0 => format!("{v} | replace(from=\"L\", to=p)"),
                1 => format!("{v} | reverse"),
                2 => format!("{v} | trim"),
                3 => format!("[{v}, p] | join(sep=p)"),
                4 => format!("{v} | split(pat=\"L\") | join(sep=p)"),
                5 => format!("{v} | truncate(length=3, end=p)"),
                6 => format!("{v} | title"),
                7 => format!("{v} | capitalize"),
                8 => format!("{v} | lower"),
                9 => format!("[{v}, p] | first ~ p"),
                10 => format!("[p, {v}] | last ~ p"),
                11 => format!("({v} ~ p) | trim_start(pat=\"[\")"),
                12 => format!("{v} | str ~ p"),
                _ => format!("[[{v}, p], [p]] | sort | first | join(sep=\"\")"),
            };
            return format!("{{{{ {e} }}}}");
        }
        if self.rng.chance(1, 8) {
            self.tag("concat-captured");
            return if self.rng.chance(1, 2) { format!("{{{{ {v} ~ p }}}}") } else { format!("{{{{ p ~ {v} }}}}") };
        }
        let c = self.rng.below(if self.allow_cuts { 15 } else { 11 });
        match c {
            0 | 1 => format!("{{{{ {v} }}}}"),
            2 => format!("{{{{ {v} | upper }}}}"),
            3 => { self.tag("loop-chars"); format!("{{% for ch in {v} %}}{{{{ ch }}}}{{% endfor %}}") }
            4 => format!("{{{{ {v} ~ \"\" }}}}"),
            5 => format!("{{{{ [{v}] }}}}"),
            6 => format!("{{{{ {v} | default(value=\"\") }}}}"),
            7 => format!("{{{{ {v} if t else \"\" }}}}"),
            8 => format!("{{{{ u or {v} }}}}"),
            9 => { let w = format!("w{}", self.fresh()); format!("{{% set {w} = {v} %}}{{{{ {w} }}}}") }
            10 => {
                let name = self.new_comp(vec![("a".into(), None)], None, "{{ a }}|{{ a ~ \"\" }}".into(), K::S, false);
                format!("{{{{<{name} a={{{v}}} />}}}}")
            }
            11 => { self.cuts = true; self.tag("cut-captured"); format!("{{{{ {v}[1:] }}}}") }
            12 => { self.cuts = true; self.tag("cut-captured"); format!("{{{{ {v}[0] }}}}") }
            13 => { self.cuts = true; self.tag("cut-captured"); format!("{{{{ {v}[::-1] }}}}") }
            _ => { self.cuts = true; self.tag("cut-captured"); format!("{{% set w = {v}[2:] %}}{{{{ w }}}}{{{{ w[0:1] }}}}") }
        }
    }

    fn new_comp(&mut self, params: Vec<(String, Option<String>)>, rest: Option<String>, body: String, a_kind: K, uses_body: bool) -> String {
        let name = format!("C{}", self.fresh());
        self.comps.push(CompDef { name: name.clone(), params, rest, body: format!("{COMP_PRELUDE}{body}"), a_kind, uses_body });
        name
    }

    fn pick<'s>(&mut self, scope: &'s [(String, K)]) -> &'s (String, K) {
        &scope[self.rng.below(scope.len())]
    }

    fn body(&mut self, depth: u32, scope: &[(String, K)]) -> String {
        let n = 1 + self.rng.below(2);
        (0..n).map(|_| self.frag(depth, scope)).collect()
    }

    fn frag(&mut self, depth: u32, scope: &[(String, K)]) -> String {
        self.budget -= 1;
        let (var, k) = self.pick(scope).clone();
        if depth == 0 || self.budget <= 0 {
            let e = self.expr(&var, k);
            return format!("{}{{{{ {} }}}}", self.lit(), e);
        }
        let d = depth - 1;
        match self.rng.below(15) {
            0 | 1 => {
                let e = self.expr(&var, k);
                format!("{}{{{{ {} }}}}", self.lit(), e)
            }
            2 => {
                self.tag("set");
                let v = format!("v{}", self.fresh());
                let e = self.expr(&var, k);
                let mut sc = scope.to_vec();
                // the kind of an expression over a non-string is not tracked: treat the result as a string only for K::S
                if k == K::S { sc.push((v.clone(), K::S)); }
                format!("{{% set {v} = {e} %}}{{{{ {v} }}}}{}", self.frag(d, &sc))
            }
            3 => {
                self.tag("set-block");
                let v = format!("v{}", self.fresh());
                let inner = self.body(d, scope);
                let l = self.lit();
                format!("{{% set {v} %}}{l}{inner}{{% endset %}}{}", self.use_capt(&v))
            }
            4 => {
                self.tag("set-block-filter");
                let v = format!("v{}", self.fresh());
                let inner = self.body(d, scope);
                let chain = match self.rng.below(if self.allow_safe { 5 } else { 4 }) {
                    0 => "upper",
                    1 => "escape_html",
                    2 => "upper | escape_html",
                    3 => "default(value=\"x\")",
                    _ => { self.uses_safe = true; "upper | safe" }
                };
                // a filtered capture is a Normal string again (except default / safe)
                format!("{{% set {v} | {chain} %}}{inner}{{% endset %}}{{{{ {v} }}}}")
            }
            5 => {
                self.tag("filter-section");
                let f = if self.rng.chance(1, 2) { "upper" } else { "escape_html" };
                let l = self.lit();
                format!("{{% filter {f} %}}{l}{}{{% endfilter %}}", self.body(d, scope))
            }
            6 => match k {
                K::A => {
                    self.tag("loop-array");
                    let x = format!("x{}", self.fresh());
                    let mut sc = scope.to_vec();
                    sc.push((x.clone(), K::S));
                    format!("{{% for {x} in {var} %}}{}{{{{ loop.index }}}}{{% endfor %}}", self.frag(d, &sc))
                }
                K::S => {
                    self.tag("loop-chars");
                    format!("{{% for ch in {var} %}}{{{{ ch }}}}{{% endfor %}}")
                }
                K::M => {
                    self.tag("loop-map");
                    format!("{{% for k, v in {var} %}}{{{{ k }}}}={{{{ v }}}};{{% endfor %}}")
                }
                K::N => {
                    self.tag("loop-map");
                    format!("{{% for k, v in {var}.a %}}{{{{ k }}}}:{{{{ v }}}};{{% endfor %}}")
                }
            },
            7 => {
                self.tag("if");
                let e = self.expr(&var, k);
                format!("{{% if {e} %}}{}{{% else %}}{}{{% endif %}}", self.frag(d, scope), self.frag(d, scope))
            }
            8 => {
                self.tag("include");
                let name = format!("inc{}{}", self.fresh(), self.ext);
                let b = self.body(d, scope);
                self.incs.push((name.clone(), b));
                format!("{{% include \"{name}\" %}}")
            }
            9 => {
                self.tag("component-arg");
                let sc = vec![("a".to_string(), k), ("b".to_string(), K::S)];
                let b = self.body(d, &sc);
                let rest = if self.rng.chance(1, 4) { Some("rest".to_string()) } else { None };
                let extra = if rest.is_some() { format!(" zz={{{var}}}") } else { String::new() };
                let body = if rest.is_some() { format!("{b}{{{{ rest.zz }}}}") } else { b };
                let name = self.new_comp(vec![("a".into(), None), ("b".into(), Some("dflt".into()))], rest, body, k, false);
                if self.rng.chance(1, 2) && k == K::S {
                    let e = self.expr(&var, k);
                    format!("{{{{<{name} a={{{e}}}{extra} />}}}}")
                } else {
                    format!("{{{{<{name} a={{{var}}}{extra} />}}}}")
                }
            }
            10 | 11 => {
                self.tag("component-body");
                let sc = vec![("a".to_string(), k)];
                let inner_c = self.frag(d, &sc);
                let l = self.lit();
                let use_body = self.use_capt("body");
                let name = self.new_comp(vec![("a".into(), None)], None, format!("{l}{use_body}{inner_c}"), k, true);
                let inner = self.body(d, scope);
                let l2 = self.lit();
                format!("{{% <{name} a={{{var}}}> %}}{l2}{inner}{{% </{name}> %}}")
            }
            12 => {
                self.tag("context-dump");
                "{{ __tera_context }}".to_string()
            }
            13 => {
                self.tag("container-literal");
                if self.rng.chance(1, 2) { format!("{{{{ [{var}, 1] }}}}") } else { format!("{{{{ {{\"k\": {var}}} }}}}") }
            }
            _ => {
                self.tag("set-global");
                let v = format!("g{}", self.fresh());
                let e = self.expr(&var, k);
                format!("{{% set_global {v} = {e} %}}{{{{ {v} }}}}")
            }
        }
    }
}

fn m(entries: Vec<(&str, Value)>) -> Value {
    let mut mm = Map::new();
    for (k, v) in entries {
        mm.insert(k.to_string().into(), v);
    }
    Value::from(mm)
}

fn context_for(poison: &str, user_safe: bool) -> Vec<(String, Value)> {
    let p = Value::from(poison);
    let mut v = vec![
        ("p".to_string(), p.clone()),
        ("ps".to_string(), Value::from(vec![p.clone(), Value::from(POISON3), p.clone()])),
        ("pm".to_string(), m(vec![("k", p.clone()), (poison, Value::from(POISON3))])),
        ("pn".to_string(), m(vec![("a", m(vec![("b", p.clone()), ("c", Value::from(vec![p.clone()]))]))])),
        ("t".to_string(), Value::from(true)),
        ("e".to_string(), Value::from("")),
        ("sf".to_string(), Value::safe_string("SAFE-ok")),
    ];
    if user_safe {
        v.push(("us".to_string(), Value::safe_string(poison)));
    }
    v
}

fn base_scope() -> Vec<(String, K)> {
    vec![
        ("p".to_string(), K::S),
        ("p".to_string(), K::S),
        ("ps".to_string(), K::A),
        ("pm".to_string(), K::M),
        ("pn".to_string(), K::N),
    ]
}

fn to_context(c: &[(String, Value)]) -> Context {
    let mut ctx = Context::new();
    for (k, v) in c {
        ctx.insert_value(k.clone(), v.clone());
    }
    ctx
}

struct Prog {
    label: String,
    templates: Vec<(String, String)>,
    entry: String,
    has_blocks: bool,
    comps: Vec<CompDef>,
    ext: &'static str,
    lit_special: bool,
    uses_safe: bool,
    cuts: bool,
    tags: Vec<&'static str>,
}

fn finish_prog(label: String, g: Gen, entry_body: String, inherit: Option<(String, String)>) -> Prog {
    let ext = g.ext;
    let mut templates: Vec<(String, String)> = g.incs.clone();
    if !g.comps.is_empty() {
        templates.push((format!("comps{ext}"), g.comps.iter().map(|c| c.source()).collect::<Vec<_>>().join("\n")));
    }
    let entry = format!("entry{ext}");
    let has_blocks = inherit.is_some();
    match inherit {
        None => templates.push((entry.clone(), entry_body)),
        Some((base_name, base_src)) => {
            templates.push((base_name, base_src));
            templates.push((entry.clone(), entry_body));
        }
    }
    Prog {
        label,
        templates,
        entry,
        has_blocks,
        comps: g.comps,
        ext,
        lit_special: g.lit_special,
        uses_safe: g.uses_safe,
        cuts: g.cuts,
        tags: g.tags.into_iter().collect(),
    }
}

fn gen_prog(rng: &mut Rng, k: usize, ext: &'static str, allow_safe: bool) -> Prog {
    let lit_special = rng.chance(2, 3);
    let mut g = Gen {
        lit_special,
        allow_safe,
        allow_cuts: !lit_special,
        wide: k % 6 == 5,
        ext,
        incs: vec![],
        comps: vec![],
        n: 0,
        uses_safe: false,
        cuts: false,
        budget: 14,
        tags: Default::default(),
        rng,
    };
    let scope = base_scope();
    let depth = 1 + (k % 3) as u32;
    let tail = |g: &mut Gen| -> String {
        let l = g.lit();
        if g.allow_safe {
            g.uses_safe = true;
            format!("{l}{{{{ p }}}}{l}{{{{ p | safe }}}}")
        } else {
            format!("{l}{{{{ p }}}}")
        }
    };
    if k % 4 == 3 {
        // inheritance: base/child with super()
        g.tag("blocks");
        let b0 = g.body(depth, &scope);
        let c0 = g.frag(depth.saturating_sub(1), &scope);
        let l = g.lit();
        let base_name = format!("base{ext}");
        let base = format!("{l}{{% block b %}}{b0}{{% endblock %}}|{{% block c %}}{c0}{{% endblock %}}{}", tail(&mut g));
        let sup = match g.rng.below(if g.allow_cuts { 5 } else { 3 }) {
            0 => "{{ super() }}".to_string(),
            1 => "{% set s = super() %}{{ s }}{{ s | upper }}".to_string(),
            2 => String::new(),
            3 => { g.cuts = true; g.tag("cut-captured"); "{% set s = super() %}{{ s[1:] }}".to_string() }
            _ => { g.cuts = true; g.tag("cut-captured"); "{{ super()[::-1] }}".to_string() }
        };
        g.tag("super");
        let b1 = g.frag(depth.saturating_sub(1), &scope);
        let child = format!("{{% extends \"{base_name}\" %}}{{% block b %}}{sup}{b1}{{% endblock %}}");
        finish_prog(format!("gen#{k}"), g, child, Some((base_name, base)))
    } else {
        let b = g.body(depth, &scope);
        let t = tail(&mut g);
        finish_prog(format!("gen#{k}"), g, format!("{b}{t}"), None)
    }
}

/// The exhaustive sweep: every sink x every mint point x every flag-preserving operation x routing.
fn sweep_progs(ext: &'static str) -> Vec<Prog> {
    let mut out = Vec::new();
    // mint: how a safe string named `s` comes to exist, given inner data text `D` (a fragment printing p)
    let data = "[L1]{{ p }}{{ pn.a.b }}";
    let ops: [(&str, &str, bool); 6] = [
        ("none", "s", false),
        ("index", "s[0]", true),
        ("slice", "s[1:]", true),
        ("slice-rev", "s[::-1]", true),
        ("slice-step", "s[::2]", true),
        ("index-neg", "s[-1]", true),
    ];
    // sink: WritePath (fused `{{ name }}`) or WriteTop (any non-path expression)
    let sinks: [(&str, bool); 2] = [("path", true), ("top", false)];
    let routes = ["direct", "via-set", "in-loop", "in-capture", "via-component-arg", "via-include", "via-ternary"];
    let mints = ["set-block", "component-result", "component-body", "super", "set-block-default-filter"];
    for mint in mints {
        for (opname, opexpr, cut) in ops {
            for (sinkname, is_path) in sinks {
                for route in routes {
                    let mut comps: Vec<CompDef> = vec![];
                    let mut incs: Vec<(String, String)> = vec![];
                    // the sink: print expression E
                    let print = |e: &str| -> String {
                        if is_path {
                            format!("{{% set z = {e} %}}{{{{ z }}}}")
                        } else {
                            format!("{{{{ ({e}) if t else \"\" }}}}")
                        }
                    };
                    let routed = |e: &str, comps: &mut Vec<CompDef>, incs: &mut Vec<(String, String)>| -> String {
                        match route {
                            "direct" => print(e),
                            "via-set" => format!("{{% set y = {e} %}}{}", print("y")),
                            "in-loop" => format!("{{% for i in ps %}}{}{{% endfor %}}", print(e)),
                            "in-capture" => format!("{{% set q %}}{}{{% endset %}}{{{{ q }}}}", print(e)),
                            "via-component-arg" => {
                                comps.push(CompDef { name: "Arg".into(), params: vec![("a".into(), None)], rest: None, body: format!("{{% set t = true %}}{{% set e = \"\" %}}{}", print("a")), a_kind: K::S, uses_body: false });
                                format!("{{{{<Arg a={{{e}}} />}}}}")
                            }
                            "via-include" => {
                                incs.push((format!("sinc{ext}"), print("y")));
                                format!("{{% set y = {e} %}}{{% include \"sinc{ext}\" %}}")
                            }
                            _ => print(&format!("{e} if t else e")),
                        }
                    };
                    let (entry_body, inherit): (String, Option<(String, String)>) = match mint {
                        "set-block" => {
                            let r = routed(opexpr, &mut comps, &mut incs);
                            (format!("{{% set s %}}{data}{{% endset %}}{r}[L2]{{{{ p }}}}"), None)
                        }
                        "set-block-default-filter" => {
                            let r = routed(opexpr, &mut comps, &mut incs);
                            (format!("{{% set s | default(value=1) %}}{data}{{% endset %}}{r}[L2]{{{{ p }}}}"), None)
                        }
                        "component-result" => {
                            comps.push(CompDef { name: "Mk".into(), params: vec![("a".into(), None)], rest: None, body: "[L1]{{ a }}{{ a ~ \"\" }}".into(), a_kind: K::S, uses_body: false });
                            let r = routed(opexpr, &mut comps, &mut incs);
                            (format!("{{% set s = <Mk a={{p}} /> %}}{r}[L2]{{{{ p }}}}"), None)
                        }
                        "component-body" => {
                            // inside the component, `body` is the minted string
                            let r = routed(&opexpr.replace('s', "body"), &mut comps, &mut incs).replace(" y ", " y ");
                            comps.push(CompDef { name: "Bd".into(), params: vec![], rest: None, body: format!("{{% set ps = [1] %}}{{% set t = true %}}{{% set e = \"\" %}}{r}"), a_kind: K::S, uses_body: true });
                            (format!("{{% <Bd> %}}{data}{{% </Bd> %}}[L2]{{{{ p }}}}"), None)
                        }
                        _ => {
                            let r = routed(opexpr, &mut comps, &mut incs);
                            let base = format!("{{% block b %}}{data}{{% endblock %}}[L2]{{{{ p }}}}");
                            (
                                format!("{{% extends \"sbase{ext}\" %}}{{% block b %}}{{% set s = super() %}}{r}{{% endblock %}}"),
                                Some((format!("sbase{ext}"), base)),
                            )
                        }
                    };
                    // `{% set s = <Mk ... /> %}` may not parse in every position: such programs are skipped at registration
                    let g_tags: Vec<&'static str> = vec![];
                    let mut templates = incs.clone();
                    if !comps.is_empty() {
                        templates.push((format!("comps{ext}"), comps.iter().map(|c| c.source()).collect::<Vec<_>>().join("\n")));
                    }
                    let entry = format!("entry{ext}");
                    let has_blocks = inherit.is_some();
                    if let Some((bn, bs)) = inherit {
                        templates.push((bn, bs));
                    }
                    templates.push((entry.clone(), entry_body));
                    out.push(Prog {
                        label: format!("sweep:{mint}/{opname}/{sinkname}/{route}"),
                        templates,
                        entry,
                        has_blocks,
                        comps,
                        ext,
                        lit_special: false,
                        uses_safe: false,
                        cuts: cut,
                        tags: g_tags,
                    });
                }
            }
        }
    }
    out
}

fn hand_progs(ext: &'static str) -> Vec<Prog> {
    let rec = CompDef {
        name: "Rec".into(),
        params: vec![("xs".into(), None)],
        rest: None,
        body: "[L1]{{ xs[0] }}{% if xs[1:] %}{{<Rec xs={xs[1:]} />}}{% endif %}".into(),
        a_kind: K::A,
        uses_body: false,
    };
    let wrap = CompDef { name: "Wrap".into(), params: vec![("a".into(), Some("dflt".into()))], rest: None, body: "<L2 \"'>{{ body }}{{ a }}".into(), a_kind: K::S, uses_body: true };
    let srcs: Vec<(&str, String, Vec<CompDef>)> = vec![
        ("rec3", "{{<Rec xs={ps} />}}<L9 \"'>{{ p }}".into(), vec![rec.clone()]),
        ("rec19", "{% set l = [p,p,p,p,p,p,p,p,p,p,p,p,p,p,p,p,p,p,p] %}{{<Rec xs={l} />}}<L9 \"'>{{ p }}".into(), vec![rec.clone()]),
        ("rec25", "{% set l = [p,p,p,p,p,p,p,p,p,p,p,p,p,p,p,p,p,p,p,p,p,p,p,p,p] %}{{<Rec xs={l} />}}<L9 \"'>{{ p }}".into(), vec![rec.clone()]),
        ("nested-body", "{% <Wrap a={p}> %}<L3 \"'>{{ p }}{% <Wrap> %}{{ pn.a.b }}{% </Wrap> %}{% </Wrap> %}<L9 \"'>{{ p }}".into(), vec![wrap.clone()]),
        ("single-expr-body", "{% <Wrap> %}{{ p }}{% </Wrap> %}|{% <Wrap a={p}> %}{{ pn.a.b }}{% </Wrap> %}<L9 \"'>{{ p }}".into(), vec![wrap.clone()]),
        ("forward-body", "{% <Fwd> %}{{ p }}x{% </Fwd> %}<L9 \"'>{{ p }}".into(), vec![wrap.clone(), CompDef { name: "Fwd".into(), params: vec![], rest: None, body: "{% <Wrap> %}{{ body }}{% </Wrap> %}".into(), a_kind: K::S, uses_body: true }]),
        ("filter-double", "{% filter escape_html %}{{ p }}{% endfilter %}<L9 \"'>{{ p }}".into(), vec![]),
        ("map-keys", "{% for k, v in pm %}{{ k }}{{ v }}{% endfor %}{{ pm }}<L9 \"'>{{ p }}".into(), vec![]),
        ("dump", "{% set q = p %}{% for i in ps %}{{ __tera_context }}{% endfor %}<L9 \"'>{{ p }}".into(), vec![]),
        ("chars", "{% for ch in p %}{{ ch }}{{ ch ~ ch }}{% endfor %}<L9 \"'>{{ p }}".into(), vec![]),
        ("safe-ctx", "{{ sf }}{{ sf[1:] }}<L9 \"'>{{ p }}".into(), vec![]),
        ("capt-in-capt", "{% set a %}{% set b %}{{ p }}{% endset %}{{ b }}{{ b | upper }}{% endset %}{{ a }}<L9 \"'>{{ p }}".into(), vec![]),
    ];
    srcs.into_iter()
        .map(|(label, src, comps)| {
            let mut templates = vec![];
            if !comps.is_empty() {
                templates.push((format!("comps{ext}"), comps.iter().map(|c| c.source()).collect::<Vec<_>>().join("\n")));
            }
            templates.push((format!("entry{ext}"), src));
            Prog {
                label: format!("hand:{label}"),
                templates,
                entry: format!("entry{ext}"),
                has_blocks: false,
                comps,
                ext,
                lit_special: true,
                uses_safe: false,
                cuts: label == "safe-ctx",
                tags: vec![],
            }
        })
        .collect()
}

/// remove the literal tokens `<L123 "'>` from the output
fn erase_literals(out: &str) -> String {
    let b: Vec<char> = out.chars().collect();
    let mut res = String::new();
    let mut i = 0;
    while i < b.len() {
        if b[i] == '<' && i + 1 < b.len() && b[i + 1] == 'L' {
            let mut j = i + 2;
            while j < b.len() && b[j].is_ascii_digit() {
                j += 1;
            }
            if j > i + 2 && j + 3 < b.len() + 0 && b[j] == ' ' && b[j + 1] == '"' && b[j + 2] == '\'' && b[j + 3] == '>' {
                i = j + 4;
                continue;
            }
        }
        res.push(b[i]);
        i += 1;
    }
    res
}

fn oracle_escaped(out: &str, cuts: bool) -> Result<(), String> {
    let rem = erase_literals(out);
    if let Some(c) = rem.chars().find(|c| matches!(c, '<' | '>' | '"' | '\'')) {
        return Err(format!("unescaped `{c}` outside literal text"));
    }
    if !cuts {
        let ents = ["&amp;", "&lt;", "&gt;", "&quot;", "&#39;"];
        for (i, _) in rem.match_indices('&') {
            if !ents.iter().any(|e| rem[i..].starts_with(e)) {
                return Err("`&` that does not start one of the five entities".into());
            }
        }
    }
    Ok(())
}

fn subset_ok(l: &Listing) -> bool {
    l.iter().all(|(i, _)| match i.op {
        "Mul" | "Div" | "FloorDiv" | "Mod" | "Plus" | "Minus" | "Power" | "Negative" => false,
        "ApplyFilter" => ["default", "upper", "safe", "length", "escape_html"].contains(&i.strs[0].as_str()),
        "RunTest" => W0_TESTS.contains(&i.strs[0].as_str()),
        "CallFunction" => i.strs[0] == "super",
        _ => true,
    })
}

struct Setup {
    tera: Tera,
    /// Gallina definitions shared by the cases of this program
    defs: Vec<(String, String)>,
    tpls_name: String,
    comps_name: String,
    in_subset: bool,
    comp_src_tpl: Vec<(String, String)>,
}

fn setup(p: &Prog, suffix_mode: u8) -> Option<Setup> {
    let mut tera = Tera::default();
    match suffix_mode {
        // 0: defaults (.html .htm .xml); 1: custom suffix given BEFORE the templates; 2: AFTER (recomputed by autoescape_on)
        1 => tera.autoescape_on(vec![".txt"]),
        _ => {}
    }
    if tera.add_raw_templates(p.templates.clone()).is_err() {
        return None;
    }
    if suffix_mode == 2 {
        tera.autoescape_on(vec![".txt"]);
    }
    let mut listings = Vec::new();
    let mut in_subset = true;
    for (n, _) in &p.templates {
        let tl = template_listing(&tera, n)?;
        if !subset_ok(&tl.chunk) || tl.lineage.iter().any(|(_, cs)| cs.iter().any(|c| !subset_ok(c))) {
            in_subset = false;
        }
        listings.push(tl);
    }
    let gtpls: Vec<String> = listings
        .iter()
        .map(|tl| {
            let root = listings.iter().find(|x| x.name == tl.root).map(|x| x.chunk.clone()).unwrap_or_else(|| tl.chunk.clone());
            format!("({}, {})", gal_str(&tl.name), gal_template(tl, &root))
        })
        .collect();
    let tpls_term = format!("[{}]", gtpls.join("; "));
    let mut comp_src_tpl = vec![];
    let mut gcomps = vec![];
    for (name, tplname, listing) in component_listings(&tera) {
        if !subset_ok(&listing) {
            in_subset = false;
        }
        let Some(def) = p.comps.iter().find(|c| c.name == name) else { return None };
        gcomps.push(format!("({}, ({}, {}))", gal_str(&name), def.gal(), gal_code(&listing)));
        comp_src_tpl.push((name, tplname));
    }
    let comps_term = if gcomps.is_empty() {
        "(@nil (str * (comp_def * list instr)))".to_string()
    } else {
        format!("[{}]", gcomps.join("; "))
    };
    let tpls_name = format!("tp_{:x}", fnv_pub(&tpls_term));
    let comps_name = format!("cp_{:x}", fnv_pub(&comps_term));
    Some(Setup {
        tera,
        defs: vec![(tpls_name.clone(), tpls_term), (comps_name.clone(), comps_term)],
        tpls_name,
        comps_name,
        in_subset,
        comp_src_tpl,
    })
}

fn main() {
    let args = parse_args();
    silence_panics();
    if let Some(rp) = &args.replay {
        replay(rp);
        return;
    }
    let thorough = args.tier == "thorough";
    // self-test of the oracle: it must reject the raw poison and a lone ampersand, accept the escaped poison and literal tokens
    assert!(oracle_escaped(POISON, false).is_err() && oracle_escaped("a&b", false).is_err() && oracle_escaped("a&b", true).is_ok());
    assert!(oracle_escaped(&format!("<L12 \"'>{}<L3 \"'>", esc(POISON)), false).is_ok());
    assert!(oracle_escaped("<L12 \"'> <M1 \"'>", false).is_err());
    let mut rng = Rng::new(args.seed);
    let mut meta = Meta::default();
    let hdr = "From TeraV Require Import Model.Value Model.Instr Model.VM Model.Taint Model.WorldC01 Corr.CorrC01.";
    let mut sink = Sink::new(&args.out, "c01vm", hdr, "check_c01");
    sink.shard_cap_set(if thorough { 40 } else { 20 });

    // ---- programs
    let n_gen = if thorough { 9000 } else { 460 };
    let mut progs: Vec<(Prog, u8)> = Vec::new(); // (program, suffix mode)
    // hand-written programs first: they are always run on the model as well
    for ext in [".html", ".txt"] {
        for p in hand_progs(ext) {
            progs.push((p, 0));
        }
    }
    for k in 0..n_gen {
        let (ext, mode): (&'static str, u8) = match k % 5 {
            0 | 1 => (".html", 0),
            2 => (".txt", 0),
            3 => (".txt", 1),
            _ => (".txt", 2),
        };
        // `safe` only in a separate stream (the oracle changes)
        let allow_safe = k % 7 == 6;
        progs.push((gen_prog(&mut rng, k, ext, allow_safe), mode));
    }
    let mut sweep_total = 0usize;
    let mut sweep_ok = 0usize;
    {
        let sw_html = sweep_progs(".html");
        sweep_total += sw_html.len();
        let take_every = if thorough { 1 } else { 7 };
        for (i, p) in sw_html.into_iter().enumerate() {
            if i % take_every == (args.seed as usize % take_every) {
                progs.push((p, 0));
            }
        }
        if thorough {
            for p in sweep_progs(".txt") {
                progs.push((p, 0));
            }
        }
    }

    let ctx_variants: Vec<(&str, Vec<(String, Value)>)> = vec![
        ("poison", context_for(POISON, false)),
        ("specials-only", context_for(POISON2, false)),
        ("short", context_for(POISON3, false)),
    ];
    let ctx_user_safe = ("poison+usersafe", context_for(POISON, true));

    let mut renders = 0usize;
    let mut oracle_only = 0usize;
    let mut oracle_only_nontrivial = 0usize;
    let mut skipped_register = 0usize;
    let mut model_budget: usize = if thorough { 3000 } else { 320 };
    let mut distribution: std::collections::BTreeMap<String, usize> = Default::default();

    for (pi, (p, smode)) in progs.iter().enumerate() {
        let Some(su) = setup(p, *smode) else {
            skipped_register += 1;
            continue;
        };
        if p.label.starts_with("sweep:") {
            sweep_ok += 1;
        }
        for t in &p.tags {
            *distribution.entry(t.to_string()).or_default() += 1;
        }
        let ae_on = match (p.ext, smode) {
            (".html", 0) => true,
            (".txt", 1) | (".txt", 2) => true,
            _ => false,
        };
        // check the flag the engine computed against the configuration (autoescape_flag_by_suffix)
        for (n, _) in &p.templates {
            let tl = template_listing(&su.tera, n).unwrap();
            meta.oracle_checks += 1;
            if tl.autoescape != ae_on {
                meta.oracle_fail("autoescape flag differs from `name ends with a configured suffix`", None,
                    json!({"template": n, "suffix_mode": smode, "flag": tl.autoescape}));
            }
        }
        let nctx = if p.label.starts_with("gen#") && !thorough { 2 } else { ctx_variants.len() };
        let start = rng.below(ctx_variants.len());
        let mut ctxs: Vec<&(&str, Vec<(String, Value)>)> = ctx_variants.iter().cycle().skip(start).take(nctx).collect();
        if pi % 9 == 0 {
            ctxs.push(&ctx_user_safe);
        }
        for (cname, c) in ctxs {
            let ctx = to_context(c);
            let poison = c[0].1.as_str().unwrap().to_string();
            let user_safe = *cname == "poison+usersafe";
            // ---- mode: render (and render_block b for inheritance programs, render_str for the others)
            let mut modes: Vec<(&str, Option<String>)> = vec![("render", None)];
            if p.has_blocks {
                modes.push(("render_block", Some("b".to_string())));
            } else if pi % 3 == 0 {
                modes.push(("render_str", None));
            }
            for (mode, blk) in modes {
                let entry_src = &p.templates.iter().find(|(n, _)| n == &p.entry).unwrap().1;
                let r = match mode {
                    "render" => guarded(|| su.tera.render(&p.entry, &ctx)),
                    "render_block" => guarded(|| su.tera.render_block(&p.entry, blk.as_ref().unwrap(), &ctx)),
                    _ => guarded(|| su.tera.render_str(entry_src, &ctx, ae_on)),
                };
                renders += 1;
                meta.oracle_checks += 1;
                let input = json!({"label": p.label, "templates": p.templates, "entry": p.entry, "mode": mode, "block": blk,
                    "suffix_mode": smode, "context": cname, "autoescape": ae_on});
                if let Outcome::Panic(msg) = &r {
                    meta.oracle_fail(&format!("panic: {msg}"), None, input.clone());
                }
                let mut nontrivial = false;
                if let Outcome::Ok(out) = &r {
                    nontrivial = out.chars().count() > 20 && !p.tags.is_empty() || p.label.starts_with("sweep") || p.label.starts_with("hand");
                    if ae_on && !p.uses_safe && !user_safe {
                        if let Err(what) = oracle_escaped(out, p.cuts) {
                            meta.oracle_fail(&format!("autoescape on, no safe: {what}"), None,
                                json!({"input": input, "output": out}));
                        }
                        // the trailing `{{ p }}` of the entry (or of the base template) must be there, escaped
                        if mode != "render_block" && !out.contains(&esc(&poison)) {
                            meta.oracle_fail("autoescape on: the escaped poison is missing from the output", None,
                                json!({"input": input, "output": out}));
                        }
                    } else if !ae_on || p.uses_safe {
                        if mode != "render_block" && !out.contains(&poison) {
                            meta.oracle_fail("autoescape off / safe: the poison does not appear verbatim", None,
                                json!({"input": input, "output": out}));
                        }
                    }
                }
                // ---- model side
                let strict = ae_on && !p.uses_safe && !p.lit_special && !user_safe;
                if su.in_subset && model_budget > 0 && (rng.chance(1, if thorough { 12 } else { 5 }) || (strict && rng.chance(1, 2)) || p.label.starts_with("hand:") || p.label.starts_with("sweep:") && rng.chance(1, 3)) {
                    model_budget -= 1;
                    let g = format!(
                        "{{| k_templates := {}; k_components := {}; k_entry := {}; k_mode := MRender {}; k_ctx := {}; k_safe := {}; k_strict := {}; k_impl := {} |}}",
                        su.tpls_name, su.comps_name, gal_str(&p.entry), gal_opt(&blk, |b| gal_str(b)), gal_ctx(c),
                        gal_bool(p.uses_safe), gal_bool(strict), r.gal(|s| gal_str(s))
                    );
                    let desc = json!({"input": input, "impl": r.json(|s| json!(s))});
                    let tag = match &r { Outcome::Ok(_) => "impl:ok", Outcome::Err(..) => "impl:err", Outcome::Panic(_) => "impl:panic" };
                    let mut tags = vec![tag, mode, if ae_on { "ae:on" } else { "ae:off" }];
                    if strict { tags.push("strict"); }
                    sink.push_with_defs(&su.defs, g, desc, nontrivial, None, &tags);
                } else {
                    oracle_only += 1;
                    if nontrivial {
                        oracle_only_nontrivial += 1;
                    }
                }
            }
            // ---- mode: render_component for every component taking exactly `a`
            if pi % 2 == 0 {
                for cd in p.comps.iter().filter(|c| c.params.first().map(|x| x.0.as_str()) == Some("a") && c.rest.is_none() && c.a_kind == K::S).take(2) {
                    for (flag, body) in [(true, Some("BODY-ok")), (false, if cd.uses_body { Some("B<o>dy") } else { None }), (true, if cd.uses_body { Some("BODY-2") } else { None })] {
                        let mut cc: Vec<(String, Value)> = vec![("a".to_string(), Value::from(poison.as_str()))];
                        if cd.params.len() > 1 && flag {
                            cc.push(("b".to_string(), Value::from(POISON3)));
                        }
                        let cctx = to_context(&cc);
                        let r = guarded(|| su.tera.render_component(&cd.name, &cctx, body, flag));
                        renders += 1;
                        meta.oracle_checks += 1;
                        let input = json!({"label": p.label, "templates": p.templates, "component": cd.name, "mode": "render_component",
                            "autoescape": flag, "body": body, "context": {"a": poison}});
                        if let Outcome::Panic(msg) = &r {
                            meta.oracle_fail(&format!("panic: {msg}"), None, input.clone());
                        }
                        // includes inside the component follow the override too: every template is escaped
                        if let Outcome::Ok(out) = &r {
                            if flag && !p.uses_safe {
                                if let Err(what) = oracle_escaped(out, p.cuts || body.is_some()) {
                                    meta.oracle_fail(&format!("render_component autoescape=true: {what}"), None,
                                        json!({"input": input, "output": out}));
                                }
                            }
                        }
                        let src_tpl = su.comp_src_tpl.iter().find(|x| x.0 == cd.name).map(|x| x.1.clone());
                        if let (true, Some(src_tpl), true) = (su.in_subset, src_tpl, model_budget > 0 && rng.chance(1, if thorough { 12 } else { 5 })) {
                            model_budget -= 1;
                            let g = format!(
                                "{{| k_templates := {}; k_components := {}; k_entry := {}; k_mode := MComponent {} {} {}; k_ctx := {}; k_safe := {}; k_strict := false; k_impl := {} |}}",
                                su.tpls_name, su.comps_name, gal_str(&src_tpl), gal_str(&cd.name), gal_bool(flag),
                                gal_opt(&body.map(|s| s.to_string()), |b| gal_str(b)), gal_ctx(&cc), gal_bool(p.uses_safe), r.gal(|s| gal_str(s))
                            );
                            let desc = json!({"input": input, "impl": r.json(|s| json!(s))});
                            let tag = match &r { Outcome::Ok(_) => "impl:ok", Outcome::Err(..) => "impl:err", Outcome::Panic(_) => "impl:panic" };
                            sink.push_with_defs(&su.defs, g, desc, matches!(&r, Outcome::Ok(s) if s.len() > 10), None,
                                &[tag, "render_component", if flag { "ae:on" } else { "ae:off" }]);
                        } else {
                            oracle_only += 1;
                        }
                    }
                }
            }
        }
    }

    // ---- all 128 ASCII bytes + boundary code points through the real escaper vs the generated table (cross-check of T-gen)
    {
        let tera = Tera::default();
        for cp in (0u32..128).chain([0x7f, 0x80, 0xff, 0x100, 0x2028, 0xfffd, 0x1f600]) {
            let Some(ch) = char::from_u32(cp) else { continue };
            let mut ctx = Context::new();
            ctx.insert_value("c", Value::from(ch.to_string()));
            let r = guarded(|| tera.render_str("{{ c }}", &ctx, true));
            meta.oracle_checks += 1;
            renders += 1;
            oracle_only += 1;
            match r {
                Outcome::Ok(out) if out == esc(&ch.to_string()) => {}
                other => meta.oracle_fail("escape_html differs from the five-entity map", None,
                    json!({"code_point": cp, "impl": other.json(|s| json!(s))})),
            }
        }
    }

    meta.extra.insert("renders".into(), json!(renders));
    meta.extra.insert("oracle_only_evaluations".into(), json!(oracle_only));
    meta.extra.insert("oracle_only_nontrivial".into(), json!(oracle_only_nontrivial));
    meta.extra.insert("programs".into(), json!(progs.len()));
    meta.extra.insert("programs_rejected_at_registration".into(), json!(skipped_register));
    meta.extra.insert("sweep_space".into(), json!(sweep_total));
    meta.extra.insert("sweep_programs_run".into(), json!(sweep_ok));
    meta.extra.insert("sweep_exhaustive".into(), json!(thorough));
    meta.extra.insert("construct_distribution".into(), json!(distribution));
    meta.families.push(sink.finish());
    meta.write(&args.out);
}

fn replay(path: &std::path::Path) {
    let r: serde_json::Value = serde_json::from_str(&std::fs::read_to_string(path).expect("replay file")).expect("json");
    let input = r.get("input").and_then(|i| i.get("input")).or_else(|| r.get("input")).or_else(|| r.get("case").and_then(|c| c.get("input"))).cloned().unwrap_or(r.clone());
    let Some(tpls) = input.get("templates").and_then(|t| t.as_array()) else {
        println!("no templates in replay");
        return;
    };
    let templates: Vec<(String, String)> = tpls.iter().map(|p| (p[0].as_str().unwrap().to_string(), p[1].as_str().unwrap().to_string())).collect();
    let mut tera = Tera::default();
    let smode = input.get("suffix_mode").and_then(|x| x.as_u64()).unwrap_or(0);
    if smode == 1 {
        tera.autoescape_on(vec![".txt"]);
    }
    if let Err(e) = tera.add_raw_templates(templates.clone()) {
        println!("registration error: {e}");
        return;
    }
    if smode == 2 {
        tera.autoescape_on(vec![".txt"]);
    }
    let cname = input.get("context").and_then(|c| c.as_str()).unwrap_or("poison");
    let c = match cname {
        "specials-only" => context_for(POISON2, false),
        "short" => context_for(POISON3, false),
        "poison+usersafe" => context_for(POISON, true),
        _ => context_for(POISON, false),
    };
    let ctx = to_context(&c);
    let mode = input.get("mode").and_then(|m| m.as_str()).unwrap_or("render");
    let out = match mode {
        "render_component" => {
            let name = input["component"].as_str().unwrap();
            let mut cc = Context::new();
            cc.insert_value("a", Value::from(input["context"]["a"].as_str().unwrap_or(POISON)));
            guarded(|| tera.render_component(name, &cc, input["body"].as_str(), input["autoescape"].as_bool().unwrap_or(true)))
        }
        "render_block" => guarded(|| tera.render_block(input["entry"].as_str().unwrap(), input["block"].as_str().unwrap_or("b"), &ctx)),
        "render_str" => {
            let entry = input["entry"].as_str().unwrap();
            let src = &templates.iter().find(|(n, _)| n == entry).unwrap().1;
            guarded(|| tera.render_str(src, &ctx, input["autoescape"].as_bool().unwrap_or(true)))
        }
        _ => guarded(|| tera.render(input["entry"].as_str().unwrap(), &ctx)),
    };
    for (n, s) in &templates {
        println!("--- {n}\n{s}");
    }
    println!("--- context {cname}: p = {:?}", c[0].1.as_str());
    println!("--- {mode}: {}", out.json(|s| json!(s)));
}
