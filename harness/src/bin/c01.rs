//! C01 — autoescaping. Generated programs route one POISON context string (all of & < > " '
//! plus multi-byte text) through every construct of the language; every render is checked by an
//! implementation-side oracle and a subset is also run on the model (Corr/CorrC01.v).
//!
//! Oracle, autoescape on everywhere and no `safe`: erase the literal tokens the generator wrote
//! (`<L7 "'>`; the poison contains no `L`), the remainder must contain none of < > " ' and — unless
//! the program cuts captured text with index/slice — every & must start one of the five entities;
//! the escaped poison must be present (the final `{{ p }}`). Autoescape off or `| safe`: the poison
//! must appear verbatim.
use serde_json::json;
use tera::verif::{component_listings, template_listing, Listing};
use tera::{Context, Map, Tera, Value};
use tvh::galvm::*;
use tvh::*;

const POISON: &str = "&<b q=\"x\" r='y'>\u{65e5}\u{672c}\u{1F600}&amp;&#39;</b>";
const POISON2: &str = "<<>>\"\"''&&";
const POISON3: &str = "'\"><&";

fn esc(s: &str) -> String {
    let mut o = String::new();
    for c in s.chars() {
        match c {
            '&' => o.push_str("&amp;"),
            '<' => o.push_str("&lt;"),
            '>' => o.push_str("&gt;"),
            '"' => o.push_str("&quot;"),
            '\'' => o.push_str("&#39;"),
            c => o.push(c),
        }
    }
    o
}

// ---- custom escape functions (Tera::set_escape_fn)
const MK_OPEN: char = '\u{27E6}';
const MK_CLOSE: char = '\u{27E7}';

/// marks every call: the input wrapped in ⟦…⟧, nothing rewritten
fn escape_marker(input: &str, out: &mut dyn std::io::Write) -> std::io::Result<()> {
    write!(out, "{MK_OPEN}{input}{MK_CLOSE}")
}
/// a JS-string escaper (\\xNN style): rewrites backslash, slash, both quotes and newline — characters the
/// HTML escaper leaves alone (except the quotes)
fn escape_js(input: &str, out: &mut dyn std::io::Write) -> std::io::Result<()> {
    out.write_all(esc_js(input).as_bytes())
}
fn escape_identity(input: &str, out: &mut dyn std::io::Write) -> std::io::Result<()> {
    out.write_all(input.as_bytes())
}
fn esc_js(s: &str) -> String {
    let mut o = String::new();
    for c in s.chars() {
        match c {
            '\\' => o.push_str("\\x5C"),
            '/' => o.push_str("\\x2F"),
            '"' => o.push_str("\\x22"),
            '\'' => o.push_str("\\x27"),
            '\n' => o.push_str("\\x0A"),
            c => o.push(c),
        }
    }
    o
}
const ESCAPERS: [(&str, &str, tera::EscapeFn); 3] = [
    ("marker", "EscMarker", escape_marker),
    ("js", "EscJs", escape_js),
    ("identity", "EscId", escape_identity),
];
/// a string literal written in expressions: none of the five HTML specials (so that an optimiser
/// that reasons about the DEFAULT escaper would treat it as inert), but characters other
/// escapers rewrite
const EXPR_LIT_SRC: &str = "z\u{a7}/y\\\\w";
const EXPR_LIT_VAL: &str = "z\u{a7}/y\\w";

/// marker escaper: outside every ⟦…⟧ region and outside the literal tokens there must be no data
/// character (poison specials / multi-byte, the expression-literal's § and backslash)
fn oracle_marker(out: &str) -> Result<(), String> {
    let rem = erase_literals(out);
    let mut depth = 0usize;
    for c in rem.chars() {
        if c == MK_OPEN {
            depth += 1;
        } else if c == MK_CLOSE {
            depth = depth.saturating_sub(1);
        } else if depth == 0 && matches!(c, '<' | '>' | '"' | '\'' | '&' | '\u{65e5}' | '\u{672c}' | '\u{1F600}' | '\u{a7}' | '\\') {
            return Err(format!("data character `{c}` written without a call of the configured escape function"));
        }
    }
    Ok(())
}
/// JS escaper: after erasing the literal tokens there is no bare / " ' or newline, and every
/// backslash starts one of the five \xNN sequences the escaper writes
fn oracle_js(out: &str) -> Result<(), String> {
    let rem = erase_literals(out);
    let seqs = ["\\x5C", "\\x2F", "\\x22", "\\x27", "\\x0A"];
    for (i, c) in rem.char_indices() {
        match c {
            '\\' => {
                if !seqs.iter().any(|q| rem[i..].starts_with(q)) {
                    return Err("backslash that does not start an escape sequence: data written without the configured escape function".into());
                }
            }
            '/' | '"' | '\'' | '\n' => return Err(format!("`{c}` written without the configured escape function")),
            _ => {}
        }
    }
    Ok(())
}

const KNOWN_OPS: [&str; 56] = [
    "LoadConst", "LoadName", "LoadAttr", "LoadAttrOpt", "BinarySubscript", "BinarySubscriptOpt", "Slice", "SliceOpt",
    "WriteText", "WriteTop", "Set", "SetGlobal", "Include", "BuildMap", "BuildList", "BuildMapWithSpreads",
    "BuildListWithSpreads", "CallFunction", "RenderInlineComponent", "RenderBodyComponent", "ApplyFilter", "RunTest",
    "RenderBlock", "Jump", "PopJumpIfFalse", "JumpIfFalseOrPop", "JumpIfTrueOrPop", "Capture", "EndCapture",
    "StartIterate", "StartIterateComprehension", "Iterate", "StoreLocal", "StoreDidNotIterate", "Break", "PopLoop",
    "AppendToList", "Mul", "Div", "FloorDiv", "Mod", "Plus", "Minus", "Power", "LessThan", "GreaterThan",
    "LessThanOrEqual", "GreaterThanOrEqual", "Equal", "NotEqual", "StrConcat", "In", "Not", "Negative", "LoadPath", "WritePath",
];

#[derive(Clone, Copy, PartialEq, Debug)]
enum K {
    S,
    A,
    M,
    N,
}

#[derive(Clone)]
struct CompDef {
    name: String,
    /// (name, default literal as a string)
    params: Vec<(String, Option<String>)>,
    rest: Option<String>,
    body: String,
    /// kind of the value the generator passes for `a`; whether the body uses `body`
    a_kind: K,
    uses_body: bool,
}

const COMP_PRELUDE: &str = "{% set t = true %}{% set e = \"\" %}{% set p = \"k\" %}";

impl CompDef {
    fn source(&self) -> String {
        let mut ps: Vec<String> = self
            .params
            .iter()
            .map(|(n, d)| match d {
                Some(d) => format!("{n}=\"{d}\""),
                None => n.clone(),
            })
            .collect();
        if let Some(r) = &self.rest {
            ps.push(format!("...{r}"));
        }
        format!("{{% component {}({}) %}}{}{{% endcomponent {} %}}", self.name, ps.join(", "), self.body, self.name)
    }
    fn gal(&self) -> String {
        // BTreeMap order (sorted by name) — irrelevant for the resulting context, kept for fidelity
        let mut ps = self.params.clone();
        ps.sort_by(|a, b| a.0.cmp(&b.0));
        let items: Vec<String> = ps
            .iter()
            .map(|(n, d)| {
                format!(
                    "({}, None, {})",
                    gal_str(n),
                    match d {
                        Some(d) => format!("(Some (VStr {} false))", gal_str(d)),
                        None => "None".to_string(),
                    }
                )
            })
            .collect();
        format!(
            "{{| cd_params := [{}]; cd_rest := {} |}}",
            items.join("; "),
            match &self.rest {
                Some(r) => format!("(Some {})", gal_str(r)),
                None => "None".to_string(),
            }
        )
    }
}

struct Gen<'a> {
    rng: &'a mut Rng,
    lit_special: bool,
    allow_safe: bool,
    allow_cuts: bool,
    /// also use built-ins outside Model/WorldC01.v (such programs are checked by the oracle only)
    wide: bool,
    ext: &'static str,
    incs: Vec<(String, String)>,
    comps: Vec<CompDef>,
    n: usize,
    uses_safe: bool,
    cuts: bool,
    budget: i32,
    tags: std::collections::BTreeSet<&'static str>,
}

impl<'a> Gen<'a> {
    fn fresh(&mut self) -> usize {
        self.n += 1;
        self.n
    }
    fn lit(&mut self) -> String {
        let n = self.fresh();
        if self.lit_special { format!("<L{n} \"'>") } else { format!("[L{n}]") }
    }
    fn tag(&mut self, t: &'static str) {
        self.tags.insert(t);
    }

    /// An expression over `var` that evaluates to something printable.
    fn expr(&mut self, var: &str, k: K) -> String {
        match k {
            K::S => {
                let c = self.rng.below(if self.allow_safe { 17 } else { 16 });
                match c {
                    0 | 1 => var.to_string(),
                    2 => { self.tag("concat"); format!("{var} ~ \"\"") }
                    3 => format!("({var})"),
                    4 => { self.tag("ternary"); format!("{var} if t else e") }
                    5 => { self.tag("or"); format!("u or {var}") }
                    6 => { self.tag("and"); format!("t and {var}") }
                    7 => { self.tag("default"); format!("u | default(value={var})") }
                    8 => { self.tag("array-index"); format!("[{var}, 1][0]") }
                    9 => { self.tag("upper"); format!("{var} | upper") }
                    10 => { self.tag("escape_html"); format!("{var} | escape_html") }
                    11 => { self.tag("slice"); format!("{var}[0:]") }
                    12 => { self.tag("slice"); format!("{var}[1:4]") }
                    13 => { self.tag("index"); format!("{var}[0]") }
                    14 => { self.tag("concat"); format!("{var} ~ {var}") }
                    15 => { self.tag("default"); format!("{var} | default(value=\"d\")") }
                    _ => { self.uses_safe = true; self.tag("safe"); format!("{var} | safe") }
                }
            }
            K::A => match self.rng.below(5) {
                0 => format!("{var}[0]"),
                1 => format!("{var}[-1]"),
                2 => { self.tag("array-whole"); var.to_string() }
                3 => { self.tag("slice"); format!("{var}[1:]") }
                _ => format!("{var}[0] ~ {var}[1]"),
            },
            K::M => match self.rng.below(4) {
                0 => format!("{var}.k"),
                1 => format!("{var}[\"k\"]"),
                2 => { self.tag("map-whole"); var.to_string() }
                _ => format!("{var}[p]"),
            },
            K::N => match self.rng.below(5) {
                0 => { self.tag("attr-path"); format!("{var}.a.b") }
                1 => { self.tag("attr-path"); format!("{var}.a.c[0]") }
                2 => { self.tag("attr-path"); format!("{var}?.a?.b") }
                3 => { self.tag("map-whole"); format!("{var}.a") }
                _ => format!("{var}[\"a\"][\"b\"]"),
            },
        }
    }

    /// Ways to use a captured (safe) string variable.
    fn use_capt(&mut self, v: &str) -> String {
        if self.wide && self.rng.chance(1, 2) {
            self.tag("wide-filters");
            let e = match self.rng.below(14) {
                0 => format!("{v} | replace(from=\"L\", to=p)"),
                1 => format!("{v} | reverse"),
                2 => format!("{v} | trim"),
                3 => format!("[{v}, p] | join(sep=p)"),
                4 => format!("{v} | split(pat=\"L\") | join(sep=p)"),
                5 => format!("{v} | truncate(length=3, end=p)"),
                6 => format!("{v} | title"),
                7 => format!("{v} | capitalize"),
                8 => format!("{v} | lower"),
                9 => format!("[{v}, p] | first ~ p"),
                10 => format!("[p, {v}] | last ~ p"),
                11 => format!("({v} ~ p) | trim_start(pat=\"[\")"),
                12 => format!("{v} | str ~ p"),
                _ => format!("[[{v}, p], [p]] | sort | first | join(sep=\"\")"),
            };
            return format!("{{{{ {e} }}}}");
        }
        if self.rng.chance(1, 8) {
            self.tag("concat-captured");
            return if self.rng.chance(1, 2) { format!("{{{{ {v} ~ p }}}}") } else { format!("{{{{ p ~ {v} }}}}") };
        }
        let c = self.rng.below(if self.allow_cuts { 15 } else { 11 });
        match c {
            0 | 1 => format!("{{{{ {v} }}}}"),
            2 => format!("{{{{ {v} | upper }}}}"),
            3 => { self.tag("loop-chars"); format!("{{% for ch in {v} %}}{{{{ ch }}}}{{% endfor %}}") }
            4 => format!("{{{{ {v} ~ \"\" }}}}"),
            5 => format!("{{{{ [{v}] }}}}"),
            6 => format!("{{{{ {v} | default(value=\"\") }}}}"),
            7 => format!("{{{{ {v} if t else \"\" }}}}"),
            8 => format!("{{{{ u or {v} }}}}"),
            9 => { let w = format!("w{}", self.fresh()); format!("{{% set {w} = {v} %}}{{{{ {w} }}}}") }
            10 => {
                let name = self.new_comp(vec![("a".into(), None)], None, "{{ a }}|{{ a ~ \"\" }}".into(), K::S, false);
                format!("{{{{<{name} a={{{v}}} />}}}}")
            }
            11 => { self.cuts = true; self.tag("cut-captured"); format!("{{{{ {v}[1:] }}}}") }
            12 => { self.cuts = true; self.tag("cut-captured"); format!("{{{{ {v}[0] }}}}") }
            13 => { self.cuts = true; self.tag("cut-captured"); format!("{{{{ {v}[::-1] }}}}") }
            _ => { self.cuts = true; self.tag("cut-captured"); format!("{{% set w = {v}[2:] %}}{{{{ w }}}}{{{{ w[0:1] }}}}") }
        }
    }

    fn new_comp(&mut self, params: Vec<(String, Option<String>)>, rest: Option<String>, body: String, a_kind: K, uses_body: bool) -> String {
        let name = format!("C{}", self.fresh());
        self.comps.push(CompDef { name: name.clone(), params, rest, body: format!("{COMP_PRELUDE}{body}"), a_kind, uses_body });
        name
    }

    fn pick<'s>(&mut self, scope: &'s [(String, K)]) -> &'s (String, K) {
        &scope[self.rng.below(scope.len())]
    }

    fn body(&mut self, depth: u32, scope: &[(String, K)]) -> String {
        let n = 1 + self.rng.below(2);
        (0..n).map(|_| self.frag(depth, scope)).collect()
    }

    fn frag(&mut self, depth: u32, scope: &[(String, K)]) -> String {
        self.budget -= 1;
        let (var, k) = self.pick(scope).clone();
        if depth == 0 || self.budget <= 0 {
            let e = self.expr(&var, k);
            return format!("{}{{{{ {} }}}}", self.lit(), e);
        }
        let d = depth - 1;
        if self.rng.chance(1, 7) {
            // a string literal of the template itself, printed directly and through every branch form
            self.tag("direct-literal");
            let l = self.lit();
            let q = EXPR_LIT_SRC;
            return match self.rng.below(9) {
                0 | 1 | 2 => format!("{l}{{{{ \"{q}\" }}}}"),
                3 => format!("{l}{{{{ \"{q}\" if t else \"{q}\" }}}}{{{{ \"{q}\" if e else \"{q}{q}\" }}}}"),
                4 => format!("{l}{{{{ u or \"{q}\" }}}}{{{{ t and \"{q}\" }}}}"),
                5 => format!("{l}{{{{ \"{q}\" ~ {var} }}}}{{{{ \"{q}\" ~ \"{q}\" }}}}"),
                6 => { let v = format!("v{}", self.fresh()); format!("{l}{{% set {v} = \"{q}\" %}}{{{{ {v} }}}}{{{{ \"{q}\" }}}}") }
                7 => format!("{l}{{{{ \"{q}\" | upper }}}}{{{{ u | default(value=\"{q}\") }}}}"),
                _ => format!("{l}{{% set w %}}{{{{ \"{q}\" }}}}{{% endset %}}{{{{ w }}}}{{{{ [\"{q}\"] }}}}"),
            };
        }
        match self.rng.below(15) {
            0 | 1 => {
                let e = self.expr(&var, k);
                format!("{}{{{{ {} }}}}", self.lit(), e)
            }
            2 => {
                self.tag("set");
                let v = format!("v{}", self.fresh());
                let e = self.expr(&var, k);
                let mut sc = scope.to_vec();
                // the kind of an expression over a non-string is not tracked: treat the result as a string only for K::S
                if k == K::S { sc.push((v.clone(), K::S)); }
                format!("{{% set {v} = {e} %}}{{{{ {v} }}}}{}", self.frag(d, &sc))
            }
            3 => {
                self.tag("set-block");
                let v = format!("v{}", self.fresh());
                let inner = self.body(d, scope);
                let l = self.lit();
                format!("{{% set {v} %}}{l}{inner}{{% endset %}}{}", self.use_capt(&v))
            }
            4 => {
                self.tag("set-block-filter");
                let v = format!("v{}", self.fresh());
                let inner = self.body(d, scope);
                let chain = match self.rng.below(if self.allow_safe { 5 } else { 4 }) {
                    0 => "upper",
                    1 => "escape_html",
                    2 => "upper | escape_html",
                    3 => "default(value=\"x\")",
                    _ => { self.uses_safe = true; "upper | safe" }
                };
                // a filtered capture is a Normal string again (except default / safe)
                format!("{{% set {v} | {chain} %}}{inner}{{% endset %}}{{{{ {v} }}}}")
            }
            5 => {
                self.tag("filter-section");
                let f = if self.rng.chance(1, 2) { "upper" } else { "escape_html" };
                let l = self.lit();
                format!("{{% filter {f} %}}{l}{}{{% endfilter %}}", self.body(d, scope))
            }
            6 => match k {
                K::A => {
                    self.tag("loop-array");
                    let x = format!("x{}", self.fresh());
                    let mut sc = scope.to_vec();
                    sc.push((x.clone(), K::S));
                    format!("{{% for {x} in {var} %}}{}{{{{ loop.index }}}}{{% endfor %}}", self.frag(d, &sc))
                }
                K::S => {
                    self.tag("loop-chars");
                    format!("{{% for ch in {var} %}}{{{{ ch }}}}{{% endfor %}}")
                }
                K::M => {
                    self.tag("loop-map");
                    format!("{{% for k, v in {var} %}}{{{{ k }}}}={{{{ v }}}};{{% endfor %}}")
                }
                K::N => {
                    self.tag("loop-map");
                    format!("{{% for k, v in {var}.a %}}{{{{ k }}}}:{{{{ v }}}};{{% endfor %}}")
                }
            },
            7 => {
                self.tag("if");
                let e = self.expr(&var, k);
                format!("{{% if {e} %}}{}{{% else %}}{}{{% endif %}}", self.frag(d, scope), self.frag(d, scope))
            }
            8 => {
                self.tag("include");
                let name = format!("inc{}{}", self.fresh(), self.ext);
                let b = self.body(d, scope);
                self.incs.push((name.clone(), b));
                format!("{{% include \"{name}\" %}}")
            }
            9 => {
                self.tag("component-arg");
                let sc = vec![("a".to_string(), k), ("b".to_string(), K::S)];
                let b = self.body(d, &sc);
                let rest = if self.rng.chance(1, 4) { Some("rest".to_string()) } else { None };
                let extra = if rest.is_some() { format!(" zz={{{var}}}") } else { String::new() };
                let body = if rest.is_some() { format!("{b}{{{{ rest.zz }}}}") } else { b };
                let name = self.new_comp(vec![("a".into(), None), ("b".into(), Some("dflt".into()))], rest, body, k, false);
                if self.rng.chance(1, 2) && k == K::S {
                    let e = self.expr(&var, k);
                    format!("{{{{<{name} a={{{e}}}{extra} />}}}}")
                } else {
                    format!("{{{{<{name} a={{{var}}}{extra} />}}}}")
                }
            }
            10 | 11 => {
                self.tag("component-body");
                let sc = vec![("a".to_string(), k)];
                let inner_c = self.frag(d, &sc);
                let l = self.lit();
                let use_body = self.use_capt("body");
                let name = self.new_comp(vec![("a".into(), None)], None, format!("{l}{use_body}{inner_c}"), k, true);
                let inner = self.body(d, scope);
                let l2 = self.lit();
                format!("{{% <{name} a={{{var}}}> %}}{l2}{inner}{{% </{name}> %}}")
            }
            12 => {
                self.tag("context-dump");
                "{{ __tera_context }}".to_string()
            }
            13 => {
                self.tag("container-literal");
                if self.rng.chance(1, 2) { format!("{{{{ [{var}, 1] }}}}") } else { format!("{{{{ {{\"k\": {var}}} }}}}") }
            }
            _ => {
                self.tag("set-global");
                let v = format!("g{}", self.fresh());
                let e = self.expr(&var, k);
                format!("{{% set_global {v} = {e} %}}{{{{ {v} }}}}")
            }
        }
    }
}

fn m(entries: Vec<(&str, Value)>) -> Value {
    let mut mm = Map::new();
    for (k, v) in entries {
        mm.insert(k.to_string().into(), v);
    }
    Value::from(mm)
}

fn context_for(poison: &str, user_safe: bool) -> Vec<(String, Value)> {
    let p = Value::from(poison);
    let mut v = vec![
        ("p".to_string(), p.clone()),
        ("ps".to_string(), Value::from(vec![p.clone(), Value::from(POISON3), p.clone()])),
        ("pm".to_string(), m(vec![("k", p.clone()), (poison, Value::from(POISON3))])),
        ("pn".to_string(), m(vec![("a", m(vec![("b", p.clone()), ("c", Value::from(vec![p.clone()]))]))])),
        ("t".to_string(), Value::from(true)),
        ("e".to_string(), Value::from("")),
        ("sf".to_string(), Value::safe_string("SAFE-ok")),
    ];
    if user_safe {
        v.push(("us".to_string(), Value::safe_string(poison)));
    }
    v
}

fn base_scope() -> Vec<(String, K)> {
    vec![
        ("p".to_string(), K::S),
        ("p".to_string(), K::S),
        ("ps".to_string(), K::A),
        ("pm".to_string(), K::M),
        ("pn".to_string(), K::N),
    ]
}

fn to_context(c: &[(String, Value)]) -> Context {
    let mut ctx = Context::new();
    for (k, v) in c {
        ctx.insert_value(k.clone(), v.clone());
    }
    ctx
}

struct Prog {
    label: String,
    templates: Vec<(String, String)>,
    entry: String,
    has_blocks: bool,
    comps: Vec<CompDef>,
    ext: &'static str,
    lit_special: bool,
    uses_safe: bool,
    cuts: bool,
    tags: Vec<&'static str>,
}

fn finish_prog(label: String, g: Gen, entry_body: String, inherit: Option<(String, String)>) -> Prog {
    let ext = g.ext;
    let mut templates: Vec<(String, String)> = g.incs.clone();
    if !g.comps.is_empty() {
        templates.push((format!("comps{ext}"), g.comps.iter().map(|c| c.source()).collect::<Vec<_>>().join("\n")));
    }
    let entry = format!("entry{ext}");
    let has_blocks = inherit.is_some();
    match inherit {
        None => templates.push((entry.clone(), entry_body)),
        Some((base_name, base_src)) => {
            templates.push((base_name, base_src));
            templates.push((entry.clone(), entry_body));
        }
    }
    Prog {
        label,
        templates,
        entry,
        has_blocks,
        comps: g.comps,
        ext,
        lit_special: g.lit_special,
        uses_safe: g.uses_safe,
        cuts: g.cuts,
        tags: g.tags.into_iter().collect(),
    }
}

fn gen_prog(rng: &mut Rng, k: usize, ext: &'static str, allow_safe: bool) -> Prog {
    let lit_special = rng.chance(2, 3);
    let mut g = Gen {
        lit_special,
        allow_safe,
        allow_cuts: !lit_special,
        wide: k % 6 == 5,
        ext,
        incs: vec![],
        comps: vec![],
        n: 0,
        uses_safe: false,
        cuts: false,
        budget: 14,
        tags: Default::default(),
        rng,
    };
    let scope = base_scope();
    let depth = 1 + (k % 3) as u32;
    let tail = |g: &mut Gen| -> String {
        let l = g.lit();
        if g.allow_safe {
            g.uses_safe = true;
            format!("{l}{{{{ p }}}}{l}{{{{ p | safe }}}}")
        } else {
            format!("{l}{{{{ p }}}}")
        }
    };
    if k % 4 == 3 {
        // inheritance: base/child with super()
        g.tag("blocks");
        let b0 = g.body(depth, &scope);
        let c0 = g.frag(depth.saturating_sub(1), &scope);
        let l = g.lit();
        let base_name = format!("base{ext}");
        let base = format!("{l}{{% block b %}}{b0}{{% endblock %}}|{{% block c %}}{c0}{{% endblock %}}{}", tail(&mut g));
        let sup = match g.rng.below(if g.allow_cuts { 5 } else { 3 }) {
            0 => "{{ super() }}".to_string(),
            1 => "{% set s = super() %}{{ s }}{{ s | upper }}".to_string(),
            2 => String::new(),
            3 => { g.cuts = true; g.tag("cut-captured"); "{% set s = super() %}{{ s[1:] }}".to_string() }
            _ => { g.cuts = true; g.tag("cut-captured"); "{{ super()[::-1] }}".to_string() }
        };
        g.tag("super");
        let b1 = g.frag(depth.saturating_sub(1), &scope);
        let child = format!("{{% extends \"{base_name}\" %}}{{% block b %}}{sup}{b1}{{% endblock %}}");
        finish_prog(format!("gen#{k}"), g, child, Some((base_name, base)))
    } else {
        let b = g.body(depth, &scope);
        let t = tail(&mut g);
        finish_prog(format!("gen#{k}"), g, format!("{b}{t}"), None)
    }
}

/// The exhaustive sweep: every sink x every mint point x every flag-preserving operation x routing.
fn sweep_progs(ext: &'static str) -> Vec<Prog> {
    let mut out = Vec::new();
    // mint: how a safe string named `s` comes to exist, given inner data text `D` (a fragment printing p)
    let data = "[L1]{{ p }}{{ pn.a.b }}";
    let ops: [(&str, &str, bool); 6] = [
        ("none", "s", false),
        ("index", "s[0]", true),
        ("slice", "s[1:]", true),
        ("slice-rev", "s[::-1]", true),
        ("slice-step", "s[::2]", true),
        ("index-neg", "s[-1]", true),
    ];
    // sink: WritePath (fused `{{ name }}`) or WriteTop (any non-path expression)
    let sinks: [(&str, bool); 2] = [("path", true), ("top", false)];
    let routes = ["direct", "via-set", "in-loop", "in-capture", "via-component-arg", "via-include", "via-ternary"];
    let mints = ["set-block", "component-result", "component-body", "super", "set-block-default-filter"];
    for mint in mints {
        for (opname, opexpr, cut) in ops {
            for (sinkname, is_path) in sinks {
                for route in routes {
                    let mut comps: Vec<CompDef> = vec![];
                    let mut incs: Vec<(String, String)> = vec![];
                    // the sink: print expression E
                    let print = |e: &str| -> String {
                        if is_path {
                            format!("{{% set z = {e} %}}{{{{ z }}}}")
                        } else {
                            format!("{{{{ ({e}) if t else \"\" }}}}")
                        }
                    };
                    let routed = |e: &str, comps: &mut Vec<CompDef>, incs: &mut Vec<(String, String)>| -> String {
                        match route {
                            "direct" => print(e),
                            "via-set" => format!("{{% set y = {e} %}}{}", print("y")),
                            "in-loop" => format!("{{% for i in ps %}}{}{{% endfor %}}", print(e)),
                            "in-capture" => format!("{{% set q %}}{}{{% endset %}}{{{{ q }}}}", print(e)),
                            "via-component-arg" => {
                                comps.push(CompDef { name: "Arg".into(), params: vec![("a".into(), None)], rest: None, body: format!("{{% set t = true %}}{{% set e = \"\" %}}{}", print("a")), a_kind: K::S, uses_body: false });
                                format!("{{{{<Arg a={{{e}}} />}}}}")
                            }
                            "via-include" => {
                                incs.push((format!("sinc{ext}"), print("y")));
                                format!("{{% set y = {e} %}}{{% include \"sinc{ext}\" %}}")
                            }
                            _ => print(&format!("{e} if t else e")),
                        }
                    };
                    let (entry_body, inherit): (String, Option<(String, String)>) = match mint {
                        "set-block" => {
                            let r = routed(opexpr, &mut comps, &mut incs);
                            (format!("{{% set s %}}{data}{{% endset %}}{r}[L2]{{{{ p }}}}"), None)
                        }
                        "set-block-default-filter" => {
                            let r = routed(opexpr, &mut comps, &mut incs);
                            (format!("{{% set s | default(value=1) %}}{data}{{% endset %}}{r}[L2]{{{{ p }}}}"), None)
                        }
                        "component-result" => {
                            comps.push(CompDef { name: "Mk".into(), params: vec![("a".into(), None)], rest: None, body: "[L1]{{ a }}{{ a ~ \"\" }}".into(), a_kind: K::S, uses_body: false });
                            let r = routed(opexpr, &mut comps, &mut incs);
                            (format!("{{% set s = <Mk a={{p}} /> %}}{r}[L2]{{{{ p }}}}"), None)
                        }
                        "component-body" => {
                            // inside the component, `body` is the minted string
                            let r = routed(&opexpr.replace('s', "body"), &mut comps, &mut incs).replace(" y ", " y ");
                            comps.push(CompDef { name: "Bd".into(), params: vec![], rest: None, body: format!("{{% set ps = [1] %}}{{% set t = true %}}{{% set e = \"\" %}}{r}"), a_kind: K::S, uses_body: true });
                            (format!("{{% <Bd> %}}{data}{{% </Bd> %}}[L2]{{{{ p }}}}"), None)
                        }
                        _ => {
                            let r = routed(opexpr, &mut comps, &mut incs);
                            let base = format!("{{% block b %}}{data}{{% endblock %}}[L2]{{{{ p }}}}");
                            (
                                format!("{{% extends \"sbase{ext}\" %}}{{% block b %}}{{% set s = super() %}}{r}{{% endblock %}}"),
                                Some((format!("sbase{ext}"), base)),
                            )
                        }
                    };
                    // `{% set s = <Mk ... /> %}` may not parse in every position: such programs are skipped at registration
                    let g_tags: Vec<&'static str> = vec![];
                    let mut templates = incs.clone();
                    if !comps.is_empty() {
                        templates.push((format!("comps{ext}"), comps.iter().map(|c| c.source()).collect::<Vec<_>>().join("\n")));
                    }
                    let entry = format!("entry{ext}");
                    let has_blocks = inherit.is_some();
                    if let Some((bn, bs)) = inherit {
                        templates.push((bn, bs));
                    }
                    templates.push((entry.clone(), entry_body));
                    out.push(Prog {
                        label: format!("sweep:{mint}/{opname}/{sinkname}/{route}"),
                        templates,
                        entry,
                        has_blocks,
                        comps,
                        ext,
                        lit_special: false,
                        uses_safe: false,
                        cuts: cut,
                        tags: g_tags,
                    });
                }
            }
        }
    }
    out
}

/// Short safe strings concatenated with short unsafe ones, every length around the inline-string
/// boundaries of the value representation, every mint point, both operand orders.
fn concat_progs(ext: &'static str) -> Vec<Prog> {
    let mut out = Vec::new();
    let mk = CompDef { name: "Mk".into(), params: vec![("n".into(), None)], rest: None, body: "{{ n }}".into(), a_kind: K::S, uses_body: false };
    for len in [0usize, 1, 2, 5, 10, 14, 15, 16, 17, 20, 21, 22, 23, 24, 30, 40] {
        let lit: String = "abcdefghij".chars().cycle().take(len).collect();
        for mint in ["set-block", "component-result", "super", "slice-of-capture"] {
            for order in ["s ~ q", "q ~ s", "s ~ q ~ s", "s ~ \"\" ~ q"] {
                for q in ["p", "ps[1]", "pn.a.b"] {
                    let e = order.replace('q', q);
                    let tail = format!("[L2]{{{{ {e} }}}}{{% set z = {e} %}}{{{{ z }}}}[L3]{{{{ p }}}}");
                    let (templates, comps, has_blocks): (Vec<(String, String)>, Vec<CompDef>, bool) = match mint {
                        "set-block" => (vec![(format!("entry{ext}"), format!("{{% set s %}}{lit}{{% endset %}}{tail}"))], vec![], false),
                        "slice-of-capture" => (vec![(format!("entry{ext}"), format!("{{% set s0 %}}xy{lit}{{% endset %}}{{% set s = s0[2:] %}}{tail}"))], vec![], false),
                        "component-result" => (
                            vec![(format!("comps{ext}"), mk.source()), (format!("entry{ext}"), format!("{{% set s = <Mk n=\"{lit}\" /> %}}{tail}"))],
                            vec![mk.clone()],
                            false,
                        ),
                        _ => (
                            vec![
                                (format!("cbase{ext}"), format!("{{% block b %}}{lit}{{% endblock %}}")),
                                (format!("entry{ext}"), format!("{{% extends \"cbase{ext}\" %}}{{% block b %}}{{% set s = super() %}}{tail}{{% endblock %}}")),
                            ],
                            vec![],
                            true,
                        ),
                    };
                    out.push(Prog {
                        label: format!("concat:{mint}/{len}/{order}/{q}"),
                        templates,
                        entry: format!("entry{ext}"),
                        has_blocks,
                        comps,
                        ext,
                        lit_special: false,
                        uses_safe: false,
                        cuts: mint == "slice-of-capture",
                        tags: vec![],
                    });
                }
            }
        }
    }
    out
}

fn hand_progs(ext: &'static str) -> Vec<Prog> {
    let rec = CompDef {
        name: "Rec".into(),
        params: vec![("xs".into(), None)],
        rest: None,
        body: "[L1]{{ xs[0] }}{% if xs[1:] %}{{<Rec xs={xs[1:]} />}}{% endif %}".into(),
        a_kind: K::A,
        uses_body: false,
    };
    let wrap = CompDef { name: "Wrap".into(), params: vec![("a".into(), Some("dflt".into()))], rest: None, body: "<L2 \"'>{{ body }}{{ a }}".into(), a_kind: K::S, uses_body: true };
    let srcs: Vec<(&str, String, Vec<CompDef>)> = vec![
        ("rec3", "{{<Rec xs={ps} />}}<L9 \"'>{{ p }}".into(), vec![rec.clone()]),
        ("rec19", "{% set l = [p,p,p,p,p,p,p,p,p,p,p,p,p,p,p,p,p,p,p] %}{{<Rec xs={l} />}}<L9 \"'>{{ p }}".into(), vec![rec.clone()]),
        ("rec25", "{% set l = [p,p,p,p,p,p,p,p,p,p,p,p,p,p,p,p,p,p,p,p,p,p,p,p,p] %}{{<Rec xs={l} />}}<L9 \"'>{{ p }}".into(), vec![rec.clone()]),
        ("nested-body", "{% <Wrap a={p}> %}<L3 \"'>{{ p }}{% <Wrap> %}{{ pn.a.b }}{% </Wrap> %}{% </Wrap> %}<L9 \"'>{{ p }}".into(), vec![wrap.clone()]),
        ("single-expr-body", "{% <Wrap> %}{{ p }}{% </Wrap> %}|{% <Wrap a={p}> %}{{ pn.a.b }}{% </Wrap> %}<L9 \"'>{{ p }}".into(), vec![wrap.clone()]),
        ("forward-body", "{% <Fwd> %}{{ p }}x{% </Fwd> %}<L9 \"'>{{ p }}".into(), vec![wrap.clone(), CompDef { name: "Fwd".into(), params: vec![], rest: None, body: "{% <Wrap> %}{{ body }}{% </Wrap> %}".into(), a_kind: K::S, uses_body: true }]),
        ("direct-literal", format!("{{{{ \"{q}\" }}}}|{{{{ \"{q}\" if t else \"x\" }}}}|{{{{ u or \"{q}\" }}}}|{{% set l = \"{q}\" %}}{{{{ l }}}}|{{{{ \"{q}\" ~ \"\" }}}}|{{% for i in ps %}}{{{{ \"{q}\" }}}}{{% endfor %}}<L9 \"'>{{{{ p }}}}", q = EXPR_LIT_SRC), vec![]),
        ("direct-literal-in-capture", format!("{{% set c %}}{{{{ \"{q}\" }}}}{{% endset %}}{{{{ c }}}}|{{% <Wrap a={{\"{q}\"}}> %}}x{{{{ \"{q}\" }}}}{{% </Wrap> %}}{{% filter upper %}}{{{{ \"{q}\" }}}}{{% endfilter %}}<L9 \"'>{{{{ p }}}}", q = EXPR_LIT_SRC), vec![wrap.clone()]),
        ("filter-double", "{% filter escape_html %}{{ p }}{% endfilter %}<L9 \"'>{{ p }}".into(), vec![]),
        ("map-keys", "{% for k, v in pm %}{{ k }}{{ v }}{% endfor %}{{ pm }}<L9 \"'>{{ p }}".into(), vec![]),
        ("dump", "{% set q = p %}{% for i in ps %}{{ __tera_context }}{% endfor %}<L9 \"'>{{ p }}".into(), vec![]),
        ("chars", "{% for ch in p %}{{ ch }}{{ ch ~ ch }}{% endfor %}<L9 \"'>{{ p }}".into(), vec![]),
        ("safe-ctx", "{{ sf }}{{ sf[1:] }}<L9 \"'>{{ p }}".into(), vec![]),
        ("capt-in-capt", "{% set a %}{% set b %}{{ p }}{% endset %}{{ b }}{{ b | upper }}{% endset %}{{ a }}<L9 \"'>{{ p }}".into(), vec![]),
    ];
    srcs.into_iter()
        .map(|(label, src, comps)| {
            let mut templates = vec![];
            if !comps.is_empty() {
                templates.push((format!("comps{ext}"), comps.iter().map(|c| c.source()).collect::<Vec<_>>().join("\n")));
            }
            templates.push((format!("entry{ext}"), src));
            Prog {
                label: format!("hand:{label}"),
                templates,
                entry: format!("entry{ext}"),
                has_blocks: false,
                comps,
                ext,
                lit_special: true,
                uses_safe: false,
                cuts: label == "safe-ctx",
                tags: vec![],
            }
        })
        .collect()
}

/// remove the literal tokens `<L123 "'>` from the output
fn erase_literals(out: &str) -> String {
    let b: Vec<char> = out.chars().collect();
    let mut res = String::new();
    let mut i = 0;
    while i < b.len() {
        if b[i] == '<' && i + 1 < b.len() && b[i + 1] == 'L' {
            let mut j = i + 2;
            while j < b.len() && b[j].is_ascii_digit() {
                j += 1;
            }
            if j > i + 2 && j + 3 < b.len() + 0 && b[j] == ' ' && b[j + 1] == '"' && b[j + 2] == '\'' && b[j + 3] == '>' {
                i = j + 4;
                continue;
            }
        }
        res.push(b[i]);
        i += 1;
    }
    res
}

fn oracle_escaped(out: &str, cuts: bool) -> Result<(), String> {
    let rem = erase_literals(out);
    if let Some(c) = rem.chars().find(|c| matches!(c, '<' | '>' | '"' | '\'')) {
        return Err(format!("unescaped `{c}` outside literal text"));
    }
    if !cuts {
        let ents = ["&amp;", "&lt;", "&gt;", "&quot;", "&#39;"];
        for (i, _) in rem.match_indices('&') {
            if !ents.iter().any(|e| rem[i..].starts_with(e)) {
                return Err("`&` that does not start one of the five entities".into());
            }
        }
    }
    Ok(())
}

fn subset_ok(l: &Listing) -> bool {
    l.iter().all(|(i, _)| match i.op {
        "Mul" | "Div" | "FloorDiv" | "Mod" | "Plus" | "Minus" | "Power" | "Negative" => false,
        "ApplyFilter" => ["default", "upper", "safe", "length", "escape_html"].contains(&i.strs[0].as_str()),
        "RunTest" => W0_TESTS.contains(&i.strs[0].as_str()),
        "CallFunction" => i.strs[0] == "super",
        _ => true,
    })
}

struct Setup {
    tera: Tera,
    /// Gallina definitions shared by the cases of this program
    defs: Vec<(String, String)>,
    tpls_name: String,
    comps_name: String,
    in_subset: bool,
    comp_src_tpl: Vec<(String, String)>,
    /// the same templates compiled with Chunk::optimize switched off (hook H2)
    tera_noopt: Option<Tera>,
    /// opcode names the model VM does not know, found in the chunks the engine will run
    unknown_ops: Vec<String>,
    /// Gallina `option (templates * components)` of the unoptimised twin
    noopt_term: String,
}

fn setup(p: &Prog, suffix_mode: u8) -> Option<Setup> {
    let mut tera = Tera::default();
    match suffix_mode {
        // 0: defaults (.html .htm .xml); 1: custom suffix given BEFORE the templates; 2: AFTER (recomputed by autoescape_on)
        1 => tera.autoescape_on(vec![".txt"]),
        _ => {}
    }
    if tera.add_raw_templates(p.templates.clone()).is_err() {
        return None;
    }
    if suffix_mode == 2 {
        tera.autoescape_on(vec![".txt"]);
    }
    let tera_noopt = {
        tera::verif::set_optimize(false);
        let mut t2 = Tera::default();
        if suffix_mode == 1 {
            t2.autoescape_on(vec![".txt"]);
        }
        let ok = t2.add_raw_templates(p.templates.clone()).is_ok();
        if suffix_mode == 2 {
            t2.autoescape_on(vec![".txt"]);
        }
        tera::verif::set_optimize(true);
        if ok { Some(t2) } else { None }
    };
    let mut unknown_ops: Vec<String> = Vec::new();
    let mut note_ops = |l: &Listing| {
        for (i, _) in l.iter() {
            if !KNOWN_OPS.contains(&i.op) && !unknown_ops.iter().any(|x| x == i.op) {
                unknown_ops.push(i.op.to_string());
            }
        }
    };
    let mut listings = Vec::new();
    let mut in_subset = true;
    for (n, _) in &p.templates {
        let tl = template_listing(&tera, n)?;
        note_ops(&tl.chunk);
        for (_, cs) in &tl.lineage {
            for c in cs {
                note_ops(c);
            }
        }
        if !subset_ok(&tl.chunk) || tl.lineage.iter().any(|(_, cs)| cs.iter().any(|c| !subset_ok(c))) {
            in_subset = false;
        }
        listings.push(tl);
    }
    let gtpls: Vec<String> = listings
        .iter()
        .map(|tl| {
            let root = listings.iter().find(|x| x.name == tl.root).map(|x| x.chunk.clone()).unwrap_or_else(|| tl.chunk.clone());
            format!("({}, {})", gal_str(&tl.name), gal_template(tl, &root))
        })
        .collect();
    let tpls_term = format!("[{}]", gtpls.join("; "));
    let mut comp_src_tpl = vec![];
    let mut gcomps = vec![];
    for (name, tplname, listing) in component_listings(&tera) {
        note_ops(&listing);
        if !subset_ok(&listing) {
            in_subset = false;
        }
        let Some(def) = p.comps.iter().find(|c| c.name == name) else { return None };
        gcomps.push(format!("({}, ({}, {}))", gal_str(&name), def.gal(), gal_code(&listing)));
        comp_src_tpl.push((name, tplname));
    }
    let comps_term = if gcomps.is_empty() {
        "(@nil (str * (comp_def * list instr)))".to_string()
    } else {
        format!("[{}]", gcomps.join("; "))
    };
    let tpls_name = format!("tp_{:x}", fnv_pub(&tpls_term));
    let comps_name = format!("cp_{:x}", fnv_pub(&comps_term));
    // the unoptimised twin as Gallina terms
    let mut extra_defs: Vec<(String, String)> = vec![];
    let mut noopt_term = "None".to_string();
    if let Some(t2) = &tera_noopt {
        let mut l2 = Vec::new();
        let mut okk = true;
        for (n, _) in &p.templates {
            match template_listing(t2, n) {
                Some(tl) => l2.push(tl),
                None => okk = false,
            }
        }
        if okk {
            let g2: Vec<String> = l2
                .iter()
                .map(|tl| {
                    let root = l2.iter().find(|x| x.name == tl.root).map(|x| x.chunk.clone()).unwrap_or_else(|| tl.chunk.clone());
                    format!("({}, {})", gal_str(&tl.name), gal_template(tl, &root))
                })
                .collect();
            let t2_term = format!("[{}]", g2.join("; "));
            let mut gc2 = vec![];
            for (name, _, listing) in component_listings(t2) {
                if let Some(def) = p.comps.iter().find(|c| c.name == name) {
                    gc2.push(format!("({}, ({}, {}))", gal_str(&name), def.gal(), gal_code(&listing)));
                }
            }
            let c2_term = if gc2.is_empty() { "(@nil (str * (comp_def * list instr)))".to_string() } else { format!("[{}]", gc2.join("; ")) };
            let n1 = format!("tn_{:x}", fnv_pub(&t2_term));
            let n2 = format!("cn_{:x}", fnv_pub(&c2_term));
            noopt_term = format!("(Some ({n1}, {n2}))");
            extra_defs.push((n1, t2_term));
            extra_defs.push((n2, c2_term));
        }
    }
    Some(Setup {
        tera,
        defs: {
            let mut d = vec![(tpls_name.clone(), tpls_term), (comps_name.clone(), comps_term)];
            d.extend(extra_defs);
            d
        },
        tpls_name,
        comps_name,
        in_subset: in_subset && unknown_ops.is_empty(),
        comp_src_tpl,
        tera_noopt,
        unknown_ops,
        noopt_term,
    })
}

/// Suffix rule (tera.rs set_templates_auto_escape / autoescape_on): a template is autoescaped iff its
/// name ends with one of the configured suffixes, compared as given (case-sensitive, byte-wise),
/// whether the suffixes were configured before or after the template was added, and again after a
/// later unrelated add. Implementation-side oracle over names x suffix lists; also the override of
/// the built-in `safe` filter by a user filter that is NOT registered as safe (the name must not
/// be what decides).
fn suffix_rule_sweep(meta: &mut Meta) {
    const NAMES: &[&str] = &["a.html", "A.HTML", "INDEX.HTM", "index.htm", "x.Html", "mail.Body", "mail.body", "noext", ".html",
        "a.html.bak", "dir/é.htmé", "a.xml", "a.XML", "ROW.TPL", "row.tpl", "x.j2", "aİ.İ", "html", "l"];
    const LISTS: &[Option<&[&str]>] = &[None, Some(&[".html"]), Some(&[".HTM"]), Some(&[".Body"]), Some(&[".TPL", ".HTM"]), Some(&[""]),
        Some(&["html"]), Some(&["l"]), Some(&[".htmé"]), Some(&[]), Some(&["a.html"]), Some(&["xa.html"]), Some(&[".İ"]),
        Some(&[".XML", ".Html"]), Some(&[".j2", ".tpl"])];
    let raw = "<&>'\"";
    let escd = "&lt;&amp;&gt;&#39;&quot;";
    let mut ctx = tera::Context::new();
    ctx.insert("v", raw);
    for name in NAMES {
        for list in LISTS {
            let sufs: Vec<&str> = match list { None => vec![".html", ".htm", ".xml"], Some(l) => l.to_vec() };
            let want_on = sufs.iter().any(|s| name.ends_with(s));
            for order in 0..3u8 {
                // 0: configure, then add; 1: add, then configure; 2: configure, add, then add another template
                let out = guarded(|| {
                    let mut t = Tera::default();
                    if order != 1 { if let Some(l) = list { t.autoescape_on(l.to_vec()); } }
                    t.add_raw_template(name, "{{ v }}|")?;
                    if order == 1 { if let Some(l) = list { t.autoescape_on(l.to_vec()); } }
                    if order == 2 { t.add_raw_template("zz_other.html", "x")?; }
                    t.render(name, &ctx)
                });
                meta.oracle_checks += 1;
                let expect = format!("{}|", if want_on { escd } else { raw });
                let ok = matches!(&out, Outcome::Ok(s) if *s == expect);
                if !ok {
                    meta.oracle_fail("autoescape flag differs from `name ends with a configured suffix (as given)`", None,
                        json!({"template": name, "suffixes": sufs, "configured": (["before add", "after add", "before add, then another add"][order as usize]),
                               "expected": expect, "got": format!("{out:?}")}));
                }
            }
        }
    }
    // a user filter registered under the name of a built-in safe filter is not safe unless it says so
    const BUILTIN_FILTERS: [&str; 36] = [
        "safe", "default", "upper", "lower", "wordcount", "escape_html", "escape_xml", "newlines_to_br", "pluralize",
        "trim", "trim_start", "trim_end", "replace", "capitalize", "title", "truncate", "indent", "str", "int", "float",
        "length", "reverse", "split", "abs", "round", "first", "last", "nth", "join", "sort", "unique", "get", "values",
        "keys", "pairs", "group_by",
    ];
    let mut over: Vec<(&str, String)> = Vec::new();
    for f in BUILTIN_FILTERS {
        over.push((f, format!("{{{{ v | {f} }}}}")));
        over.push((f, format!("{{% set t = v | {f} %}}{{{{ t }}}}")));
        if f != "safe" {
            // the body is captured (already escaped once: here a value marked safe by the built-in), the
            // user filter builds a new, unsafe string from it, which is escaped when the section is written
            over.push((f, format!("{{% filter {f} %}}{{{{ v | safe }}}}{{% endfilter %}}")));
        }
    }
    for (fname, tpl) in over.iter().map(|(a, b)| (*a, b.as_str())) {
        let is_section = tpl.starts_with("{% filter");
        let out = guarded(|| {
            let mut t = Tera::default();
            t.register_filter(fname, |v: &str, _: tera::Kwargs, _: &tera::State| format!("[{v}]"));
            t.add_raw_template("p.html", tpl)?;
            t.render("p.html", &ctx)
        });
        meta.oracle_checks += 1;
        let _ = is_section;
        let expect = format!("[{escd}]");
        if !matches!(&out, Outcome::Ok(s) if *s == expect) {
            meta.oracle_fail("a user filter that is not registered as safe, registered under the name of a built-in safe filter, must have its result escaped", None,
                json!({"filter": fname, "template": tpl, "expected": expect, "got": format!("{out:?}")}));
        }
    }
}

fn main() {
    let args = parse_args();
    silence_panics();
    if let Some(rp) = &args.replay {
        replay(rp);
        return;
    }
    let thorough = args.tier == "thorough";
    // self-test of the oracle: it must reject the raw poison and a lone ampersand, accept the escaped poison and literal tokens
    assert!(oracle_escaped(POISON, false).is_err() && oracle_escaped("a&b", false).is_err() && oracle_escaped("a&b", true).is_ok());
    assert!(oracle_escaped(&format!("<L12 \"'>{}<L3 \"'>", esc(POISON)), false).is_ok());
    assert!(oracle_escaped("<L12 \"'> <M1 \"'>", false).is_err());
    assert!(oracle_marker(&format!("<L1 \"'>{MK_OPEN}{POISON}{MK_CLOSE}12true")).is_ok() && oracle_marker(EXPR_LIT_VAL).is_err() && oracle_marker(POISON3).is_err());
    assert!(oracle_js(&esc_js(POISON)).is_ok() && oracle_js(&esc_js(EXPR_LIT_VAL)).is_ok() && oracle_js(EXPR_LIT_VAL).is_err() && oracle_js(&esc_js(&esc_js(POISON))).is_ok());
    let mut rng = Rng::new(args.seed);
    let mut meta = Meta::default();
    let hdr = "From TeraV Require Import Model.Value Model.Instr Model.VM Model.Taint Model.WorldC01 Corr.CorrC01.";
    let mut sink = Sink::new(&args.out, "c01vm", hdr, "check_c01");
    sink.shard_cap_set(if thorough { 40 } else { 20 });

    // ---- programs
    let n_gen = if thorough { 9000 } else { 460 };
    let mut progs: Vec<(Prog, u8)> = Vec::new(); // (program, suffix mode)
    // hand-written programs first: they are always run on the model as well
    for ext in [".html", ".txt"] {
        for p in hand_progs(ext) {
            progs.push((p, 0));
        }
    }
    for k in 0..n_gen {
        let (ext, mode): (&'static str, u8) = match k % 5 {
            0 | 1 => (".html", 0),
            2 => (".txt", 0),
            3 => (".txt", 1),
            _ => (".txt", 2),
        };
        // `safe` only in a separate stream (the oracle changes)
        let allow_safe = k % 7 == 6;
        progs.push((gen_prog(&mut rng, k, ext, allow_safe), mode));
    }
    // concatenation of short safe and unsafe strings: all of it in the thorough tier, a seeded third in the quick tier
    let mut concat_total = 0usize;
    for (i, p) in concat_progs(".html").into_iter().enumerate() {
        concat_total += 1;
        if thorough || i % 3 == (args.seed as usize % 3) {
            progs.push((p, 0));
        }
    }
    let mut sweep_total = 0usize;
    let mut sweep_ok = 0usize;
    {
        let sw_html = sweep_progs(".html");
        sweep_total += sw_html.len();
        let take_every = if thorough { 1 } else { 7 };
        for (i, p) in sw_html.into_iter().enumerate() {
            if i % take_every == (args.seed as usize % take_every) {
                progs.push((p, 0));
            }
        }
        if thorough {
            for p in sweep_progs(".txt") {
                progs.push((p, 0));
            }
        }
    }

    let ctx_variants: Vec<(&str, Vec<(String, Value)>)> = vec![
        ("poison", context_for(POISON, false)),
        ("specials-only", context_for(POISON2, false)),
        ("short", context_for(POISON3, false)),
    ];
    let ctx_user_safe = ("poison+usersafe", context_for(POISON, true));

    let mut renders = 0usize;
    let mut oracle_only = 0usize;
    let mut oracle_only_nontrivial = 0usize;
    let mut skipped_register = 0usize;
    let mut model_budget: usize = if thorough { 3600 } else { 420 };
    let mut distribution: std::collections::BTreeMap<String, usize> = Default::default();

    for (pi, (p, smode)) in progs.iter().enumerate() {
        let Some(mut su) = setup(p, *smode) else {
            skipped_register += 1;
            continue;
        };
        meta.oracle_checks += 1;
        if !su.unknown_ops.is_empty() {
            meta.oracle_fail(&format!("the engine runs an instruction the model VM cannot account for: {:?}", su.unknown_ops), None,
                json!({"label": p.label, "templates": p.templates, "entry": p.entry, "mode": "render", "suffix_mode": smode, "context": "poison"}));
        }
        if p.label.starts_with("sweep:") {
            sweep_ok += 1;
        }
        for t in &p.tags {
            *distribution.entry(t.to_string()).or_default() += 1;
        }
        let ae_on = match (p.ext, smode) {
            (".html", 0) => true,
            (".txt", 1) | (".txt", 2) => true,
            _ => false,
        };
        // check the flag the engine computed against the configuration (autoescape_flag_by_suffix)
        for (n, _) in &p.templates {
            let tl = template_listing(&su.tera, n).unwrap();
            meta.oracle_checks += 1;
            if tl.autoescape != ae_on {
                meta.oracle_fail("autoescape flag differs from `name ends with a configured suffix`", None,
                    json!({"template": n, "suffix_mode": smode, "flag": tl.autoescape}));
            }
        }
        let nctx = if p.label.starts_with("gen#") && !thorough { 2 } else { ctx_variants.len() };
        let start = rng.below(ctx_variants.len());
        let mut ctxs: Vec<&(&str, Vec<(String, Value)>)> = ctx_variants.iter().cycle().skip(start).take(nctx).collect();
        if pi % 9 == 0 {
            ctxs.push(&ctx_user_safe);
        }
        for (cname, c) in ctxs {
            let ctx = to_context(c);
            let poison = c[0].1.as_str().unwrap().to_string();
            let user_safe = *cname == "poison+usersafe";
            // ---- mode: render (and render_block b for inheritance programs, render_str for the others)
            let mut modes: Vec<(&str, Option<String>)> = vec![("render", None)];
            if p.has_blocks {
                modes.push(("render_block", Some("b".to_string())));
            } else if pi % 3 == 0 {
                modes.push(("render_str", None));
            }
            for (mode, blk) in modes {
                let entry_src = &p.templates.iter().find(|(n, _)| n == &p.entry).unwrap().1;
                let r = match mode {
                    "render" => guarded(|| su.tera.render(&p.entry, &ctx)),
                    "render_block" => guarded(|| su.tera.render_block(&p.entry, blk.as_ref().unwrap(), &ctx)),
                    _ => guarded(|| su.tera.render_str(entry_src, &ctx, ae_on)),
                };
                renders += 1;
                meta.oracle_checks += 1;
                let input = json!({"label": p.label, "templates": p.templates, "entry": p.entry, "mode": mode, "block": blk,
                    "suffix_mode": smode, "context": cname, "autoescape": ae_on});
                if let Outcome::Panic(msg) = &r {
                    meta.oracle_fail(&format!("panic: {msg}"), None, input.clone());
                }
                let mut nontrivial = false;
                if let Outcome::Ok(out) = &r {
                    nontrivial = out.chars().count() > 20 && !p.tags.is_empty() || p.label.starts_with("sweep") || p.label.starts_with("hand") || p.label.starts_with("concat");
                    if ae_on && !p.uses_safe && !user_safe {
                        if let Err(what) = oracle_escaped(out, p.cuts) {
                            meta.oracle_fail(&format!("autoescape on, no safe: {what}"), None,
                                json!({"input": input, "output": out}));
                        }
                        // the trailing `{{ p }}` of the entry (or of the base template) must be there, escaped
                        if mode != "render_block" && !out.contains(&esc(&poison)) {
                            meta.oracle_fail("autoescape on: the escaped poison is missing from the output", None,
                                json!({"input": input, "output": out}));
                        }
                    } else if !ae_on || p.uses_safe {
                        if mode != "render_block" && !out.contains(&poison) {
                            meta.oracle_fail("autoescape off / safe: the poison does not appear verbatim", None,
                                json!({"input": input, "output": out}));
                        }
                    }
                }
                // ---- model side
                let strict = ae_on && !p.uses_safe && !p.lit_special && !user_safe;
                if su.in_subset && model_budget > 0 && (rng.chance(1, if thorough { 12 } else { 5 }) || (strict && rng.chance(1, 2)) || p.label.starts_with("hand:") || (p.label.starts_with("sweep:") || p.label.starts_with("concat:")) && rng.chance(1, 6)) {
                    model_budget -= 1;
                    let g = format!(
                        "{{| k_templates := {}; k_components := {}; k_entry := {}; k_mode := MRender {}; k_ctx := {}; k_noopt := None; k_esc := EscDefault; k_safe := {}; k_strict := {}; k_impl := {} |}}",
                        su.tpls_name, su.comps_name, gal_str(&p.entry), gal_opt(&blk, |b| gal_str(b)), gal_ctx(c),
                        gal_bool(p.uses_safe), gal_bool(strict), r.gal(|s| gal_str(s))
                    );
                    let desc = json!({"input": input, "impl": r.json(|s| json!(s))});
                    let tag = match &r { Outcome::Ok(_) => "impl:ok", Outcome::Err(..) => "impl:err", Outcome::Panic(_) => "impl:panic" };
                    let mut tags = vec![tag, mode, if ae_on { "ae:on" } else { "ae:off" }];
                    if strict { tags.push("strict"); }
                    sink.push_with_defs(&su.defs, g, desc, nontrivial, None, &tags);
                } else {
                    oracle_only += 1;
                    if nontrivial {
                        oracle_only_nontrivial += 1;
                    }
                }
                            // ---- the same render under custom escape functions (Tera::set_escape_fn)
                let wide = p.tags.contains(&"wide-filters");
                for (ename, egal, efn) in ESCAPERS {
                    su.tera.set_escape_fn(efn);
                    let r2 = match mode {
                        "render" => guarded(|| su.tera.render(&p.entry, &ctx)),
                        "render_block" => guarded(|| su.tera.render_block(&p.entry, blk.as_ref().unwrap(), &ctx)),
                        _ => guarded(|| su.tera.render_str(entry_src, &ctx, ae_on)),
                    };
                    su.tera.reset_escape_fn();
                    renders += 1;
                    meta.oracle_checks += 1;
                    let input2 = json!({"label": p.label, "templates": p.templates, "entry": p.entry, "mode": mode, "block": blk,
                        "suffix_mode": smode, "context": cname, "autoescape": ae_on, "escaper": ename});
                    if let Outcome::Panic(msg) = &r2 {
                        meta.oracle_fail(&format!("panic: {msg}"), None, input2.clone());
                    }
                    if let Outcome::Ok(out) = &r2 {
                        if ae_on && !p.uses_safe && !user_safe && !p.cuts && !wide {
                            let verdict = match ename {
                                "marker" => oracle_marker(out),
                                "js" => oracle_js(out),
                                _ => if mode != "render_block" && !out.contains(&poison) { Err("identity escaper: the poison does not appear verbatim".to_string()) } else { Ok(()) },
                            };
                            if let Err(what) = verdict {
                                meta.oracle_fail(&format!("autoescape on, escaper `{ename}`: {what}"), None, json!({"input": input2, "output": out}));
                            }
                        }
                        if !ae_on && mode != "render_block" && !out.contains(&poison) {
                            meta.oracle_fail(&format!("autoescape off, escaper `{ename}`: the poison does not appear verbatim"), None,
                                json!({"input": input2, "output": out}));
                        }
                    }
                    // the optimiser must not change what is written, whatever the escaper
                    if mode == "render" {
                        if let Some(t2) = su.tera_noopt.as_mut() {
                            t2.set_escape_fn(efn);
                            let r3 = guarded(|| t2.render(&p.entry, &ctx));
                            t2.reset_escape_fn();
                            renders += 1;
                            meta.oracle_checks += 1;
                            let same = match (&r2, &r3) {
                                (Outcome::Ok(a), Outcome::Ok(b)) => a == b,
                                (Outcome::Err(a, _), Outcome::Err(b, _)) => a == b,
                                _ => false,
                            };
                            if !same {
                                meta.oracle_fail(&format!("escaper `{ename}`: the optimised chunks write something else than the unoptimised ones"), None,
                                    json!({"input": input2, "optimised": r2.json(|s| json!(s)), "unoptimised": r3.json(|s| json!(s))}));
                            }
                        }
                    }
                    // model side: the escape function is a parameter of the world
                    if su.in_subset && model_budget > 0 && (p.label.starts_with("hand:") && *cname == "poison" || rng.chance(1, if thorough { 30 } else { 14 })) {
                        model_budget -= 1;
                        let g = format!(
                            "{{| k_templates := {}; k_components := {}; k_entry := {}; k_mode := MRender {}; k_ctx := {}; k_noopt := {}; k_esc := {}; k_safe := {}; k_strict := false; k_impl := {} |}}",
                            su.tpls_name, su.comps_name, gal_str(&p.entry), gal_opt(&blk, |b| gal_str(b)), gal_ctx(c), su.noopt_term, egal,
                            gal_bool(p.uses_safe), r2.gal(|s| gal_str(s))
                        );
                        let desc = json!({"input": input2, "impl": r2.json(|s| json!(s))});
                        let tag = match &r2 { Outcome::Ok(_) => "impl:ok", Outcome::Err(..) => "impl:err", Outcome::Panic(_) => "impl:panic" };
                        sink.push_with_defs(&su.defs, g, desc, nontrivial, None, &[tag, mode, if ae_on { "ae:on" } else { "ae:off" }, ename]);
                    } else {
                        oracle_only += 1;
                    }
                }
            }
            // ---- mode: render_component for every component taking exactly `a`
            if pi % 2 == 0 {
                for cd in p.comps.iter().filter(|c| c.params.first().map(|x| x.0.as_str()) == Some("a") && c.rest.is_none() && c.a_kind == K::S).take(2) {
                    for (flag, body) in [(true, Some("BODY-ok")), (false, if cd.uses_body { Some("B<o>dy") } else { None }), (true, if cd.uses_body { Some("BODY-2") } else { None })] {
                        let mut cc: Vec<(String, Value)> = vec![("a".to_string(), Value::from(poison.as_str()))];
                        if cd.params.len() > 1 && flag {
                            cc.push(("b".to_string(), Value::from(POISON3)));
                        }
                        let cctx = to_context(&cc);
                        let r = guarded(|| su.tera.render_component(&cd.name, &cctx, body, flag));
                        renders += 1;
                        meta.oracle_checks += 1;
                        let input = json!({"label": p.label, "templates": p.templates, "component": cd.name, "mode": "render_component",
                            "autoescape": flag, "body": body, "context": {"a": poison}});
                        if let Outcome::Panic(msg) = &r {
                            meta.oracle_fail(&format!("panic: {msg}"), None, input.clone());
                        }
                        // includes inside the component follow the override too: every template is escaped
                        if let Outcome::Ok(out) = &r {
                            if flag && !p.uses_safe {
                                if let Err(what) = oracle_escaped(out, p.cuts || body.is_some()) {
                                    meta.oracle_fail(&format!("render_component autoescape=true: {what}"), None,
                                        json!({"input": input, "output": out}));
                                }
                            }
                        }
                        let src_tpl = su.comp_src_tpl.iter().find(|x| x.0 == cd.name).map(|x| x.1.clone());
                        if let (true, Some(src_tpl), true) = (su.in_subset, src_tpl, model_budget > 0 && rng.chance(1, if thorough { 12 } else { 5 })) {
                            model_budget -= 1;
                            let g = format!(
                                "{{| k_templates := {}; k_components := {}; k_entry := {}; k_mode := MComponent {} {} {}; k_ctx := {}; k_noopt := None; k_esc := EscDefault; k_safe := {}; k_strict := false; k_impl := {} |}}",
                                su.tpls_name, su.comps_name, gal_str(&src_tpl), gal_str(&cd.name), gal_bool(flag),
                                gal_opt(&body.map(|s| s.to_string()), |b| gal_str(b)), gal_ctx(&cc), gal_bool(p.uses_safe), r.gal(|s| gal_str(s))
                            );
                            let desc = json!({"input": input, "impl": r.json(|s| json!(s))});
                            let tag = match &r { Outcome::Ok(_) => "impl:ok", Outcome::Err(..) => "impl:err", Outcome::Panic(_) => "impl:panic" };
                            sink.push_with_defs(&su.defs, g, desc, matches!(&r, Outcome::Ok(s) if s.len() > 10), None,
                                &[tag, "render_component", if flag { "ae:on" } else { "ae:off" }]);
                        } else {
                            oracle_only += 1;
                        }
                    }
                }
            }
        }
    }

    // ---- all 128 ASCII bytes + boundary code points through the real escaper vs the generated table (cross-check of T-gen)
    {
        let tera = Tera::default();
        for cp in (0u32..128).chain([0x7f, 0x80, 0xff, 0x100, 0x2028, 0xfffd, 0x1f600]) {
            let Some(ch) = char::from_u32(cp) else { continue };
            let mut ctx = Context::new();
            ctx.insert_value("c", Value::from(ch.to_string()));
            let r = guarded(|| tera.render_str("{{ c }}", &ctx, true));
            meta.oracle_checks += 1;
            renders += 1;
            oracle_only += 1;
            match r {
                Outcome::Ok(out) if out == esc(&ch.to_string()) => {}
                other => meta.oracle_fail("escape_html differs from the five-entity map", None,
                    json!({"code_point": cp, "impl": other.json(|s| json!(s))})),
            }
        }
    }

    meta.extra.insert("renders".into(), json!(renders));
    meta.extra.insert("oracle_only_evaluations".into(), json!(oracle_only));
    meta.extra.insert("oracle_only_nontrivial".into(), json!(oracle_only_nontrivial));
    meta.extra.insert("programs".into(), json!(progs.len()));
    meta.extra.insert("programs_rejected_at_registration".into(), json!(skipped_register));
    meta.extra.insert("sweep_space".into(), json!(sweep_total));
    meta.extra.insert("concat_length_space".into(), json!(concat_total));
    meta.extra.insert("sweep_programs_run".into(), json!(sweep_ok));
    meta.extra.insert("sweep_exhaustive".into(), json!(thorough));
    meta.extra.insert("construct_distribution".into(), json!(distribution));
    meta.families.push(sink.finish());
    suffix_rule_sweep(&mut meta);
    meta.write(&args.out);
}

fn replay(path: &std::path::Path) {
    let r: serde_json::Value = serde_json::from_str(&std::fs::read_to_string(path).expect("replay file")).expect("json");
    let input = r.get("input").and_then(|i| i.get("input")).or_else(|| r.get("input")).or_else(|| r.get("case").and_then(|c| c.get("input"))).cloned().unwrap_or(r.clone());
    let Some(tpls) = input.get("templates").and_then(|t| t.as_array()) else {
        println!("no templates in replay");
        return;
    };
    let templates: Vec<(String, String)> = tpls.iter().map(|p| (p[0].as_str().unwrap().to_string(), p[1].as_str().unwrap().to_string())).collect();
    let mut tera = Tera::default();
    let smode = input.get("suffix_mode").and_then(|x| x.as_u64()).unwrap_or(0);
    if smode == 1 {
        tera.autoescape_on(vec![".txt"]);
    }
    if let Err(e) = tera.add_raw_templates(templates.clone()) {
        println!("registration error: {e}");
        return;
    }
    if smode == 2 {
        tera.autoescape_on(vec![".txt"]);
    }
    let cname = input.get("context").and_then(|c| c.as_str()).unwrap_or("poison");
    let c = match cname {
        "specials-only" => context_for(POISON2, false),
        "short" => context_for(POISON3, false),
        "poison+usersafe" => context_for(POISON, true),
        _ => context_for(POISON, false),
    };
    let ctx = to_context(&c);
    if let Some(e) = input.get("escaper").and_then(|e| e.as_str()) {
        if let Some((_, _, f)) = ESCAPERS.iter().find(|x| x.0 == e) {
            tera.set_escape_fn(*f);
            println!("--- escape function: {e}");
        }
    }
    let mode = input.get("mode").and_then(|m| m.as_str()).unwrap_or("render");
    let out = match mode {
        "render_component" => {
            let name = input["component"].as_str().unwrap();
            let mut cc = Context::new();
            cc.insert_value("a", Value::from(input["context"]["a"].as_str().unwrap_or(POISON)));
            guarded(|| tera.render_component(name, &cc, input["body"].as_str(), input["autoescape"].as_bool().unwrap_or(true)))
        }
        "render_block" => guarded(|| tera.render_block(input["entry"].as_str().unwrap(), input["block"].as_str().unwrap_or("b"), &ctx)),
        "render_str" => {
            let entry = input["entry"].as_str().unwrap();
            let src = &templates.iter().find(|(n, _)| n == entry).unwrap().1;
            guarded(|| tera.render_str(src, &ctx, input["autoescape"].as_bool().unwrap_or(true)))
        }
        _ => guarded(|| tera.render(input["entry"].as_str().unwrap(), &ctx)),
    };
    for (n, s) in &templates {
        println!("--- {n}\n{s}");
    }
    println!("--- context {cname}: p = {:?}", c[0].1.as_str());
    println!("--- {mode}: {}", out.json(|s| json!(s)));
}
