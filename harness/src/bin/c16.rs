//! C16 — collection filters. Families:
//!   coll   : `xs | sort` / `sort(attribute=p)`, `xs | unique`, `xs | group_by(attribute=p)`
//!            on arrays of length 0..300                            vs Model.CollFilters
//!   access : first / last / nth(n) / length / reverse / reverse|reverse
//!   kvp    : keys / values / pairs of maps (outputs sorted by key before printing)
//!   sj     : `s | split(pat=p)` and `s | split(pat=p) | join(sep=p)`
//! Implementation-side oracles on every case (and on a larger oracle-only stream of long arrays):
//! no panic; an accepted sort is a permutation of its input, non-decreasing under `cmp`, stable,
//! and all its non-none keys are pairwise comparable; unique returns first occurrences of the
//! `==` classes; group_by partitions the keyed elements keeping their order; reverse twice and
//! split-then-join give back the input.
use serde_json::json;
use std::cmp::Ordering;
use tera::value::Key;
use tera::{Context, Map, Tera, Value};
use tvh::*;

fn leak(s: &str) -> &'static str {
    Box::leak(s.to_string().into_boxed_str())
}
fn ks(s: &str) -> Key<'static> {
    Key::String(std::sync::Arc::from(s))
}
fn kb(s: &str) -> Key<'static> {
    Key::Str(leak(s))
}
fn map_of(entries: Vec<(Key<'static>, Value)>) -> Value {
    let mut m = Map::new();
    for (k, v) in entries {
        m.insert(k, v);
    }
    Value::from(m)
}
fn jv(v: &Value) -> serde_json::Value {
    use tera::value::ValueKind as K;
    match v.kind() {
        K::Array => json!({"arr": v.as_array().unwrap().iter().map(jv).collect::<Vec<_>>()}),
        K::Map => json!({"map": sorted_entries(v.as_map().unwrap()).into_iter()
            .map(|(k, x)| json!([format!("{k:?}"), jv(x)])).collect::<Vec<_>>()}),
        _ => json_value(v),
    }
}

/// Rebuilds a value from the JSON written by `jv` (maps and undefined included).
fn vj(j: &serde_json::Value) -> Value {
    if let Some(o) = j.as_object() {
        if let Some(a) = o.get("arr") {
            return Value::from(a.as_array().unwrap().iter().map(vj).collect::<Vec<_>>());
        }
        if let Some(m) = o.get("map") {
            let mut out = Map::new();
            for e in m.as_array().unwrap() {
                let k = e[0].as_str().unwrap();
                let (kind, rest) = k.split_once('(').unwrap();
                let inner = &rest[..rest.len() - 1];
                let key: Key<'static> = match kind {
                    "Bool" => Key::Bool(inner == "true"),
                    "U64" => Key::U64(inner.parse().unwrap()),
                    "I64" => Key::I64(inner.parse().unwrap()),
                    "U128" => Key::U128(inner.parse().unwrap()),
                    "I128" => Key::I128(inner.parse().unwrap()),
                    "String" => Key::String(std::sync::Arc::from(serde_json::from_str::<String>(inner).unwrap_or(inner.trim_matches('"').to_string()))),
                    _ => Key::Str(leak(&serde_json::from_str::<String>(inner).unwrap_or(inner.trim_matches('"').to_string()))),
                };
                out.insert(key, vj(&e[1]));
            }
            return Value::from(out);
        }
    }
    value_from_json(j)
}

/// `--replay file`: re-run sort / unique on the recorded array with the current implementation.
fn replay(path: &std::path::Path, tera: &Tera) {
    let r: serde_json::Value = serde_json::from_str(&std::fs::read_to_string(path).expect("replay file")).expect("json");
    let mut cur = &r;
    for k in ["case", "input", "input"] {
        if cur.get("xs").is_none() {
            if let Some(n) = cur.get(k) { cur = n; }
        }
    }
    let xs = match cur.get("xs") {
        Some(x) if x.is_array() => x.as_array().unwrap().iter().map(vj).collect::<Vec<_>>(),
        Some(x) if x.get("all").is_some() => x["all"].as_array().unwrap().iter().map(vj).collect::<Vec<_>>(),
        _ => { println!("nothing to replay in this record"); return; }
    };
    let attr = cur.get("attribute").and_then(|a| a.as_str());
    let show = |o: Outcome<Value>| match o { Outcome::Ok(v) => format!("ok, {} elements: {}", v.len().unwrap_or(0), { let s = jv(&v).to_string(); s.chars().take(600).collect::<String>() }), o => o.json(jv).to_string() };
    match attr {
        Some(a) => {
            println!("sort(attribute={a}) => {}", show(run(tera, &format!("xs | sort(attribute=\"{a}\")"), &xs)));
            println!("group_by(attribute={a}) => {}", show(run(tera, &format!("xs | group_by(attribute=\"{a}\")"), &xs)));
        }
        None => println!("sort => {}", show(run(tera, "xs | sort", &xs))),
    }
    println!("unique => {}", show(run(tera, "xs | unique", &xs)));
}

/// short description of a long array for evidence / replays
fn jarr(xs: &[Value]) -> serde_json::Value {
    if xs.len() <= 40 {
        json!(xs.iter().map(jv).collect::<Vec<_>>())
    } else {
        json!({"len": xs.len(), "head": xs[..12].iter().map(jv).collect::<Vec<_>>(), "all": xs.iter().map(jv).collect::<Vec<_>>()})
    }
}

#[derive(Clone)]
enum Seg {
    Idx(usize),
    Name(&'static str),
}
fn path_str(p: &[Seg]) -> String {
    p.iter().map(|s| match s { Seg::Idx(i) => i.to_string(), Seg::Name(n) => n.to_string() }).collect::<Vec<_>>().join(".")
}
fn gal_path(p: &[Seg]) -> String {
    let parts: Vec<String> = p.iter().map(|s| match s {
        Seg::Idx(i) => format!("SegIdx {i}"),
        Seg::Name(n) => format!("SegName {}", gal_str(n)),
    }).collect();
    format!("[{}]", parts.join("; "))
}

fn scalars(rng: &mut Rng) -> Value {
    match rng.below(14) {
        0 => Value::from(rng.range(-5, 12)),
        1 => Value::from(rng.below(12) as u64),
        2 => Value::from(rng.range(-3, 8) as i128),
        3 => Value::from(rng.below(8) as u128),
        4 => Value::from([0.0f64, -0.0, 1.0, 2.5, -1.5, 3.0, 1e300, f64::NAN, f64::INFINITY, f64::NEG_INFINITY][rng.below(10)]),
        5 => Value::from(["", "a", "b", "ab", "é", "日本", "z", "B"][rng.below(8)]),
        6 => Value::safe_string(["a", "<b>", "z"][rng.below(3)]),
        7 => Value::from(rng.chance(1, 2)),
        8 => Value::none(),
        9 => Value::from([i64::MAX as i128 + 1, i128::MAX, i128::MIN, 1i128 << 64][rng.below(4)]),
        10 => Value::from([u64::MAX as u128, u128::MAX, i128::MAX as u128 + 1][rng.below(3)]),
        11 => Value::bytes(vec![0x61u8; rng.below(3)]),
        12 => Value::from(9007199254740993i64),
        _ => Value::from(9007199254740992.0f64),
    }
}

fn any_value(rng: &mut Rng, depth: usize) -> Value {
    if depth == 0 || rng.chance(3, 5) {
        return scalars(rng);
    }
    if rng.chance(3, 5) {
        let n = rng.below(4);
        Value::from((0..n).map(|_| any_value(rng, depth - 1)).collect::<Vec<_>>())
    } else {
        let n = rng.below(3);
        let mut e = Vec::new();
        for i in 0..n {
            let k = match rng.below(4) { 0 => ks(["a", "b", "k"][i]), 1 => kb(["a", "b", "k"][i]), 2 => Key::U64(i as u64), _ => Key::I64(i as i64) };
            e.push((k, any_value(rng, depth - 1)));
        }
        map_of(e)
    }
}

/// element generators by "shape" of the array
fn gen_array(rng: &mut Rng, shape: usize, len: usize) -> (Vec<Value>, Option<Vec<Seg>>) {
    let mut out = Vec::with_capacity(len);
    let mut path = None;
    match shape {
        0 => for _ in 0..len { let z = rng.range(-6, 20) as i128; let r = pools::int_reps(z); out.push(r[rng.below(r.len())].clone()); },
        1 => for _ in 0..len { out.push(Value::from(["", "a", "b", "ab", "é", "日本", "z", "B", "aa", "a\0", "ab\0", "\0"][rng.below(12)])); },
        2 => for _ in 0..len {
            out.push(match rng.below(4) {
                0 => Value::from([0.0f64, -0.0, 1.0, 2.5, -1.5, 3.0, f64::NAN, f64::INFINITY, 9007199254740992.0][rng.below(9)]),
                1 => Value::from(rng.range(-3, 4)),
                2 => Value::from(rng.below(4) as u128),
                _ => Value::from([9007199254740993i128, 1i128 << 64, i128::MIN][rng.below(3)]),
            });
        },
        3 => for _ in 0..len { out.push(if rng.chance(1, 4) { Value::none() } else { Value::from(rng.range(0, 9)) }); },
        4 => for _ in 0..len { out.push(scalars(rng)); },
        // arrays of short arrays whose elements are comparable
        5 => for _ in 0..len { let n = rng.below(3); out.push(Value::from((0..n).map(|_| Value::from(rng.range(0, 3))).collect::<Vec<_>>())); },
        // arrays of mixed-content arrays (the D2 neighbourhood)
        6 => for _ in 0..len {
            let n = 1 + rng.below(3);
            out.push(Value::from((0..n).map(|_| match rng.below(5) {
                0 => Value::from(rng.range(0, 2)), 1 => Value::from(["a", "b"][rng.below(2)]), 2 => Value::from(rng.chance(1, 2)),
                3 => Value::none(), _ => Value::from(1.0f64) }).collect::<Vec<_>>()));
        },
        // maps with attribute k (keyed by a comparable/groupable value)
        7 | 8 | 9 => {
            let p: Vec<Seg> = match shape { 7 => vec![Seg::Name("k")], 8 => vec![Seg::Name("a"), Seg::Name("b")], _ => vec![Seg::Name("t"), Seg::Idx(1)] };
            for i in 0..len {
                let kv = match rng.below(12) {
                    0 => Value::none(),
                    1 if shape == 7 && rng.chance(1, 8) => Value::from(1.5f64),
                    2 if rng.chance(1, 6) => Value::from(vec![Value::from(1u64)]),
                    3 => Value::from(["x", "y", "z"][rng.below(3)]),
                    4 if rng.chance(1, 3) => Value::from(rng.chance(1, 2)),
                    _ => { let z = rng.range(0, 5) as i128; let r = pools::int_reps(z); r[rng.below(r.len())].clone() }
                };
                let id = Value::from(i as u64);
                let missing = rng.chance(1, 60);
                let v = match shape {
                    7 => if missing { map_of(vec![(ks("id"), id)]) } else { map_of(vec![(ks("id"), id), (if rng.chance(1, 2) { ks("k") } else { kb("k") }, kv)]) },
                    8 => if missing { map_of(vec![(ks("a"), Value::from(3u64))]) } else { map_of(vec![(ks("id"), id), (ks("a"), map_of(vec![(ks("b"), kv)]))]) },
                    _ => if missing { map_of(vec![(ks("t"), Value::from(vec![id]))]) } else { map_of(vec![(ks("t"), Value::from(vec![id, kv]))]) },
                };
                out.push(v);
            }
            path = Some(p);
        }
        // homogeneous keys for attribute sort: strings only / ints only -> accepted sorts
        10 => {
            for i in 0..len {
                let kv = if rng.chance(1, 7) { Value::none() } else { Value::from(rng.range(0, 6)) };
                out.push(map_of(vec![(ks("id"), Value::from(i as u64)), (ks("k"), kv)]));
            }
            path = Some(vec![Seg::Name("k")]);
        }
        11 => for _ in 0..len { out.push(any_value(rng, 2)); },
        _ => for _ in 0..len { out.push(map_of(vec![(ks("a"), Value::from(rng.range(0, 3)))])); },
    }
    (out, path)
}

fn run(tera: &Tera, expr: &str, xs: &[Value]) -> Outcome<Value> {
    let mut ctx = Context::new();
    ctx.insert_value("xs", Value::from(xs.to_vec()));
    eval_expr(tera, expr, &ctx)
}

fn key_of(v: &Value, path: &[Seg]) -> Option<Value> {
    v.get_from_path(&path_str(path)).cloned()
}

/// property oracles evaluated on the implementation's own outputs
fn oracles(meta: &mut Meta, xs: &[Value], path: &Option<Vec<Seg>>, r_sort: &Outcome<Value>, r_uniq: &Outcome<Value>, r_group: &Option<Outcome<Value>>) {
    let input = || json!({"xs": jarr(xs), "attribute": path.as_ref().map(|p| path_str(p))});
    for (r, what) in [(Some(r_sort), "sort"), (Some(r_uniq), "unique"), (r_group.as_ref(), "group_by")] {
        if let Some(r) = r {
            meta.oracle_checks += 1;
            if let Outcome::Panic(m) = r {
                meta.oracle_fail(&format!("panic in `{what}`: {m}"), None, input());
            }
        }
    }
    // sort
    meta.oracle_checks += 1;
    if let Outcome::Ok(s) = r_sort {
        let s = s.as_array().unwrap();
        let keyf = |v: &Value| -> Value { match path { Some(p) => key_of(v, p).unwrap_or(Value::undefined()), None => v.clone() } };
        let mut bad: Option<&str> = None;
        if s.len() != xs.len() { bad = Some("sort changed the length"); }
        let ks_: Vec<Value> = s.iter().map(keyf).collect();
        for w in ks_.windows(2) {
            if w[0].cmp(&w[1]) == Ordering::Greater { bad = Some("sort output is not non-decreasing"); }
        }
        // permutation + stability: for every element of the output, the elements of the output whose
        // key is Equal to its key are, in order, the elements of the input with an Equal key
        if bad.is_none() && xs.len() <= 320 {
            let in_keys: Vec<Value> = xs.iter().map(keyf).collect();
            for k in &ks_ {
                let a: Vec<&Value> = s.iter().zip(&ks_).filter(|(_, kk)| kk.cmp(&k) == Ordering::Equal).map(|(v, _)| v).collect();
                let b: Vec<&Value> = xs.iter().zip(&in_keys).filter(|(_, kk)| kk.cmp(&k) == Ordering::Equal).map(|(v, _)| v).collect();
                if a.len() != b.len() || a.iter().zip(&b).any(|(x, y)| x != y) { bad = Some("sort is not a stable permutation"); break; }
            }
            // accepted => non-none keys pairwise comparable (undefined keys aside)
            let reg: Vec<&Value> = in_keys.iter().filter(|k| !k.is_none() && !k.is_undefined()).collect();
            'o: for i in 0..reg.len() { for j in 0..reg.len() { if i != j && reg[i].partial_cmp(reg[j]).is_none() { bad = Some("sort accepted mutually incomparable keys"); break 'o; } } }
        }
        if let Some(b) = bad { meta.oracle_fail(b, None, json!({"input": input(), "sorted": jarr(s)})); }
    }
    // unique
    meta.oracle_checks += 1;
    if let Outcome::Ok(u) = r_uniq {
        let u = u.as_array().unwrap();
        let mut expect: Vec<&Value> = Vec::new();
        for (i, x) in xs.iter().enumerate() {
            if !xs[..i].iter().any(|p| p == x) { expect.push(x); }
        }
        // compare with == on elements plus identical kinds
        let same = expect.len() == u.len() && expect.iter().zip(u).all(|(a, b)| *a == b && a.kind() == b.kind());
        if !same {
            meta.oracle_fail("unique is not the list of first occurrences of the == classes", None, json!({"input": input(), "unique": jarr(u), "expected_len": expect.len()}));
        }
    }
    // group_by
    if let (Some(Outcome::Ok(g)), Some(p)) = (r_group, path) {
        meta.oracle_checks += 1;
        let gm = g.as_map().unwrap();
        let mut bad: Option<&str> = None;
        let mut total = 0;
        for (k, vs) in gm.iter() {
            let vs = vs.as_array().unwrap();
            total += vs.len();
            let expect: Vec<&Value> = xs.iter().filter(|v| match key_of(v, p) { Some(x) if !x.is_none() => x == Value::from(k.clone()), _ => false }).collect();
            if expect.len() != vs.len() || expect.iter().zip(vs).any(|(a, b)| *a != b) { bad = Some("group_by: a group is not the in-order list of the elements with that key"); }
            if vs.is_empty() { bad = Some("group_by: empty group"); }
        }
        let keyed = xs.iter().filter(|v| matches!(key_of(v, p), Some(x) if !x.is_none())).count();
        if total != keyed { bad = Some("group_by: groups do not partition the keyed elements"); }
        if let Some(b) = bad { meta.oracle_fail(b, None, json!({"input": input(), "groups": jv(g)})); }
    }
}

fn main() {
    let args = parse_args();
    silence_panics();
    let mut tera = Tera::default();
    register_probe(&mut tera);
    if let Some(p) = &args.replay {
        replay(p, &tera);
        return;
    }
    let mut rng = Rng::new(args.seed);
    let thorough = args.tier == "thorough";
    let mut meta = Meta::default();

    let hdr = "From TeraV Require Import Model.Value Model.CollFilters Corr.CorrC15 Corr.CorrC16.";
    let mut s_coll = Sink::new(&args.out, "coll", hdr, "check_coll");
    let mut s_access = Sink::new(&args.out, "access", hdr, "check_access");
    let mut s_kvp = Sink::new(&args.out, "kvp", hdr, "check_kvp");
    let mut s_sj = Sink::new(&args.out, "sj", hdr, "check_sj");

    // ---------------------------------------------------------------- coll
    let lens_small: Vec<usize> = vec![0, 1, 2, 2, 3, 3, 4, 5, 6, 8, 10, 13];
    let lens_long: Vec<usize> = vec![20, 21, 22, 34, 55, 89, 144, 233, 300];
    let n_small = if thorough { 2500 } else { 330 };
    let n_long = if thorough { 250 } else { 36 };
    let mut budget_in_shard = 0usize;
    let mut do_case = |rng: &mut Rng, meta: &mut Meta, sink: Option<&mut Sink>, shape: usize, len: usize| {
        let (xs, path) = gen_array(rng, shape, len);
        let r_sort = match &path {
            Some(p) => run(&tera, &format!("xs | sort(attribute=\"{}\")", path_str(p)), &xs),
            None => run(&tera, "xs | sort", &xs),
        };
        let r_uniq = run(&tera, "xs | unique", &xs);
        let r_group = path.as_ref().map(|p| run(&tera, &format!("xs | group_by(attribute=\"{}\")", path_str(p)), &xs));
        oracles(meta, &xs, &path, &r_sort, &r_uniq, &r_group);
        if let Some(sink) = sink {
            let g = format!(
                "{{| c_arr := [{}]; c_path := {}; c_sort := {}; c_unique := {}; c_group := {} |}}",
                xs.iter().map(gal_value).collect::<Vec<_>>().join("; "),
                gal_opt(&path, |p| gal_path(p)),
                r_sort.gal(gal_value), r_uniq.gal(gal_value), gal_opt(&r_group, |r| r.gal(gal_value))
            );
            let short = |r: &Outcome<Value>| match r { Outcome::Ok(v) => json!({"ok_len": v.len()}), o => o.json(jv) };
            let desc = json!({"xs": jarr(&xs), "attribute": path.as_ref().map(|p| path_str(p)), "shape": shape,
                "impl": {"sort": if xs.len() <= 12 { r_sort.json(jv) } else { short(&r_sort) },
                         "unique": if xs.len() <= 12 { r_uniq.json(jv) } else { short(&r_uniq) },
                         "group_by": r_group.as_ref().map(|r| if xs.len() <= 12 { r.json(jv) } else { short(r) })}});
            let nontrivial = xs.len() >= 3;
            let t_len = if xs.len() >= 21 { "len>=21" } else if xs.len() >= 3 { "len3..20" } else { "len<3" };
            let t_sort = match &r_sort { Outcome::Ok(_) => "sort:ok", Outcome::Err(..) => "sort:err", Outcome::Panic(_) => "sort:panic" };
            let t_shape = format!("shape{shape}");
            sink.push(g, desc, nontrivial, None, &[t_len, t_sort, &t_shape]);
            budget_in_shard += xs.len() + 4;
            if budget_in_shard > 1100 {
                sink.flush();
                budget_in_shard = 0;
            }
        }
    };
    // hand-written corpus first (the D2 replays)
    {
        let u = |z: u64| Value::from(z);
        let m = |z: u64| map_of(vec![(ks("a"), u(z))]);
        let fixed: Vec<Vec<Value>> = vec![
            vec![m(1), m(2)],
            vec![Value::from(vec![u(1), Value::from("a")]), Value::from(vec![u(1), Value::from(true)]), Value::from(vec![u(1), Value::from("b")])],
            vec![m(1), m(1)],
            vec![u(1), Value::none(), Value::undefined()],
            vec![u(1), Value::undefined()],
            vec![Value::none(), Value::none()],
            vec![Value::from(f64::NAN), Value::from(1.0f64), Value::from(f64::NAN), u(1)],
            // strings that differ only by trailing NULs / are prefixes of one another, around the 21-byte inline limit
            vec![Value::from("ab"), Value::from("ab\0"), Value::from("ab"), Value::from("ab\0\0"), Value::from("b"), Value::from("ab\0")],
            vec![Value::from("k\0"), Value::from("k")],
            vec![Value::from("\0\0"), Value::from(""), Value::from("\0")],
            vec![Value::from("aaaaaaaaaaaaaaaaaaaaaa"), Value::from("aaaaaaaaaaaaaaaaaaaaa"), Value::from("aaaaaaaaaaaaaaaaaaaaa\0"), Value::from("aaaaaaaaaaaaaaaaaaaa"), Value::from("aaaaaaaaaaaaaaaaaaaa\0")],
        ];
        for xs in fixed {
            let r_sort = run(&tera, "xs | sort", &xs);
            let r_uniq = run(&tera, "xs | unique", &xs);
            oracles(&mut meta, &xs, &None, &r_sort, &r_uniq, &None);
            let g = format!("{{| c_arr := [{}]; c_path := None; c_sort := {}; c_unique := {}; c_group := None |}}",
                xs.iter().map(gal_value).collect::<Vec<_>>().join("; "), r_sort.gal(gal_value), r_uniq.gal(gal_value));
            let desc = json!({"xs": jarr(&xs), "impl": {"sort": r_sort.json(jv), "unique": r_uniq.json(jv)}, "corpus": true});
            s_coll.push(g, desc, true, None, &["corpus"]);
        }
    }
    for i in 0..n_small {
        let shape = i % 13;
        let len = *rng.pick(&lens_small);
        do_case(&mut rng, &mut meta, Some(&mut s_coll), shape, len);
    }
    for i in 0..n_long {
        let shape = [6usize, 0, 7, 4, 5, 10, 2, 11, 3, 12, 1, 8][i % 12];
        let len = *rng.pick(&lens_long);
        do_case(&mut rng, &mut meta, Some(&mut s_coll), shape, len);
    }
    // oracle-only stream: long arrays, implementation side only (std's sort checks the order only
    // on slices of 21 and more)
    let n_oracle_only = if thorough { 30_000 } else { 4_000 };
    for i in 0..n_oracle_only {
        let shape = [6usize, 6, 11, 4, 7, 9, 12, 5][i % 8];
        let len = 21 + rng.below(300);
        do_case(&mut rng, &mut meta, None, shape, len);
    }
    meta.extra.insert("oracle_only_evaluations".into(), json!(n_oracle_only));
    meta.extra.insert("oracle_only_nontrivial".into(), json!(n_oracle_only));

    // ---------------------------------------------------------------- access
    let n_access = if thorough { 2500 } else { 500 };
    let ns: Vec<Value> = vec![Value::from(0u64), Value::from(1i64), Value::from(2u128), Value::from(-1i64), Value::from(5i128),
        Value::from(u64::MAX), Value::from(u128::MAX), Value::from(1i128 << 64), Value::from(1.0f64), Value::from(1.5f64), Value::from(-0.0f64),
        Value::from(f64::NAN), Value::from("1"), Value::none(), Value::from(true), Value::from(3u64), Value::from(12u64), Value::from(300u64)];
    for i in 0..n_access {
        let v = match i % 9 {
            0 => Value::from(["", "a", "héllo", "日本語", "ab"][rng.below(5)]),
            1 => Value::safe_string("<é>"),
            2 => Value::bytes((0..rng.below(4)).map(|x| x as u8 + 0x60).collect::<Vec<u8>>()),
            3 => any_value(&mut rng, 2),
            4 => map_of((0..rng.below(4)).map(|j| (Key::U64(j as u64), Value::none())).collect()),
            _ => { let len = [0usize, 1, 2, 3, 5, 13, 40][rng.below(7)]; let shape = rng.below(12); Value::from(gen_array(&mut rng, shape, len).0) }
        };
        let n = rng.pick(&ns).clone();
        let mut ctx = Context::new();
        ctx.insert_value("v", v.clone());
        ctx.insert_value("n", n.clone());
        let r_first = eval_expr(&tera, "v | first", &ctx);
        let r_last = eval_expr(&tera, "v | last", &ctx);
        let r_nth = eval_expr(&tera, "v | nth(n=n)", &ctx);
        let r_len = eval_expr(&tera, "v | length", &ctx);
        let r_rev = eval_expr(&tera, "v | reverse", &ctx);
        let r_rev2 = eval_expr(&tera, "v | reverse | reverse", &ctx);
        for (r, what) in [(&r_first, "first"), (&r_last, "last"), (&r_nth, "nth"), (&r_len, "length"), (&r_rev, "reverse"), (&r_rev2, "reverse|reverse")] {
            meta.oracle_checks += 1;
            if let Outcome::Panic(m) = r {
                meta.oracle_fail(&format!("panic in `{what}`: {m}"), None, json!({"v": jv(&v), "n": jv(&n)}));
            }
        }
        // oracles: reverse twice = identity (arrays, strings); first/last/nth/length agree
        meta.oracle_checks += 1;
        if let Some(arr) = v.as_array() {
            let ok_rev2 = matches!(&r_rev2, Outcome::Ok(x) if x.as_array().map_or(false, |y| y.len() == arr.len() && y.iter().zip(arr).all(|(a, b)| a == b && a.kind() == b.kind())));
            let ok_len = matches!(&r_len, Outcome::Ok(x) if x.as_u128() == Some(arr.len() as u128));
            let ok_first = matches!(&r_first, Outcome::Ok(x) if match arr.first() { Some(f) => x == f && x.kind() == f.kind(), None => x.is_none() });
            let ok_last = matches!(&r_last, Outcome::Ok(x) if match arr.last() { Some(f) => x == f && x.kind() == f.kind(), None => x.is_none() });
            let ok_nth = match (n.as_u128(), &r_nth) {
                (Some(i), Outcome::Ok(x)) if !matches!(n.kind(), tera::value::ValueKind::F64) && i <= u64::MAX as u128 => match arr.get(i as usize) { Some(f) => x == f && x.kind() == f.kind(), None => x.is_none() },
                _ => true,
            };
            if !(ok_rev2 && ok_len && ok_first && ok_last && ok_nth) {
                meta.oracle_fail("first/last/nth/length/reverse disagree with the array", None, json!({"v": jv(&v), "n": jv(&n),
                    "ok": {"rev2": ok_rev2, "len": ok_len, "first": ok_first, "last": ok_last, "nth": ok_nth}}));
            }
        } else if let Some(s) = v.as_str() {
            if !matches!(&r_rev2, Outcome::Ok(x) if x.as_str() == Some(s)) {
                meta.oracle_fail("reverse twice is not the identity on a string", None, json!({"v": jv(&v)}));
            }
        }
        let g = format!(
            "{{| x_val := {}; x_n := {}; x_first := {}; x_last := {}; x_nth := {}; x_length := {}; x_reverse := {}; x_rev2 := {} |}}",
            gal_value(&v), gal_value(&n), r_first.gal(gal_value), r_last.gal(gal_value), r_nth.gal(gal_value),
            r_len.gal(gal_value), r_rev.gal(gal_value), r_rev2.gal(gal_value)
        );
        let desc = json!({"v": jv(&v), "n": jv(&n), "impl": {"first": r_first.json(jv), "last": r_last.json(jv), "nth": r_nth.json(jv),
            "length": r_len.json(jv), "reverse": r_rev.json(jv)}});
        let nontrivial = v.len().unwrap_or(0) >= 2;
        s_access.push(g, desc, nontrivial, None, &[if v.is_array() { "array" } else { "other" }]);
    }

    // ---------------------------------------------------------------- keys / values / pairs
    let n_kvp = if thorough { 1000 } else { 150 };
    for i in 0..n_kvp {
        let size = i % 17;
        let mut e: Vec<(Key<'static>, Value)> = Vec::new();
        let mut tries = 0;
        while e.len() < size && tries < 500 {
            tries += 1;
            let k = match rng.below(5) {
                0 => Key::U64(rng.below(20) as u64), 1 => Key::I64(rng.range(-5, 20)), 2 => Key::I128(rng.range(-5, 20) as i128),
                3 => { let s = format!("k{}", rng.below(25)); if rng.chance(1, 2) { ks(&s) } else { kb(&s) } }
                _ => if rng.chance(1, 3) { Key::Bool(rng.chance(1, 2)) } else { Key::U128(rng.below(20) as u128) },
            };
            if e.iter().any(|(k2, _)| *k2 == k) { continue; }
            e.push((k, any_value(&mut rng, 1)));
        }
        let m = if i % 23 == 22 { Value::from(vec![Value::from(1u64)]) } else { map_of(e) };
        let ctx = { let mut c = Context::new(); c.insert_value("m", m.clone()); c };
        let r_keys = eval_expr(&tera, "m | keys", &ctx);
        let r_values = eval_expr(&tera, "m | values", &ctx);
        let r_pairs = eval_expr(&tera, "m | pairs", &ctx);
        for (r, what) in [(&r_keys, "keys"), (&r_values, "values"), (&r_pairs, "pairs")] {
            meta.oracle_checks += 1;
            if let Outcome::Panic(msg) = r {
                meta.oracle_fail(&format!("panic in `{what}`: {msg}"), None, json!({"m": jv(&m)}));
            }
        }
        // canonical order: sort keys; values by the permutation that sorts keys; pairs by first component
        let (ck, cv, cp) = match (&r_keys, &r_values, &r_pairs) {
            (Outcome::Ok(k), Outcome::Ok(v), Outcome::Ok(p)) => {
                let (k, v, p) = (k.as_array().unwrap(), v.as_array().unwrap(), p.as_array().unwrap());
                meta.oracle_checks += 1;
                let agree = k.len() == v.len() && p.len() == k.len() && p.iter().zip(k.iter().zip(v)).all(|(pp, (kk, vv))| {
                    pp.as_array().map_or(false, |a| a.len() == 2 && a[0] == *kk && a[1] == *vv)
                });
                if !agree {
                    meta.oracle_fail("keys/values/pairs do not agree position by position", None, json!({"m": jv(&m)}));
                }
                let mut idx: Vec<usize> = (0..k.len()).collect();
                idx.sort_by(|a, b| k[*a].cmp(&k[*b]));
                let sk: Vec<Value> = idx.iter().map(|i| k[*i].clone()).collect();
                let sv: Vec<Value> = if v.len() == k.len() { idx.iter().map(|i| v[*i].clone()).collect() } else { v.to_vec() };
                let mut sp: Vec<Value> = p.to_vec();
                sp.sort_by(|a, b| a.as_array().unwrap()[0].cmp(&b.as_array().unwrap()[0]));
                (Outcome::Ok(Value::from(sk)), Outcome::Ok(Value::from(sv)), Outcome::Ok(Value::from(sp)))
            }
            _ => (r_keys.clone(), r_values.clone(), r_pairs.clone()),
        };
        let g = format!("{{| k_map := {}; k_keys := {}; k_values := {}; k_pairs := {} |}}",
            gal_value(&m), ck.gal(gal_value), cv.gal(gal_value), cp.gal(gal_value));
        let desc = json!({"m": jv(&m), "impl": {"keys(sorted)": ck.json(jv), "values(by key)": cv.json(jv)}});
        s_kvp.push(g, desc, size >= 2, None, &[if size <= 6 { "size<=6" } else { "size>6" }]);
    }

    // ---------------------------------------------------------------- split / join
    let strs = ["", "a", "aa", "aaa", "abc", "a,b,c", ",a,,b,", "abab", "ababa", "日本語日本", "é-é-é", "x😀y😀", " a b ", "aXbXXc"];
    let pats = ["", "a", "aa", ",", ",,", "ab", "aba", "日本", "é", "😀", " ", "X", "zzz", "abc", "a,b,c"];
    let mut sj_cases: Vec<(Value, Value)> = Vec::new();
    for s in strs {
        for p in pats {
            sj_cases.push((Value::from(s), Value::from(p)));
        }
    }
    sj_cases.push((Value::safe_string("a<b>a"), Value::from("<")));
    sj_cases.push((Value::from("abc"), Value::from(1u64)));
    sj_cases.push((Value::from(12u64), Value::from("1")));
    let n_rand_sj = if thorough { 2000 } else { 120 };
    for _ in 0..n_rand_sj {
        let alphabet = ['a', 'b', ',', 'é', '日'];
        let s: String = (0..rng.below(14)).map(|_| alphabet[rng.below(5)]).collect();
        let p: String = (0..rng.below(4)).map(|_| alphabet[rng.below(5)]).collect();
        sj_cases.push((Value::from(s), Value::from(p)));
    }
    for (s, p) in sj_cases {
        let mut ctx = Context::new();
        ctx.insert_value("s", s.clone());
        ctx.insert_value("p", p.clone());
        let r_split = eval_expr(&tera, "s | split(pat=p)", &ctx);
        let r_join = eval_expr(&tera, "s | split(pat=p) | join(sep=p)", &ctx);
        for r in [&r_split, &r_join] {
            meta.oracle_checks += 1;
            if let Outcome::Panic(m) = r {
                meta.oracle_fail(&format!("panic in split/join: {m}"), None, json!({"s": jv(&s), "p": jv(&p)}));
            }
        }
        meta.oracle_checks += 1;
        if let (Some(ss), Some(_)) = (s.as_str(), p.as_str()) {
            if !matches!(&r_join, Outcome::Ok(x) if x.as_str() == Some(ss)) {
                meta.oracle_fail("split then join on the same separator is not the identity", None, json!({"s": jv(&s), "p": jv(&p), "got": r_join.json(jv)}));
            }
        }
        let g = format!("{{| j_s := {}; j_p := {}; j_split := {}; j_joined := {} |}}",
            gal_value(&s), gal_value(&p), r_split.gal(gal_value), r_join.gal(gal_value));
        let desc = json!({"s": jv(&s), "p": jv(&p), "impl": {"split": r_split.json(jv), "split|join": r_join.json(jv)}});
        let nontrivial = s.as_str().map_or(false, |x| x.chars().count() >= 2) && p.as_str().is_some();
        s_sj.push(g, desc, nontrivial, None, &[if p.as_str() == Some("") { "empty-pattern" } else { "pattern" }]);
    }

    meta.families.push(s_coll.finish());
    meta.families.push(s_access.finish());
    meta.families.push(s_kvp.finish());
    meta.families.push(s_sj.finish());
    meta.write(&args.out);
}
