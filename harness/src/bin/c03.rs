//! C03 (and the tie of Model/VM.v in general) — family `vm`: finalized real chunks + context
//! run on the model VM vs the real render (text or error class).
use serde_json::json;
use tera::verif::{template_listing, Listing};
use tera::{Context, Map, Tera, Value};
use tvh::galvm::*;
use tvh::*;

#[path = "../c03_stmt.rs"]
mod stmt;
#[path = "../vm1_gen.rs"]
mod vm1;

fn m(entries: Vec<(&str, Value)>) -> Value {
    let mut mm = Map::new();
    for (k, v) in entries {
        mm.insert(k.to_string().into(), v);
    }
    Value::from(mm)
}

fn contexts() -> Vec<(String, Vec<(String, Value)>)> {
    let leaves: Vec<(&str, Value)> = vec![
        ("int", Value::from(1u64)),
        ("str", Value::from("<s&>")),
        ("safe", Value::safe_string("<b>")),
        ("none", Value::none()),
        ("false", Value::from(false)),
        ("empty", Value::from(Vec::<Value>::new())),
        ("estr", Value::from("")),
    ];
    let mut out = Vec::new();
    for (name, leaf) in &leaves {
        let inner = m(vec![("z", leaf.clone()), ("x", Value::from(vec![leaf.clone(), Value::from(2u64)]))]);
        let a = m(vec![
            ("x", m(vec![("y", inner.clone()), ("x", leaf.clone())])),
            ("y", leaf.clone()),
        ]);
        let rows = Value::from(vec![
            m(vec![("x", Value::from("r1")), ("y", leaf.clone())]),
            m(vec![("x", Value::from(2u64)), ("y", m(vec![("z", Value::from(true))]))]),
            m(vec![("x", Value::none())]),
        ]);
        let ctx = vec![
            ("a".to_string(), a),
            ("b".to_string(), rows),
            ("c".to_string(), leaf.clone()),
        ];
        out.push((format!("abc={name}"), ctx));
    }
    out.push((
        "strings".into(),
        vec![
            ("a".to_string(), Value::from("h日<")),
            ("b".to_string(), Value::from(vec![Value::from("p"), Value::from("q"), Value::from("r")])),
            ("c".to_string(), m(vec![("x", Value::from("only"))])),
        ],
    ));
    out.push(("empty".into(), vec![]));
    out
}

fn to_context(c: &[(String, Value)]) -> Context {
    let mut ctx = Context::new();
    for (k, v) in c {
        ctx.insert_value(k.clone(), v.clone());
    }
    ctx
}

struct SetCase {
    label: String,
    templates: Vec<(String, String)>,
}

fn gen_set(rng: &mut Rng, k: usize) -> SetCase {
    // base / mid / child chain with blocks, an include, assignments crossing the boundaries
    let blk = |rng: &mut Rng, name: &str, lvl: usize| -> String {
        let body = match rng.below(5) {
            0 => format!("{name}{lvl}"),
            1 => format!("{name}{lvl}{{{{ super() }}}}"),
            2 => format!("{{{{ super() }}}}{name}{lvl}{{{{ c }}}}"),
            3 => format!("{name}{lvl}{{% set v = \"{name}{lvl}\" %}}{{{{ v }}}}"),
            _ => format!("{{% for i in b %}}{name}{{{{ i.x }}}}{{% endfor %}}"),
        };
        format!("{{% block {name} %}}{body}{{% endblock %}}")
    };
    let inc_body = match rng.below(4) {
        0 => "I{{ c }}".to_string(),
        1 => "I{{ v }}{% set v = 9 %}{{ v }}".to_string(),
        2 => "I{% for i in b %}{{ i.x }}{{ w }}{% endfor %}".to_string(),
        _ => "I{{ a.y }}{{ g }}".to_string(),
    };
    let base = format!(
        "B[{{% set v = 1 %}}{{% set_global g = 2 %}}{}|{}{}{{{{ v }}}}{{% include \"inc\" %}}]",
        "{% block a %}a0{{ c }}{% block n %}n0{% endblock %}{% endblock %}",
        "{% filter upper %}{% block b %}b0{% endblock %}{% endfilter %}",
        if rng.chance(1, 2) { "{% for w in b %}{% include \"inc\" %}{% endfor %}" } else { "" },
    );
    let mid = format!("{{% extends \"base\" %}}{}{}", blk(rng, "a", 1), if rng.chance(1, 2) { blk(rng, "n", 1) } else { String::new() });
    let child = format!("{{% extends \"mid\" %}}{}{}", blk(rng, "b", 2), if rng.chance(1, 2) { blk(rng, "a", 2) } else { String::new() });
    SetCase {
        label: format!("set#{k}"),
        templates: vec![
            ("inc".into(), inc_body),
            ("base".into(), base),
            ("mid".into(), mid),
            ("child".into(), child),
        ],
    }
}

/// Families `compile` (Model/Compile.v vs the real compiler, listing before optimisation) and
/// `ref` (Spec/Stmt.v vs tera.render; plus, inside Coq, the compiled library on the model VM).
fn stmt_families(args: &Args, rng: &mut Rng, meta: &mut Meta) {
    use tera::verif::chunk_listings;
    let thorough = args.tier == "thorough";
    let hdr = "From TeraV Require Import Model.Value Model.Instr Model.VM Spec.Stmt Corr.CorrC03.";
    let mut csink = Sink::new(&args.out, "compile", hdr, "check_compile");
    csink.shard_cap_set(100);
    let mut rsink = Sink::new(&args.out, "ref", hdr, "check_ref_both");
    rsink.shard_cap_set(40);
    let n_libs = if thorough { 900 } else { 140 };
    let mut rejected = 0usize;
    let mut features_seen: std::collections::BTreeMap<&'static str, usize> = Default::default();
    for k in 0..n_libs {
        let depth = 1 + (k % 3) as u32;
        let lib = if k % 4 == 3 { stmt::chain_library(rng) } else { stmt::library(rng, depth) };
        let srcs: Vec<(String, String)> = lib.iter().map(|(n, b)| (n.clone(), stmt::body_src(b, rng))).collect();
        let mut tera = Tera::default();
        tera.autoescape_on(vec![".html"]);
        if let Err(e) = tera.add_raw_templates(srcs.clone()) {
            // the generator only produces accepted templates: anything else is a generator bug
            rejected += 1;
            meta.oracle_fail(&format!("generated library rejected: {e}"), None, json!({"templates": srcs}));
            continue;
        }
        let mut feats = std::collections::BTreeSet::new();
        for (_, b) in &lib {
            for s in b {
                s.features(&mut feats, 0, 0);
            }
        }
        for f in &feats {
            *features_seen.entry(f).or_default() += 1;
        }
        // ---- compile: every template body vs the real pre-optimisation listing
        for ((name, b), (_, src)) in lib.iter().zip(&srcs) {
            let Ok(ls) = chunk_listings(name, src, tera::Delimiters::default()) else { continue };
            let Some(main) = ls.iter().find(|c| c.id == "main") else { continue };
            let g = format!("{{| cc_body := {}; cc_impl := {} |}}", stmt::body_gal(b), gal_code(&main.before));
            let jumps = main.before.iter().filter(|(i, _)| matches!(i.op, "Jump" | "PopJumpIfFalse" | "Iterate" | "JumpIfFalseOrPop" | "JumpIfTrueOrPop")).count();
            let desc = json!({"source": src, "instructions": main.before.len(), "jumps": jumps});
            csink.push(g, desc, jumps >= 2, None, &[if jumps >= 2 { "jumps>=2" } else { "jumps<2" }]);
        }
        // ---- ref: render the entry under 1-2 context pairs
        let glib = format!(
            "[{}]",
            lib.iter()
                .map(|(n, b)| format!(
                    "{{| td_name := {}; td_autoescape := {}; td_body := {} |}}",
                    gal_str(n),
                    gal_bool(n.ends_with(".html")),
                    stmt::body_gal(b)
                ))
                .collect::<Vec<_>>()
                .join("; ")
        );
        let libname = glib; // inlined: replays evaluate the case term on its own
        for _ in 0..(if thorough { 2 } else { 1 }) {
            let (ctx, glob) = stmt::contexts(rng);
            let c = to_context(&ctx);
            *tera.global_context() = to_context(&glob);
            let entry = &lib[0].0;
            let r = guarded(|| tera.render(entry, &c));
            meta.oracle_checks += 1;
            if let Outcome::Panic(msg) = &r {
                meta.oracle_fail(&format!("panic: {msg}"), None, json!({"templates": srcs, "entry": entry}));
            }
            let g = format!(
                "{{| rc_lib := {}; rc_entry := {}; rc_ctx := {}; rc_global := {}; rc_impl := {} |}}",
                libname, gal_str(entry), gal_ctx(&ctx), gal_ctx(&glob), r.gal(|s| gal_str(s))
            );
            let shadow: Vec<&String> = ctx.iter().map(|x| &x.0).filter(|n| glob.iter().any(|g| &&g.0 == n)).collect();
            let desc = json!({"templates": srcs, "entry": entry, "global": glob.iter().map(|x| x.0.clone()).collect::<Vec<_>>(),
                "context_and_global_bind": shadow, "features": feats, "impl": r.json(|s| json!(s))});
            let total: usize = lib.iter().map(|(_, b)| b.iter().map(|s| s.count()).sum::<usize>()).sum();
            let nontrivial = matches!(&r, Outcome::Ok(s) if s.chars().count() > 3) && total >= 5;
            let tag = match &r { Outcome::Ok(_) => "impl:ok", Outcome::Err(..) => "impl:err", Outcome::Panic(_) => "impl:panic" };
            rsink.push(g, desc, nontrivial, None, &[tag]);
        }
    }
    // ---- compile, extended expression forms (binary operators, unary minus, ternary, ...): bodies
    // whose expressions also use the forms Model/Compile.v ports beyond the language of family `ref`
    // (World0 has no arithmetic, so these are compared as listings only). Generated after the shared
    // stream so that the cases above are unchanged.
    let n_ext = if thorough { 700 } else { 160 };
    let mut ext_forms: std::collections::BTreeMap<&'static str, usize> = Default::default();
    for k in 0..n_ext {
        let depth = 1 + (k % 3) as u32;
        let sc = stmt::Scope::top_ext(vec![], if k % 4 == 0 { 1 } else { 2 });
        let b = stmt::body(rng, depth, &sc);
        let src = stmt::body_src(&b, rng);
        let name = if k % 2 == 0 { "x.html" } else { "x.txt" };
        let ls = match chunk_listings(name, &src, tera::Delimiters::default()) {
            Ok(ls) => ls,
            Err(e) => {
                rejected += 1;
                meta.oracle_fail(&format!("generated body rejected: {e}"), None, json!({"source": src}));
                continue;
            }
        };
        let Some(main) = ls.iter().find(|c| c.id == "main") else { continue };
        let mut forms = std::collections::BTreeSet::new();
        for s in &b {
            s.forms(&mut forms);
        }
        for f in &forms {
            *ext_forms.entry(f).or_default() += 1;
        }
        let g = format!("{{| cc_body := {}; cc_impl := {} |}}", stmt::body_gal(&b), gal_code(&main.before));
        let jumps = main.before.iter().filter(|(i, _)| matches!(i.op, "Jump" | "PopJumpIfFalse" | "Iterate" | "JumpIfFalseOrPop" | "JumpIfTrueOrPop")).count();
        let desc = json!({"source": src, "instructions": main.before.len(), "jumps": jumps, "forms": forms});
        let mut tags: Vec<&str> = vec![if jumps >= 2 { "jumps>=2" } else { "jumps<2" }, if forms.is_empty() { "ext:none" } else { "ext" }];
        tags.extend(forms.iter().copied());
        csink.push(g, desc, jumps >= 2 && !forms.is_empty(), None, &tags);
    }
    meta.extra.insert("compile_ext_forms".into(), json!(ext_forms));
    meta.extra.insert("stmt_libraries_rejected".into(), json!(rejected));
    meta.extra.insert("stmt_features".into(), json!(features_seen));
    meta.families.push(csink.finish());
    meta.families.push(rsink.finish());
}

fn main() {
    let args = parse_args();
    silence_panics();
    let thorough = args.tier == "thorough";
    let mut rng = Rng::new(args.seed);
    let mut meta = Meta::default();
    let hdr = "From TeraV Require Import Model.Value Model.Instr Model.VM Corr.CorrVM.";
    let mut sink = Sink::new(&args.out, "vm", hdr, "check_vm");
    sink.shard_cap_set(120);
    let ctxs = contexts();

    // ---- single templates
    let hand = [
        "{% for i in b %}{{ loop.index }}/{{ loop.length }}{{ loop.first }}{{ loop.last }}:{{ i.x }}{% else %}none{% endfor %}",
        "{% for i in b %}{% if i.x is undefined %}{% continue %}{% endif %}{{ i.x }}{% if loop.index0 == 1 %}{% break %}{% endif %}{% endfor %}",
        "{% for i in b %}{% set t = i.x %}{% for j in b %}{{ t }}{% set t = 0 %}{{ t }}{% endfor %}{{ t }}{% endfor %}{{ t | default(value=\"gone\") }}",
        "{% set s %}x{{ c }}y{% endset %}{{ s }}|{{ s | upper }}",
        "{% filter upper %}a{{ c }}{% for i in b %}{{ i.x }}{% endfor %}{% endfilter %}",
        "{% set_global g = 1 %}{% for i in b %}{% set_global g = i.x %}{% set l = 1 %}{% endfor %}{{ g }}{{ l | default(value=\"nol\") }}",
        "{{ a.x.y.z }}{{ a.y }}{{ b[0].x }}{{ b[-1].x | default(value=\"d\") }}{{ a[\"y\"] }}",
        "{{ c and a.y }}|{{ c or a.y }}|{{ not c }}|{{ a.y if c else b }}",
        "{% for ch in a %}[{{ ch }}]{% endfor %}",
        "{% for k, v in c %}{{ k }}={{ v }}{% endfor %}",
        "{{ [i.x for i in b if i.y] }}{{ [1, c, a.y] }}{{ {\"k\": c} }}",
        "{{ __tera_context }}",
        "{% if c %}T{% elif a.y %}E{% else %}F{% endif %}",
        "{{ u }}",
        "{{ u.x }}",
        "{{ a.nope.x }}",
        "{{ a?.nope?.x is defined }}{{ u?.x is undefined }}",
        "{{ c ~ a.y ~ 1 }}",
        "{{ (b if c else a)[0] }}|{{ (c or a)[\"y\"] }}",
        "{{ c in b }}{{ \"r\" in b }}{{ \"x\" in c }}",
        "{% set m = {\"x\": nope} %}[{{ m.x }}]",
    ];
    let mut singles: Vec<(String, String)> = hand.iter().enumerate().map(|(i, s)| (format!("hand#{i}"), s.to_string())).collect();
    let n_gen = if thorough { 450 } else { 110 };
    for k in 0..n_gen {
        singles.push((format!("gen#{k}"), gen_tpl::template(&mut rng, 1 + (k % 3) as u32)));
    }
    let mut skipped_subset = 0usize;
    for (label, src) in &singles {
        for name in ["t.html", "t.txt"] {
            let mut tera = Tera::default();
            tera.autoescape_on(vec![".html"]);
            if tera.add_raw_template(name, src).is_err() {
                continue;
            }
            let Some(tl) = template_listing(&tera, name) else { continue };
            if !in_w0_subset(&tl.chunk) {
                skipped_subset += 1;
                continue;
            }
            let root: Listing = tl.chunk.clone();
            let gt = gal_template(&tl, &root);
            let tname = format!("tp_{:x}", fnv_pub(&gt));
            let defs = vec![(tname.clone(), gt.clone())];
            let nctx = if label.starts_with("hand") || thorough { ctxs.len() } else { 3 };
            for (cname, c) in ctxs.iter().cycle().skip(rng.below(ctxs.len())).take(nctx) {
                if !ctx_in_subset(c) {
                    continue;
                }
                let ctx = to_context(c);
                let r = guarded(|| tera.render(name, &ctx));
                meta.oracle_checks += 1;
                if let Outcome::Panic(msg) = &r {
                    meta.oracle_fail(&format!("panic: {msg}"), None, json!({"source": src, "context": cname}));
                }
                let g = format!(
                    "{{| v_templates := [({}, {})]; v_entry := {}; v_block := None; v_ctx := {}; v_global := []; v_impl := {} |}}",
                    gal_str(name), tname, gal_str(name), gal_ctx(c), r.gal(|s| gal_str(s))
                );
                let desc = json!({"kind": "single", "label": label, "name": name, "source": src, "context": cname,
                    "impl": r.json(|s| json!(s))});
                let nontrivial = matches!(&r, Outcome::Ok(s) if s.len() > 2) && tl.chunk.len() >= 6;
                let tag = match &r { Outcome::Ok(_) => "impl:ok", Outcome::Err(..) => "impl:err", Outcome::Panic(_) => "impl:panic" };
                sink.push_with_defs(&defs, g, desc, nontrivial, None, &[tag, "single"]);
            }
        }
    }

    // ---- template sets: inheritance, includes, render and render_block
    let n_sets = if thorough { 40 } else { 18 };
    // include chains of depth 2-4 (statement-tree generator, printed as source); the innermost
    // template additionally reads the includers' loop counter through its reserved name
    let n_chain_sets = if thorough { 60 } else { 10 };
    let mut chain_sets_rejected = 0usize;
    for k in 0..(n_sets + n_chain_sets) {
        let set = if k < n_sets {
            gen_set(&mut rng, k)
        } else {
            let lib = stmt::chain_library(&mut rng);
            let mut templates: Vec<(String, String)> = lib.iter().map(|(n, b)| (n.clone(), stmt::body_src(b, &mut rng))).collect();
            if rng.chance(1, 2) {
                templates.last_mut().unwrap().1.push_str("{{ __tera_loop_index | default(value=\"-\") }}{{ __tera_loop_length | default(value=\"-\") }}");
            }
            SetCase { label: format!("chain#{k}"), templates }
        };
        let mut tera = Tera::default();
        tera.autoescape_on(vec![".html"]);
        if tera.add_raw_templates(set.templates.clone()).is_err() {
            if set.label.starts_with("chain") {
                chain_sets_rejected += 1;
            }
            continue;
        }
        let names: Vec<String> = set.templates.iter().map(|(n, _)| n.clone()).collect();
        let mut listings = Vec::new();
        let mut ok = true;
        for n in &names {
            match template_listing(&tera, n) {
                Some(tl) => {
                    if !in_w0_subset(&tl.chunk) || tl.lineage.iter().any(|(_, cs)| cs.iter().any(|c| !in_w0_subset(c))) {
                        ok = false;
                    }
                    listings.push(tl)
                }
                None => ok = false,
            }
        }
        if !ok {
            skipped_subset += 1;
            continue;
        }
        let gtpls: Vec<String> = listings
            .iter()
            .map(|tl| {
                let root = listings.iter().find(|x| x.name == tl.root).map(|x| x.chunk.clone()).unwrap_or_else(|| tl.chunk.clone());
                format!("({}, {})", gal_str(&tl.name), gal_template(tl, &root))
            })
            .collect();
        let gworld_term = format!("[{}]", gtpls.join("; "));
        let gworld = format!("wd_{:x}", fnv_pub(&gworld_term));
        let defs = vec![(gworld.clone(), gworld_term)];
        let set_ctxs: Vec<(String, Vec<(String, Value)>)> = if set.label.starts_with("chain") {
            vec![("stmt".to_string(), stmt::contexts(&mut rng).0)]
        } else {
            ctxs.iter().take(if thorough { ctxs.len() } else { 3 }).cloned().collect()
        };
        for (cname, c) in set_ctxs.iter() {
            let ctx = to_context(c);
            for tl in &listings {
                let mut targets: Vec<Option<String>> = vec![None];
                for (b, _) in &tl.lineage {
                    targets.push(Some(b.clone()));
                }
                for blk in targets {
                    let r = match &blk {
                        None => guarded(|| tera.render(&tl.name, &ctx)),
                        Some(b) => guarded(|| tera.render_block(&tl.name, b, &ctx)),
                    };
                    meta.oracle_checks += 1;
                    if let Outcome::Panic(msg) = &r {
                        meta.oracle_fail(&format!("panic: {msg}"), None, json!({"set": set.templates, "entry": tl.name, "block": blk}));
                    }
                    let g = format!(
                        "{{| v_templates := {}; v_entry := {}; v_block := {}; v_ctx := {}; v_global := []; v_impl := {} |}}",
                        gworld, gal_str(&tl.name), gal_opt(&blk, |b| gal_str(b)), gal_ctx(c), r.gal(|s| gal_str(s))
                    );
                    let desc = json!({"kind": "set", "label": set.label, "templates": set.templates, "entry": tl.name,
                        "block": blk, "context": cname, "impl": r.json(|s| json!(s))});
                    let tag = match &r { Outcome::Ok(_) => "impl:ok", Outcome::Err(..) => "impl:err", Outcome::Panic(_) => "impl:panic" };
                    let kf = if blk.as_deref() == Some("b") { Some("render_block:block-inside-capture") } else { None };
                    sink.push_with_defs(&defs, g, desc, matches!(&r, Outcome::Ok(s) if s.len() > 4), kf, &[tag, "set", if blk.is_some() { "render_block" } else { "render" }]);
                }
            }
        }
    }
    meta.extra.insert("skipped_outside_modelled_subset".into(), json!(skipped_subset));
    meta.extra.insert("chain_sets_rejected".into(), json!(chain_sets_rejected));
    meta.families.push(sink.finish());
    stmt_families(&args, &mut rng, &mut meta);
    // family vm1: the same VM model in the full world (Model/World1.v); its own generator stream
    let mut rng1 = Rng::new(args.seed ^ 0x5eed_0001);
    vm1::run(&args, &mut rng1, &mut meta);
    meta.write(&args.out);
}
