//! Common parts of the correspondence harness: PRNG, value pools, printing of tera values as
//! Gallina terms of `TeraV.Model.Value`, case sinks (sharded `cases_NN.v` + `cases.jsonl`).
#![allow(clippy::all)]

use std::fmt::Write as _;
use std::io::Write as _;
use std::path::{Path, PathBuf};
use std::sync::Mutex;

use serde_json::json;
use tera::value::Key;
use tera::{Context, Map, Tera, Value};

pub mod pools;
pub mod corpus;
pub mod gen_tpl;
pub mod galvm;

// ---------------------------------------------------------------- PRNG (splitmix64)

#[derive(Clone)]
pub struct Rng(pub u64);

impl Rng {
    pub fn new(seed: u64) -> Self {
        Rng(seed ^ 0x9E37_79B9_7F4A_7C15)
    }
    pub fn next(&mut self) -> u64 {
        self.0 = self.0.wrapping_add(0x9E37_79B9_7F4A_7C15);
        let mut z = self.0;
        z = (z ^ (z >> 30)).wrapping_mul(0xBF58_476D_1CE4_E5B9);
        z = (z ^ (z >> 27)).wrapping_mul(0x94D0_49BB_1331_11EB);
        z ^ (z >> 31)
    }
    pub fn below(&mut self, n: usize) -> usize {
        if n == 0 { 0 } else { (self.next() % n as u64) as usize }
    }
    pub fn chance(&mut self, num: u64, den: u64) -> bool {
        self.next() % den < num
    }
    pub fn pick<'a, T>(&mut self, xs: &'a [T]) -> &'a T {
        &xs[self.below(xs.len())]
    }
    pub fn range(&mut self, lo: i64, hi: i64) -> i64 {
        lo + (self.next() % ((hi - lo + 1) as u64)) as i64
    }
}

// ---------------------------------------------------------------- CLI

pub struct Args {
    pub tier: String,
    pub seed: u64,
    pub out: PathBuf,
    pub replay: Option<PathBuf>,
    pub extra: Vec<String>,
}

pub fn parse_args() -> Args {
    let mut a = Args {
        tier: "quick".into(),
        seed: 1,
        out: PathBuf::from(".cache/run"),
        replay: None,
        extra: vec![],
    };
    let mut it = std::env::args().skip(1);
    while let Some(x) = it.next() {
        match x.as_str() {
            "--tier" => a.tier = it.next().expect("tier"),
            "--seed" => a.seed = it.next().expect("seed").parse().expect("seed int"),
            "--out" => a.out = PathBuf::from(it.next().expect("out")),
            "--replay" => a.replay = Some(PathBuf::from(it.next().expect("replay"))),
            _ => a.extra.push(x),
        }
    }
    a
}

// ---------------------------------------------------------------- Gallina printing

pub fn gal_z(z: i128) -> String {
    if z < 0 { format!("({z})") } else { format!("{z}") }
}
pub fn gal_zu(z: u128) -> String {
    format!("{z}")
}

pub fn gal_str(s: &str) -> String {
    gal_nlist(s.chars().map(|c| c as u32 as u64))
}

pub fn gal_nlist(it: impl Iterator<Item = u64>) -> String {
    let mut out = String::from("[");
    let mut first = true;
    for n in it {
        if !first {
            out.push(';');
        }
        first = false;
        let _ = write!(out, "{n}");
    }
    out.push_str("]%N");
    out
}

pub fn gal_bytes(b: &[u8]) -> String {
    gal_nlist(b.iter().map(|x| *x as u64))
}

pub fn gal_bool(b: bool) -> &'static str {
    if b { "true" } else { "false" }
}

/// f64 as a `spec_float` (binary64: prec 53, emax 1024).
pub fn gal_f64(x: f64) -> String {
    let bits = x.to_bits();
    let sign = bits >> 63 == 1;
    let exp = ((bits >> 52) & 0x7ff) as i64;
    let frac = bits & ((1u64 << 52) - 1);
    let s = gal_bool(sign);
    if exp == 0x7ff {
        if frac == 0 { format!("(S754_infinity {s})") } else { "S754_nan".to_string() }
    } else if exp == 0 {
        if frac == 0 {
            format!("(S754_zero {s})")
        } else {
            format!("(S754_finite {s} {frac}%positive (-1074))")
        }
    } else {
        let m = frac | (1u64 << 52);
        let e = exp - 1075;
        format!("(S754_finite {s} {m}%positive {})", gal_z(e as i128))
    }
}

pub fn gal_key(k: &Key) -> String {
    match k {
        Key::Bool(b) => format!("(KBool {})", gal_bool(*b)),
        Key::U64(v) => format!("(KInt U64 {})", gal_zu(*v as u128)),
        Key::I64(v) => format!("(KInt I64 {})", gal_z(*v as i128)),
        Key::U128(v) => format!("(KInt U128 {})", gal_zu(*v)),
        Key::I128(v) => format!("(KInt I128 {})", gal_z(*v)),
        Key::String(s) => format!("(KStr {} true)", gal_str(s)),
        Key::Str(s) => format!("(KStr {} false)", gal_str(s)),
        _ => panic!("unknown key kind"),
    }
}

/// Sorted (by the debug text of the key) so that HashMap iteration order never reaches Coq.
pub fn sorted_entries(m: &Map) -> Vec<(&Key<'static>, &Value)> {
    let mut v: Vec<_> = m.iter().collect();
    v.sort_by(|a, b| a.0.cmp(b.0));
    v
}

pub fn gal_value(v: &Value) -> String {
    use tera::value::ValueKind as K;
    match v.kind() {
        K::Undefined => "VUndef".into(),
        K::None => "VNone".into(),
        K::Bool => format!("(VBool {})", gal_bool(v.as_bool().unwrap())),
        K::U64 => format!("(VInt U64 {})", gal_zu(v.as_u128().unwrap())),
        K::I64 => format!("(VInt I64 {})", gal_z(v.as_i128().unwrap())),
        K::U128 => format!("(VInt U128 {})", gal_zu(v.as_u128().unwrap())),
        K::I128 => format!("(VInt I128 {})", gal_z(v.as_i128().unwrap())),
        K::F64 => format!("(VFloat {})", gal_f64(v.as_f64().unwrap())),
        K::String => format!(
            "(VStr {} {})",
            gal_str(v.as_str().unwrap()),
            gal_bool(v.is_safe())
        ),
        K::Array => {
            let parts: Vec<String> = v.as_array().unwrap().iter().map(gal_value).collect();
            format!("(VArr [{}])", parts.join("; "))
        }
        K::Map => {
            let parts: Vec<String> = sorted_entries(v.as_map().unwrap())
                .into_iter()
                .map(|(k, x)| format!("({}, {})", gal_key(k), gal_value(x)))
                .collect();
            format!("(VMap [{}])", parts.join("; "))
        }
        K::Bytes => format!("(VBytes {})", gal_bytes(v.as_bytes().unwrap())),
        _ => panic!("unknown value kind"),
    }
}

pub fn gal_opt<T>(o: &Option<T>, f: impl Fn(&T) -> String) -> String {
    match o {
        None => "None".into(),
        Some(x) => format!("(Some {})", f(x)),
    }
}

/// JSON description of a value for evidence samples and replays (lossless enough to rebuild).
pub fn json_value(v: &Value) -> serde_json::Value {
    use tera::value::ValueKind as K;
    match v.kind() {
        K::Undefined => json!({"undefined": null}),
        K::None => json!({"none": null}),
        K::Bool => json!({"bool": v.as_bool().unwrap()}),
        K::U64 => json!({"u64": v.as_u128().unwrap().to_string()}),
        K::I64 => json!({"i64": v.as_i128().unwrap().to_string()}),
        K::U128 => json!({"u128": v.as_u128().unwrap().to_string()}),
        K::I128 => json!({"i128": v.as_i128().unwrap().to_string()}),
        K::F64 => json!({"f64bits": format!("{:#018x}", v.as_f64().unwrap().to_bits())}),
        K::String => json!({"str": v.as_str().unwrap(), "safe": v.is_safe()}),
        K::Array => json!({"arr": v.as_array().unwrap().iter().map(json_value).collect::<Vec<_>>()}),
        K::Map => json!({"map": sorted_entries(v.as_map().unwrap()).into_iter()
            .map(|(k, x)| json!([format!("{k:?}"), json_value(x)])).collect::<Vec<_>>()}),
        K::Bytes => json!({"bytes": v.as_bytes().unwrap()}),
        _ => json!("?"),
    }
}

/// Rebuild a value from `json_value` output (used by --replay).
pub fn value_from_json(j: &serde_json::Value) -> Value {
    let o = j.as_object().expect("value object");
    if o.contains_key("undefined") {
        return Value::undefined();
    }
    if o.contains_key("none") {
        return Value::none();
    }
    if let Some(b) = o.get("bool") {
        return Value::from(b.as_bool().unwrap());
    }
    if let Some(s) = o.get("u64") {
        return Value::from(s.as_str().unwrap().parse::<u64>().unwrap());
    }
    if let Some(s) = o.get("i64") {
        return Value::from(s.as_str().unwrap().parse::<i64>().unwrap());
    }
    if let Some(s) = o.get("u128") {
        return Value::from(s.as_str().unwrap().parse::<u128>().unwrap());
    }
    if let Some(s) = o.get("i128") {
        return Value::from(s.as_str().unwrap().parse::<i128>().unwrap());
    }
    if let Some(s) = o.get("f64bits") {
        let bits = u64::from_str_radix(s.as_str().unwrap().trim_start_matches("0x"), 16).unwrap();
        return Value::from(f64::from_bits(bits));
    }
    if let Some(s) = o.get("str") {
        let safe = o.get("safe").and_then(|b| b.as_bool()).unwrap_or(false);
        return if safe {
            Value::safe_string(s.as_str().unwrap())
        } else {
            Value::normal_string(s.as_str().unwrap())
        };
    }
    if let Some(a) = o.get("arr") {
        return Value::from(a.as_array().unwrap().iter().map(value_from_json).collect::<Vec<_>>());
    }
    if let Some(b) = o.get("bytes") {
        let v: Vec<u8> = b.as_array().unwrap().iter().map(|x| x.as_u64().unwrap() as u8).collect();
        return Value::bytes(v);
    }
    panic!("cannot rebuild {j}");
}

// ---------------------------------------------------------------- implementation results

/// Canonical outcome of running the implementation on one case.
#[derive(Clone, Debug, PartialEq)]
pub enum Outcome<T> {
    Ok(T),
    /// `ErrorKind` class: "render", "syntax", "msg", "io", ...
    Err(String, String),
    Panic(String),
}

pub fn err_class(e: &tera::Error) -> String {
    use tera::ErrorKind as E;
    match e.kind() {
        E::RenderingError(_) => "render".into(),
        E::SyntaxError(_) => "syntax".into(),
        E::Msg(_) => "msg".into(),
        E::Io(_) => "io".into(),
        other => {
            let d = format!("{other:?}");
            d.split(|c: char| !c.is_alphanumeric()).next().unwrap_or("other").to_lowercase()
        }
    }
}

/// Run `f` catching panics (the panic message is kept; the default hook is silenced by
/// `silence_panics`).
pub fn guarded<T>(f: impl FnOnce() -> Result<T, tera::Error>) -> Outcome<T> {
    match std::panic::catch_unwind(std::panic::AssertUnwindSafe(f)) {
        Ok(Ok(v)) => Outcome::Ok(v),
        Ok(Err(e)) => Outcome::Err(err_class(&e), format!("{e}")),
        Err(p) => {
            let msg = if let Some(s) = p.downcast_ref::<String>() {
                s.clone()
            } else if let Some(s) = p.downcast_ref::<&str>() {
                s.to_string()
            } else {
                "panic".to_string()
            };
            Outcome::Panic(msg)
        }
    }
}

pub fn silence_panics() {
    std::panic::set_hook(Box::new(|_| {}));
}

impl<T> Outcome<T> {
    /// Gallina `res` term; error classes: render -> ErrRender, msg -> ErrMsg, io -> ErrIo,
    /// panic -> ErrPanic, anything else -> ErrOther.
    pub fn gal(&self, f: impl Fn(&T) -> String) -> String {
        match self {
            Outcome::Ok(v) => format!("(ROk {})", f(v)),
            Outcome::Err(c, _) => match c.as_str() {
                "render" => "(RErr ErrRender)".into(),
                "msg" => "(RErr ErrMsg)".into(),
                "io" => "(RErr ErrIo)".into(),
                _ => "(RErr ErrOther)".into(),
            },
            Outcome::Panic(_) => "(RErr ErrPanic)".into(),
        }
    }
    pub fn json(&self, f: impl Fn(&T) -> serde_json::Value) -> serde_json::Value {
        match self {
            Outcome::Ok(v) => json!({"ok": f(v)}),
            Outcome::Err(c, m) => json!({"err": c, "msg": m}),
            Outcome::Panic(m) => json!({"panic": m}),
        }
    }
    pub fn is_panic(&self) -> bool {
        matches!(self, Outcome::Panic(_))
    }
}

// ---------------------------------------------------------------- value probe

static PROBE: Mutex<Vec<Value>> = Mutex::new(Vec::new());

/// Registers a filter `probe` that records its receiver (any kind, undefined included) and
/// prints nothing. `take_probe` returns what was recorded since the last call.
pub fn register_probe(tera: &mut Tera) {
    tera.register_filter("probe", |v: Value, _: tera::Kwargs, _: &tera::State| {
        PROBE.lock().unwrap().push(v);
        Value::from("")
    });
}

pub fn take_probe() -> Vec<Value> {
    std::mem::take(&mut *PROBE.lock().unwrap())
}

/// Renders `{{ <expr> | probe }}` and returns the probed value.
pub fn eval_expr(tera: &Tera, expr: &str, ctx: &Context) -> Outcome<Value> {
    take_probe();
    let src = format!("{{{{ ({expr}) | probe }}}}");
    let r = guarded(|| tera.render_str(&src, ctx, false));
    match r {
        Outcome::Ok(_) => {
            let mut p = take_probe();
            match p.pop() {
                Some(v) => Outcome::Ok(v),
                None => Outcome::Err("noprobe".into(), "probe did not run".into()),
            }
        }
        Outcome::Err(c, m) => Outcome::Err(c, m),
        Outcome::Panic(m) => Outcome::Panic(m),
    }
}

// ---------------------------------------------------------------- case sink

/// Collects cases for one correspondence family (one `Corr/*.v` checker function) and
/// writes them as sharded Coq files plus a `cases.jsonl` with the human-readable side.
pub struct Sink {
    dir: PathBuf,
    family: String,
    header: String,
    check_fn: String,
    shard_cap: usize,
    cur: Vec<String>,
    cur_defs: Vec<(String, String)>,
    shard_no: usize,
    pub count: usize,
    jsonl: std::fs::File,
    seen: std::collections::HashSet<u64>,
    pub distinct: usize,
    pub nontrivial: usize,
    pub samples: Vec<serde_json::Value>,
    pub tags: std::collections::BTreeMap<String, usize>,
}

pub fn fnv_pub(s: &str) -> u64 {
    fnv(s)
}

fn fnv(s: &str) -> u64 {
    let mut h: u64 = 0xcbf29ce484222325;
    for b in s.bytes() {
        h ^= b as u64;
        h = h.wrapping_mul(0x100000001b3);
    }
    h
}

impl Sink {
    /// `header`: the `Require Import` line(s); `check_fn`: `case -> bool` in that module.
    pub fn new(dir: &Path, family: &str, header: &str, check_fn: &str) -> Self {
        std::fs::create_dir_all(dir).expect("mkdir");
        let jsonl = std::fs::File::create(dir.join(format!("{family}.jsonl"))).expect("jsonl");
        Sink {
            dir: dir.to_path_buf(),
            family: family.to_string(),
            header: header.to_string(),
            check_fn: check_fn.to_string(),
            shard_cap: 250,
            cur: Vec::new(),
            cur_defs: Vec::new(),
            shard_no: 0,
            count: 0,
            jsonl,
            seen: Default::default(),
            distinct: 0,
            nontrivial: 0,
            samples: Vec::new(),
            tags: Default::default(),
        }
    }

    /// `gallina`: the case record term; `desc`: JSON description (input + impl result);
    /// `nontrivial`: by the family's stated rule; `kf`: known-finding key this case belongs
    /// to if it fails; `tags`: distribution counters. Duplicate cases are dropped.
    pub fn push(
        &mut self,
        gallina: String,
        desc: serde_json::Value,
        nontrivial: bool,
        kf: Option<&str>,
        tags: &[&str],
    ) {
        let h = fnv(&gallina);
        if !self.seen.insert(h) {
            return;
        }
        self.distinct += 1;
        if nontrivial {
            self.nontrivial += 1;
        }
        for t in tags {
            *self.tags.entry(t.to_string()).or_default() += 1;
        }
        let rec = json!({"i": self.count, "family": self.family, "shard": self.shard_no,
            "j": self.cur.len(), "kf": kf, "case": desc, "gallina": gallina});
        writeln!(self.jsonl, "{rec}").expect("write jsonl");
        if self.samples.len() < 3 || (nontrivial && self.samples.len() < 6) {
            self.samples.push(desc);
        }
        self.cur.push(gallina);
        self.count += 1;
        if self.cur.len() >= self.shard_cap {
            self.flush();
        }
    }

    /// Like `push`, for cases whose term refers to shared definitions `(name, term)`: each is
    /// emitted once per shard as `Definition name := term.` before the `Eval`.
    pub fn push_with_defs(
        &mut self,
        defs: &[(String, String)],
        gallina: String,
        desc: serde_json::Value,
        nontrivial: bool,
        kf: Option<&str>,
        tags: &[&str],
    ) {
        let before = self.count;
        let full = format!("{}|{}", defs.iter().map(|d| d.1.as_str()).collect::<Vec<_>>().join("|"), gallina);
        let h = fnv(&full);
        if self.seen.contains(&h) {
            return;
        }
        for d in defs {
            if !self.cur_defs.iter().any(|x| x.0 == d.0) {
                self.cur_defs.push(d.clone());
            }
        }
        self.push(gallina, desc, nontrivial, kf, tags);
        if self.count == before {
            return;
        }
        self.seen.insert(h);
    }

    pub fn shard_cap_set(&mut self, n: usize) {
        self.shard_cap = n;
    }

    pub fn flush(&mut self) {
        if self.cur.is_empty() {
            return;
        }
        let path = self.dir.join(format!("cases_{}_{:04}.v", self.family, self.shard_no));
        let mut f = std::fs::File::create(path).expect("shard");
        writeln!(f, "{}", self.header).unwrap();
        for (n, t) in &self.cur_defs {
            writeln!(f, "Definition {n} := {t}.").unwrap();
        }
        self.cur_defs.clear();
        writeln!(f, "Eval vm_compute in mismatches {} [", self.check_fn).unwrap();
        for (i, c) in self.cur.iter().enumerate() {
            let sep = if i + 1 == self.cur.len() { "" } else { ";" };
            writeln!(f, " (* {i} *) {c}{sep}").unwrap();
        }
        writeln!(f, "].").unwrap();
        self.cur.clear();
        self.shard_no += 1;
    }

    pub fn finish(mut self) -> serde_json::Value {
        self.flush();
        json!({"family": self.family, "cases": self.count, "distinct": self.distinct,
            "nontrivial": self.nontrivial, "shards": self.shard_no, "samples": self.samples,
            "tags": self.tags})
    }
}

/// Oracle failures and run metadata, written as `meta.json` for the driver.
#[derive(Default)]
pub struct Meta {
    pub families: Vec<serde_json::Value>,
    pub oracle_failures: Vec<serde_json::Value>,
    pub oracle_checks: usize,
    pub extra: serde_json::Map<String, serde_json::Value>,
}

impl Meta {
    /// An implementation-side oracle failed on `input`: always a violation candidate.
    pub fn oracle_fail(&mut self, what: &str, kf: Option<&str>, input: serde_json::Value) {
        if self.oracle_failures.len() < 200 {
            self.oracle_failures.push(json!({"what": what, "kf": kf, "input": input}));
        }
    }
    pub fn write(self, dir: &Path) {
        std::fs::create_dir_all(dir).expect("mkdir");
        let j = json!({"families": self.families, "oracle_failures": self.oracle_failures,
            "oracle_checks": self.oracle_checks, "extra": self.extra});
        std::fs::write(dir.join("meta.json"), serde_json::to_string_pretty(&j).unwrap())
            .expect("meta");
    }
}
