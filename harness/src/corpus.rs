//! The snapshot corpus of Keats/tera as single template sources.
use std::path::Path;

fn walk(dir: &Path, out: &mut Vec<std::path::PathBuf>) {
    if let Ok(rd) = std::fs::read_dir(dir) {
        let mut ents: Vec<_> = rd.flatten().map(|e| e.path()).collect();
        ents.sort();
        for p in ents {
            if p.is_dir() {
                walk(&p, out);
            } else if p.extension().map_or(false, |e| e == "txt") {
                out.push(p);
            }
        }
    }
}

/// (label, source) for every template of every `*.txt` under tera/src/snapshot_tests; files in
/// the `$$ name` multi-template format are split.
pub fn corpus_templates() -> Vec<(String, String)> {
    let root = Path::new("/repo/tera/src/snapshot_tests");
    let mut files = Vec::new();
    walk(root, &mut files);
    let mut out = Vec::new();
    for f in files {
        let Ok(body) = std::fs::read_to_string(&f) else { continue };
        let body = body.replace("\r\n", "\n");
        let label = f.strip_prefix(root).unwrap().to_string_lossy().to_string();
        if body.starts_with("$$ ") || body.contains("\n$$ ") {
            for (k, part) in body.split("$$ ").skip(1).enumerate() {
                let mut chars = part.chars();
                let name: String = chars.by_ref().take_while(|&c| c != '\n').collect();
                let content = chars.collect::<String>().trim().to_string();
                out.push((format!("{label}#{k}:{name}"), content));
            }
        } else {
            out.push((label, body));
        }
    }
    out
}

/// Multi-template sets of the corpus: (label, [(name, source)]).
pub fn corpus_sets() -> Vec<(String, Vec<(String, String)>)> {
    let root = Path::new("/repo/tera/src/snapshot_tests");
    let mut files = Vec::new();
    walk(root, &mut files);
    let mut out = Vec::new();
    for f in files {
        let Ok(body) = std::fs::read_to_string(&f) else { continue };
        let body = body.replace("\r\n", "\n");
        let label = f.strip_prefix(root).unwrap().to_string_lossy().to_string();
        if body.starts_with("$$ ") || body.contains("\n$$ ") {
            let mut set = Vec::new();
            for part in body.split("$$ ").skip(1) {
                let mut chars = part.chars();
                let name: String = chars.by_ref().take_while(|&c| c != '\n').collect();
                let content = chars.collect::<String>().trim().to_string();
                set.push((name, content));
            }
            out.push((label, set));
        }
    }
    out
}
