//! Input generators of the C06 harness (included by src/bin/c06.rs).
use serde_json::{Value as J, json};
use tvh::Rng;

pub struct Input {
    pub stream: &'static str,
    pub class: String,
    pub name: String,
    pub src: String,
    pub delims: Option<Vec<String>>,
    pub delims_valid: Option<bool>,
    /// other templates registered in the same call (parents, include targets)
    pub set: Vec<(String, String)>,
    /// how to rebuild `src` when it is too long to be stored
    pub recipe: J,
}

impl Input {
    pub fn new(stream: &'static str, class: impl Into<String>, src: impl Into<String>) -> Self {
        Input { stream, class: class.into(), name: "t".into(), src: src.into(), delims: None, delims_valid: None, set: Vec::new(), recipe: J::Null }
    }
    pub fn json(&self) -> J {
        let mut j = json!({"name": self.name, "src": self.src});
        if let Some(d) = &self.delims {
            j["d"] = json!(d);
        }
        if !self.set.is_empty() {
            j["set"] = json!(self.set);
        }
        j
    }
    /// Known-finding key of the D11 chain class (only consulted when the input fails).
    pub fn kf(&self) -> Option<&'static str> {
        if DEEP_CHAINS.iter().any(|k| self.class.starts_with(k)) { Some("ast-depth:operator-chain") } else { None }
    }
}

/// chains whose links each wrap the accumulated expression / if-node (left- or right-deep AST)
pub const DEEP_CHAINS: [&str; 17] = [
    "chain:elif", "chain:filter", "chain:attr", "chain:index", "chain:and", "chain:or", "chain:tilde", "chain:plus",
    "chain:minus", "chain:mul", "chain:is", "chain:opt-attr", "chain:opt-index", "chain:cmp", "chain:in", "chain:err-tail",
    "chain:mixed",
];

pub const NEST_KINDS: [&str; 26] = [
    "nest:paren", "nest:bracket", "nest:array", "nest:map", "nest:unary-minus", "nest:unary-not", "nest:unary-paren",
    "nest:not-paren", "nest:ternary-else", "nest:ternary-cond", "nest:pow", "nest:call", "nest:filter-kwarg", "nest:compr",
    "nest:if", "nest:for", "nest:block", "nest:filter", "nest:set", "nest:component", "nest:mixed-tags", "nest:open-if",
    "nest:open-paren", "nest:if-else", "nest:for-else", "nest:component-attr",
];

pub const CHAIN_KINDS: [&str; 33] = [
    "chain:index-on-string", "chain:index-on-int", "chain:index-on-paren", "chain:index-on-array", "chain:slice-on-string", "chain:opt-index-on-string",
    "chain:elif", "chain:filter", "chain:attr", "chain:index", "chain:and", "chain:or", "chain:tilde", "chain:plus",
    "chain:minus", "chain:mul", "chain:is", "chain:opt-attr", "chain:opt-index", "chain:cmp", "chain:in", "chain:err-tail",
    "chain:mixed", "chain:kwargs", "chain:array", "chain:map", "chain:vars", "chain:if-flat", "chain:set-filters",
    "chain:text", "chain:comments", "chain:raw", "chain:component-attrs",
];

fn rep(s: &str, n: usize) -> String {
    s.repeat(n)
}

pub fn build_recipe(r: &J) -> String {
    let kind = r["kind"].as_str().unwrap_or("");
    let n = r["n"].as_u64().unwrap_or(0) as usize;
    match kind {
        "nest:paren" => format!("{{{{ {}1{} }}}}", rep("(", n), rep(")", n)),
        "nest:open-paren" => format!("{{{{ {}1", rep("(", n)),
        "nest:bracket" => format!("{{{{ a{}{} }}}}", rep("[a", n), rep("]", n)),
        "nest:array" => format!("{{{{ {}1{} }}}}", rep("[", n), rep("]", n)),
        "nest:map" => format!("{{{{ {}1{} }}}}", rep("{\"a\": ", n), rep("}", n)),
        "nest:unary-minus" => format!("{{{{ {}1 }}}}", rep("- ", n)),
        "nest:unary-not" => format!("{{{{ {}a }}}}", rep("not ", n)),
        "nest:unary-paren" => format!("{{{{ {}1{} }}}}", rep("-(", n), rep(")", n)),
        "nest:not-paren" => format!("{{{{ {}a{} }}}}", rep("not (", n), rep(")", n)),
        "nest:ternary-else" => format!("{{{{ {}1 }}}}", rep("1 if a else ", n)),
        "nest:ternary-cond" => format!("{{{{ {}a{} }}}}", rep("1 if (", n), rep(") else 1", n)),
        "nest:pow" => format!("{{{{ {}2 }}}}", rep("2 ** ", n)),
        "nest:call" => format!("{{{{ {}1{} }}}}", rep("f(a=", n), rep(")", n)),
        "nest:filter-kwarg" => format!("{{{{ {}1{} }}}}", rep("1 | f(a=", n), rep(")", n)),
        "nest:compr" => format!("{{{{ {}a{} }}}}", rep("[x for x in ", n), rep("]", n)),
        "nest:if" => format!("{}x{}", rep("{% if a %}", n), rep("{% endif %}", n)),
        "nest:if-else" => format!("{}x{}", rep("{% if a %}y{% else %}", n), rep("{% endif %}", n)),
        "nest:open-if" => rep("{% if a %}", n),
        "nest:for" => format!("{}x{}", rep("{% for i in a %}", n), rep("{% endfor %}", n)),
        "nest:for-else" => format!("{}x{}", rep("{% for i in a %}y{% else %}", n), rep("{% endfor %}", n)),
        "nest:block" => {
            let mut s = String::new();
            for i in 0..n {
                s.push_str(&format!("{{% block b{i} %}}"));
            }
            s.push('x');
            s.push_str(&rep("{% endblock %}", n));
            s
        }
        "nest:filter" => format!("{}x{}", rep("{% filter upper %}", n), rep("{% endfilter %}", n)),
        "nest:set" => format!("{}x{}", rep("{% set v %}", n), rep("{% endset %}", n)),
        "nest:component" => format!("{}x{}", rep("{% <C> %}", n), rep("{% </C> %}", n)),
        "nest:component-attr" => format!("{{{{ {}1{} }}}}", rep("<C a={", n), rep("} />", n)),
        "nest:mixed-tags" => {
            let open = ["{% if a %}", "{% for i in a %}", "{% filter upper %}", "{% set v %}", "{% <C> %}"];
            let close = ["{% endif %}", "{% endfor %}", "{% endfilter %}", "{% endset %}", "{% </C> %}"];
            let mut s = String::new();
            for i in 0..n {
                s.push_str(open[i % 5]);
            }
            s.push_str("{{ (1) }}");
            for i in (0..n).rev() {
                s.push_str(close[i % 5]);
            }
            s
        }
        "worst:combined" => {
            // everything at its limit at once: n nested ifs, a 499-elif chain in the innermost, and in its last
            // branch an expression of 36-n nested parentheses around a chain that uses up the expression depth
            let p = 36usize.saturating_sub(n);
            let e = format!("{{{{ {}1{}{} }}}}", rep("(", p), rep(" + 1", 254 - p), rep(")", p));
            format!("{}{{% if a %}}x{}{}{{% endif %}}{}", rep("{% if a %}", n), rep("{% elif a %}y", 499), e, rep("{% endif %}", n))
        }
        "nest:elif-chains" => {
            // n chains of m elifs, each chain written in the body of the LAST elif of the previous one: every
            // chain stays under MAX_ELIF_DEPTH and the tag nesting under MAX_RECURSION_DEPTH, but the parse_if
            // frames accumulate (n x m) unless the elif counter is shared along the nesting path
            let m = r["m"].as_u64().unwrap_or(490) as usize;
            format!("{}y{}", rep(&format!("{{% if a %}}x{}", rep("{% elif a %}x", m)), n), rep("{% endif %}", n))
        }
        "nest:elif-chains-else" => {
            // same, the inner chain sits in the else branch
            let m = r["m"].as_u64().unwrap_or(490) as usize;
            format!("{}y{}", rep(&format!("{{% if a %}}x{}{{% else %}}", rep("{% elif a %}x", m)), n), rep("{% endif %}", n))
        }
        "chain:elif" => format!("{{% if a %}}x{}{{% endif %}}", rep("{% elif a %}y", n)),
        "chain:filter" => format!("{{{{ a{} }}}}", rep(" | upper", n)),
        "chain:attr" => format!("{{{{ a{} }}}}", rep(".b", n)),
        "chain:opt-attr" => format!("{{{{ a{} }}}}", rep("?.b", n)),
        "chain:index" => format!("{{{{ a{} }}}}", rep("[0]", n)),
        // subscripts on a primary that is not an identifier go through the operator loop, not parse_ident
        "chain:index-on-string" => format!("{{{{ \"x\"{} }}}}", rep("[0]", n)),
        "chain:index-on-int" => format!("{{{{ 1{} }}}}", rep("[0]", n)),
        "chain:index-on-paren" => format!("{{{{ (a){} }}}}", rep("[0]", n)),
        "chain:index-on-array" => format!("{{{{ [a]{} }}}}", rep("[0]", n)),
        "chain:slice-on-string" => format!("{{{{ \"x\"{} }}}}", rep("[0:1]", n)),
        "chain:opt-index-on-string" => format!("{{{{ \"x\"{} }}}}", rep("?[0]", n)),
        "chain:opt-index" => format!("{{{{ a{} }}}}", rep("?[0]", n)),
        "chain:and" => format!("{{{{ a{} }}}}", rep(" and a", n)),
        "chain:or" => format!("{{{{ a{} }}}}", rep(" or a", n)),
        "chain:tilde" => format!("{{{{ a{} }}}}", rep(" ~ a", n)),
        "chain:plus" => format!("{{{{ 1{} }}}}", rep(" + 1", n)),
        "chain:minus" => format!("{{{{ 1{} }}}}", rep(" - 1", n)),
        "chain:mul" => format!("{{{{ 1{} }}}}", rep(" * 1", n)),
        "chain:cmp" => format!("{{{{ 1{} }}}}", rep(" == 1", n)),
        "chain:in" => format!("{{{{ 1{} }}}}", rep(" not in a", n)),
        "chain:is" => format!("{{{{ a{} }}}}", rep(" is defined", n)),
        "chain:err-tail" => format!("{{{{ 1{} ] }}}}", rep(" + 1", n)),
        "chain:mixed" => {
            let links = [" + 1", ".b", "[0]", " | upper", " and a", " ~ a", " is defined", " * 2"];
            let mut s = String::from("{{ a");
            for i in 0..n {
                s.push_str(links[i % links.len()]);
            }
            s.push_str(" }}");
            s
        }
        "chain:kwargs" => {
            let mut s = String::from("{{ f(");
            for i in 0..n {
                s.push_str(&format!("k{i}=1, "));
            }
            s.push_str(") }}");
            s
        }
        "chain:array" => format!("{{{{ [{}] }}}}", rep("a, ", n)),
        "chain:map" => {
            let mut s = String::from("{{ {");
            for i in 0..n {
                s.push_str(&format!("\"k{i}\": a, "));
            }
            s.push_str("} }}");
            s
        }
        "chain:vars" => rep("{{ a }}", n),
        "chain:if-flat" => rep("{% if a %}x{% endif %}", n),
        "chain:set-filters" => format!("{{% set v{} %}}x{{% endset %}}", rep(" | upper", n)),
        "chain:text" => rep("lorem ipsum { % } # \n", n),
        "chain:comments" => rep("{# c #}", n),
        "chain:raw" => rep("{% raw %}{{ x }}{% endraw %}", n),
        "chain:component-attrs" => {
            let mut s = String::from("{{ <C ");
            for i in 0..n {
                s.push_str(&format!("a{i}={{1}} "));
            }
            s.push_str("/> }}");
            s
        }
        _ => String::new(),
    }
}

fn recipe_input(stream: &'static str, kind: &str, n: usize) -> Input {
    let r = json!({"kind": kind, "n": n});
    let mut i = Input::new(stream, format!("{kind}:{n}"), build_recipe(&r));
    i.recipe = r;
    i
}

pub fn delimiter_sets() -> Vec<(Vec<String>, bool)> {
    let mk = |v: [&str; 6]| v.iter().map(|s| s.to_string()).collect::<Vec<_>>();
    vec![
        (mk(["{%", "%}", "{{", "}}", "{#", "#}"]), true),
        (mk(["<%", "%>", "<<", ">>", "<#", "#>"]), true),
        (mk(["[%", "%]", "[[", "]]", "[#", "#]"]), true),
        (mk(["«", "»", "‹", "›", "¡", "¿"]), true), // single 2-byte characters (U+00AB, U+00BB, U+2039 is 3 bytes -> invalid, fixed below)
        (mk(["«", "»", "¶", "§", "¡", "¿"]), true),
        (mk(["{-", "-}", "{=", "=}", "{*", "*}"]), true), // contain `-`
        (mk(["--", "--", "-=", "=-", "-#", "#-"]), true),
        (mk(["\"%", "%\"", "\"\"", "''", "'#", "#'"]), true), // quotes
        (mk([" %", "% ", "  ", "\t\t", " #", "# "]), true), // whitespace
        (mk(["{%", "%}", "{{", "}}", "{#", "}}"]), true), // comment end = variable end
        (mk(["ab", "ba", "cd", "dc", "ef", "fe"]), true), // identifier characters
        (mk(["((", "))", "[[", "]]", "{{", "}}"]), true),
        (mk(["%}", "{%", "}}", "{{", "#}", "{#"]), true), // swapped
        (mk(["é", "é", "ü", "ü", "ñ", "ñ"]), true), // start == end, 2-byte characters
        (mk(["{%", "%}", "{%", "}}", "{#", "#}"]), false), // block_start == variable_start
        (mk(["{%", "%}", "{{", "}}", "{%", "#}"]), false),
        (mk(["{%", "%}", "{{", "}}", "{{", "#}"]), false),
        (mk(["", "%}", "{{", "}}", "{#", "#}"]), false),
        (mk(["{%%", "%}", "{{", "}}", "{#", "#}"]), false),
        (mk(["日", "%}", "{{", "}}", "{#", "#}"]), false), // 3 bytes
        (mk(["{%", "%", "{{", "}}", "{#", "#}"]), false),
        (mk(["{%", "%}", "{", "}}", "{#", "#}"]), false),
        (mk(["{%", "%}", "{{", "}}}", "{#", "#}"]), false),
        (mk(["{%", "%}", "{{", "}}", "😀", "#}"]), false), // 4 bytes
        (mk(["{%", "%}", "{{", "}}", "{#", "é#"]), false),
    ]
}

fn with_delims(src: &str, d: &[String]) -> String {
    // rewrite a default-delimiter template into the given delimiters (longest markers first)
    let mut out = String::new();
    let b = src.as_bytes();
    let mut i = 0;
    while i < b.len() {
        let two = src.get(i..i + 2);
        let m = match two {
            Some("{%") => Some(&d[0]),
            Some("%}") => Some(&d[1]),
            Some("{{") => Some(&d[2]),
            Some("}}") => Some(&d[3]),
            Some("{#") => Some(&d[4]),
            Some("#}") => Some(&d[5]),
            _ => None,
        };
        if let Some(m) = m {
            out.push_str(m);
            i += 2;
        } else {
            let c = src[i..].chars().next().unwrap();
            out.push(c);
            i += c.len_utf8();
        }
    }
    out
}

pub fn name_pool() -> Vec<String> {
    vec![
        "".into(), "t".into(), "é日😀".into(), "a/b/../c.html".into(), "/".into(), "\"quoted'\"".into(), "{{ x }}".into(),
        "{% if %}".into(), "{#".into(), "a\nb".into(), "\0".into(), " ".into(), "__tera_one_off".into(), "x".repeat(10 * 1024),
        "ü".repeat(5 * 1024), "a.html\u{202e}".into(),
    ]
}

const BASE_TEMPLATES: [&str; 14] = [
    "a {{ x }} b",
    "{{- x | upper(a=1) -}}",
    "{% if a %}x{% elif b %}y{% else %}z{% endif %}",
    "{% for k, v in a %}{{ loop.index }}{% else %}e{% endfor %}",
    "{# c #}t{#- c -#}",
    "{% raw %}{{ x }}{% endraw %}",
    "{%- raw -%} a {%- endraw -%}",
    "{% set v = [1, \"é\", {\"k\": 2}] %}{{ v[0:2] }}",
    "{% filter upper %}é{% endfilter %}",
    "{% block b %}x{{ super() }}{% endblock b %}",
    "{{ \"s\\n\\\"é\" ~ 'q' ~ `b` }}",
    "{% <C a=\"1\" b={x} {...r}> %}body{% </C> %}{{ <C.D x /> }}",
    "{% component K(a: string = \"é\", ...rest) {\"m\": 1} %}{{ a }}{% endcomponent K %}",
    "{% extends \"p\" %}{% include \"i\" %}",
];

const MB: [&str; 5] = ["é", "日", "😀", "\u{a0}", "\u{301}"];

fn push_mutations(out: &mut Vec<Input>, label: &str, src: &str, rng: &mut Rng, keep_num: u64, keep_den: u64) {
    // every prefix and every single-character deletion (on char boundaries)
    let idx: Vec<usize> = src.char_indices().map(|(i, _)| i).collect();
    for &i in &idx {
        if rng.chance(keep_num, keep_den) {
            out.push(Input::new("corpus-prefix", format!("prefix:{label}:{i}"), &src[..i]));
        }
    }
    for &i in &idx {
        if rng.chance(keep_num, keep_den) {
            let c = src[i..].chars().next().unwrap();
            let mut s = String::with_capacity(src.len());
            s.push_str(&src[..i]);
            s.push_str(&src[i + c.len_utf8()..]);
            out.push(Input::new("corpus-deletion", format!("delete:{label}:{i}"), s));
        }
    }
}

pub const LINE_ENDINGS: [(&str, &str); 9] = [
    ("lf", "\n"), ("crlf", "\r\n"), ("cr", "\r"), ("lfcr", "\n\r"), ("ls", "\u{2028}"), ("nel", "\u{85}"), ("vt", "\u{b}"),
    ("ff", "\u{c}"), ("mixed", ""),
];

fn nl_of(flavour: usize, k: usize) -> &'static str {
    let (name, nl) = LINE_ENDINGS[flavour];
    if name == "mixed" { ["\r", "\n", "\r\n", "\r", "\u{2028}", "\n\r", "\r"][k % 7] } else { nl }
}

/// every "\n" of `src` rewritten in the given flavour (the k-th one matters for `mixed`)
fn rewrite_line_endings(src: &str, flavour: usize) -> String {
    let mut out = String::with_capacity(src.len() + 16);
    let mut k = 0;
    for c in src.chars() {
        if c == '\n' {
            out.push_str(nl_of(flavour, k));
            k += 1;
        } else {
            out.push(c);
        }
    }
    out
}

/// sources whose registration returns an Err that renders a source report:
/// (label, snippet, templates registered with it)
fn report_errors() -> Vec<(&'static str, &'static str, Vec<(&'static str, &'static str)>)> {
    vec![
        ("unknown-filter", "{{ 1 | nope }}", vec![]),
        ("unknown-filter-kwargs", "{{ a | nope(x=1) }}", vec![]),
        ("unknown-test", "{{ 1 is nope }}", vec![]),
        ("unknown-function", "{{ nope() }}", vec![]),
        ("unknown-component", "{{ <Nope /> }}", vec![]),
        ("unknown-component-body", "{% <Nope> %}b{% </Nope> %}", vec![]),
        ("unknown-include", "{% include \"nope\" %}", vec![]),
        ("unknown-filter-section", "{% filter nope %}x{% endfilter %}", vec![]),
        ("unknown-set-filter", "{% set v | nope %}x{% endset %}", vec![]),
        ("unknown-in-if", "{% if a | nope %}x{% endif %}", vec![]),
        ("unknown-in-for", "{% for i in a | nope %}x{% endfor %}", vec![]),
        ("two-unknowns", "{{ 1 | nope }}{{ 2 is nope2 }}", vec![]),
        ("block-not-in-parent", "{% block nope %}x{% endblock %}", vec![("p", "no blocks here")]),
        ("block-not-in-grandparent", "{% block nope %}x{% endblock %}", vec![("p", "{% extends \"g\" %}"), ("g", "g")]),
        ("unknown-in-block", "{% block b %}{{ 1 | nope }}{% endblock %}", vec![("p", "{% block b %}{% endblock %}")]),
        ("unknown-in-component-def", "{% component C() %}{{ 1 | nope }}{% endcomponent %}", vec![]),
        ("syntax-unexpected", "{{ 1 + }}", vec![]),
        ("syntax-eoi", "{{ 1 +", vec![]),
        ("syntax-unknown-tag", "{% nope %}", vec![]),
        ("syntax-unclosed-if", "{% if a %}", vec![]),
        ("syntax-string", "{{ \"abc }}", vec![]),
        ("syntax-char", "{{ $ }}", vec![]),
        ("syntax-comment", "{# never closed", vec![]),
        ("syntax-raw", "{% raw %}never closed", vec![]),
        ("syntax-too-deep", "{{ ((((((((((((((((((((((((((((((((((((((((1)))))))))))))))))))))))))))))))))))))))) }}", vec![]),
        ("syntax-dup-kwarg", "{{ f(a=1, a=2) }}", vec![]),
        ("syntax-dup-block", "{% block b %}{% endblock %}{% block b %}{% endblock %}", vec![]),
        ("syntax-dup-component", "{% component C() %}{% endcomponent %}{% component C() %}{% endcomponent %}", vec![]),
        ("syntax-endblock-name", "{% block a %}{% endblock b %}", vec![]),
        ("syntax-int", "{{ 99999999999999999999 }}", vec![]),
        ("ok-no-error", "{{ 1 | upper }}", vec![]),
    ]
}

/// Line-ending flavours x registration-time errors x position of the error (first / middle / last line)
/// x with or without a final terminator; the filler lines put line breaks before and inside tags,
/// strings and comments.
fn push_line_ending_inputs(out: &mut Vec<Input>, rng: &mut Rng, thorough: bool, corpus: &[(String, String)], hand: &[&str]) {
    let filler = ["text {{ a }} text", "{# a comment\nover two lines #}", "{{ \"a string\nover two lines\" }}",
        "{% if a\n %}x{% endif %}", "{{ a\n | upper\n }}", "{%- set v = 1\n-%}", "last filler"];
    for (label, snippet, set) in report_errors() {
        for (fi, (fname, _)) in LINE_ENDINGS.iter().enumerate() {
            for pos in 0..3usize {
                for final_nl in [false, true] {
                    // quick tier: the final terminator only varies for the error on the last line
                    if !thorough && final_nl && pos != 2 {
                        continue;
                    }
                    let mut lines: Vec<&str> = filler.to_vec();
                    let at = match pos { 0 => 0, 1 => lines.len() / 2, _ => lines.len() };
                    lines.insert(at, snippet);
                    let mut src = lines.join("\n");
                    if final_nl {
                        src.push('\n');
                    }
                    // block / extends sources: the child needs its extends tag first
                    let needs_parent = set.iter().any(|(n, _)| *n == "p");
                    if needs_parent {
                        src = format!("{{% extends \"p\" %}}\n{src}");
                    }
                    let mut i = Input::new("line-endings", format!("nl:{fname}:{label}:pos{pos}:final{}", final_nl as u8), rewrite_line_endings(&src, fi));
                    i.set = set.iter().map(|(n, s)| (n.to_string(), rewrite_line_endings(&format!("l1\n{s}\nl3"), fi))).collect();
                    out.push(i);
                }
            }
            // the minimal shapes: one break, then the error
            let mut i = Input::new("line-endings", format!("nl:{fname}:{label}:min"), format!("a{}{snippet}", nl_of(fi, 0)));
            i.set = set.iter().map(|(n, s)| (n.to_string(), s.to_string())).collect();
            if set.iter().any(|(n, _)| *n == "p") {
                i.src = format!("{{% extends \"p\" %}}{}{snippet}", nl_of(fi, 0));
            }
            out.push(i);
        }
    }
    // every corpus source and every hand-written error source with its line endings rewritten (and two
    // breaks put in front, so that sources without any line break get some)
    for (label, src) in corpus {
        for fi in 1..LINE_ENDINGS.len() {
            if thorough || rng.chance(1, 6) {
                let fname = LINE_ENDINGS[fi].0;
                out.push(Input::new("line-endings", format!("nl:{fname}:corpus:{label}"), rewrite_line_endings(&format!("l1\nl2\n{src}\n"), fi)));
                // ... and followed by a reference that fails at registration
                out.push(Input::new("line-endings", format!("nl:{fname}:corpus+unknown:{label}"), rewrite_line_endings(&format!("{src}\n{{{{ 1 | nope }}}}"), fi)));
            }
        }
    }
    for (k, src) in hand.iter().enumerate() {
        for fi in 0..LINE_ENDINGS.len() {
            if thorough || rng.chance(1, 4) {
                let fname = LINE_ENDINGS[fi].0;
                out.push(Input::new("line-endings", format!("nl:{fname}:hand:{k}"), rewrite_line_endings(&format!("l1\nl2\n{src}\nl4"), fi)));
            }
        }
    }
}

pub fn oracle_inputs(rng: &mut Rng, thorough: bool) -> Vec<Input> {
    let mut out = Vec::new();
    // 0. hand-written corner cases
    let hand: Vec<&str> = vec![
        "", "{", "{{", "{%", "{#", "}}", "%}", "{{ }}", "{% %}", "{{-", "{{--}}", "{%-", "{%- -%}", "{{-}}", "{#-#}", "{#-", "{##}",
        "{{ \"", "{{ '", "{{ `", "{{ \"\\", "{{ \"\\\"", "{{ \"\\x\" }}", "{% raw %}", "{% raw %}{% endraw", "{% raw %}{%", "{%raw%}{%endraw%}",
        "{% raw %}{% endraw %}{% endraw %}", "{%- raw -%}{%- endraw -%}", "{{ 1. }}", "{{ 1.2.3 }}", "{{ .5 }}", "{{ 1e400 }}", "{{ a.1 }}",
        "{{ a[ }}", "{{ a[] }}", "{{ a[:] }}", "{{ a[::] }}", "{{ a[:::] }}", "{{ a[1:2:3:4] }}", "{{ a?[ }}", "{{ a?. }}", "{{ a. }}",
        "{{ - }}", "{{ not }}", "{{ a not }}", "{{ a not b }}", "{{ a is }}", "{{ a is not }}", "{{ a | }}", "{{ f( }}", "{{ f(a) }}",
        "{{ f(a=) }}", "{{ f(a=1,a=2) }}", "{{ f(a=1,,) }}", "{{ [ }}", "{{ [,] }}", "{{ [1,] }}", "{{ [...] }}", "{{ [x for] }}",
        "{{ [x for x in] }}", "{{ [x for x, in a] }}", "{{ [x for x in a for y in b] }}", "{{ { }}", "{{ {1} }}", "{{ {1:} }}", "{{ {...} }}",
        "{{ {1.5: 2} }}", "{{ < }}", "{{ <C }}", "{{ <C> }}", "{{ <C / }}", "{{ <C a= /> }}", "{{ <C a={ /> }}", "{{ <C {... /> }}",
        "{{ <C.> }}", "{% < %}", "{% <C %}", "{% <C> %}", "{% <C> %}{% </ %}", "{% <C> %}{% </D> %}", "{% </C> %}", "{% if %}", "{% if a %}",
        "{% if a %}{% else %}", "{% if a %}{% else %}{% else %}{% endif %}", "{% if a %}{% else %}{% elif b %}{% endif %}", "{% elif a %}",
        "{% else %}", "{% endif %}", "{% endfor %}", "{% for %}", "{% for i %}", "{% for i in %}", "{% for i, in a %}", "{% for in in a %}",
        "{% for i in a %}{% else %}{% else %}{% endfor %}", "{% for i in a %}{% endfor", "{% block %}", "{% block a %}",
        "{% block a %}{% endblock b %}", "{% block a %}{% endblock %}{% block a %}{% endblock %}", "{% if a %}{% block a %}{% endblock %}{% endif %}",
        "{% set %}", "{% set a %}", "{% set a = %}", "{% set a | %}x{% endset %}", "{% set loop = 1 %}", "{% set_global %}", "{% filter %}",
        "{% filter f( %}", "{% filter f %}", "{% include %}", "{% include 1 %}", "{% include \"a\" \"b\" %}", "{% extends %}", "{% extends 1 %}",
        "x{% extends \"a\" %}", "{% extends \"a\" %}{% extends \"b\" %}", "{% if a %}{% extends \"a\" %}{% endif %}", "{% break %}", "{% continue %}",
        "{% for i in a %}{% filter f %}{% break %}{% endfilter %}{% endfor %}", "{% component %}", "{% component C %}", "{% component C( %}",
        "{% component C(a: %}", "{% component C(a: nope) %}", "{% component C(a=) %}", "{% component C(a=[x]) %}", "{% component C(a={\"k\": x}) %}",
        "{% component C(body) %}", "{% component C(...) %}", "{% component C(...r, a) %}", "{% component C(a, a) %}", "{% component C() {1} %}",
        "{% component C() {\"a\": b} %}", "{% component C() %}", "{% component C() %}{% endcomponent D %}",
        "{% component C() %}{% endcomponent %}{% component C() %}{% endcomponent %}", "{% if a %}{% component C() %}{% endcomponent %}{% endif %}",
        "{% component C() %}{% component D() %}{% endcomponent %}{% endcomponent %}", "{{ loop.index }}", "{% for i in a %}{{ loop.nope }}{% endfor %}",
        "{{ a ~ -1 }}", "{{ a ~ not b }}", "{{ 1 if }}", "{{ 1 if a }}", "{{ 1 if a else }}", "{{ a.b() }}", "{{ a()() }}", "{{ 1 2 }}", "{{ ! }}",
        "{{ a ! b }}", "{{ $ }}", "{{ é }}", "{{ a }} é {% é %}", "{{ \u{a0}a }}", "{{\ta\n}}", "{{ a\r\n}}", "{{ a }", "{{ a %}", "{% if a }}",
        "{{ 9223372036854775807 }}", "{{ 9223372036854775808 }}", "{{ -9223372036854775808 }}", "{{ 00000000000000000000000001 }}",
        "{{ 1..2 }}", "{{ a...b }}", "{{ ... }}", "{{ a ?? b }}", "{{ a ? b }}", "{{ super() }}", "{{ super( }}",
    ];
    for (k, s) in hand
    .iter()
    .enumerate()
    {
        out.push(Input::new("hand", format!("hand:{k}"), *s));
    }
    // 1. prefixes and single-character deletions of the snapshot corpus and of the base templates
    let corpus = tvh::corpus::corpus_templates();
    // 0b. line-ending flavours x registration-time errors
    push_line_ending_inputs(&mut out, rng, thorough, &corpus, &hand);
    let (kn, kd) = if thorough { (1, 1) } else { (1, 20) };
    for (label, src) in &corpus {
        push_mutations(&mut out, label, src, rng, kn, kd);
        out.push(Input::new("corpus", format!("corpus:{label}"), src.as_str()));
    }
    for (k, src) in BASE_TEMPLATES.iter().enumerate() {
        push_mutations(&mut out, &format!("base{k}"), src, rng, 1, 1);
    }
    // 2. multi-byte characters adjacent to every delimiter (before, after, and inside a `-` marker)
    let markers = ["{{", "}}", "{%", "%}", "{#", "#}", "{{-", "-}}", "{%-", "-%}", "{#-", "-#}"];
    for (k, src) in BASE_TEMPLATES.iter().enumerate() {
        let ws = src.replace("{{ ", "{{- ").replace(" }}", " -}}").replace("{% ", "{%- ").replace(" %}", " -%}");
        for (v, s) in [src.to_string(), ws].iter().enumerate() {
            for m in markers {
                let mut from = 0;
                while let Some(p) = s[from..].find(m) {
                    let at = from + p;
                    for mb in &MB[..if thorough { 5 } else { 2 }] {
                        for pos in [at, at + m.len(), at + 2.min(m.len())] {
                            if s.is_char_boundary(pos) {
                                let mut t = s.clone();
                                t.insert_str(pos, mb);
                                out.push(Input::new("multibyte-at-delimiter", format!("mb:{k}.{v}:{m}:{pos}"), t));
                            }
                        }
                    }
                    from = at + m.len();
                }
            }
        }
    }
    // 3. nesting constructs around the limits and far beyond
    let mut ns: Vec<usize> = vec![1, 2, 3, 4, 5, 6, 7, 10, 19, 20, 21];
    ns.extend(34..=44);
    ns.extend([80, 100, 1000, 100_000]);
    for kind in NEST_KINDS {
        for &n in &ns {
            out.push(recipe_input("nesting", kind, n));
        }
    }
    for n in [0usize, 10, 20, 30, 35, 36, 37] {
        out.push(recipe_input("nesting", "worst:combined", n));
    }
    for (n, m) in [(2usize, 250usize), (2, 251), (2, 490), (3, 490), (10, 490), (30, 490), (38, 490), (38, 500), (5, 100), (6, 100)] {
        for kind in ["nest:elif-chains", "nest:elif-chains-else"] {
            let r = json!({"kind": kind, "n": n, "m": m});
            let mut i = Input::new("nesting", format!("{kind}:{n}x{m}"), build_recipe(&r));
            i.recipe = r;
            out.push(i);
        }
    }
    // 4. chains (not nestings)
    let cs: Vec<usize> = if thorough { vec![10, 100, 250, 500, 1000, 2000, 5000, 10_000, 100_000] } else { vec![10, 250, 1000, 100_000] };
    for kind in CHAIN_KINDS {
        let deep = DEEP_CHAINS.contains(&kind) || kind.contains("-on-");
        for &n in &cs {
            // flat constructs are fully parsed, compiled and rendered: 10^5 of them only in the thorough tier
            let n = if !deep && !thorough && n > 20_000 { 20_000 } else { n };
            out.push(recipe_input("chain", kind, n));
        }
    }
    // 5. numbers
    for (k, s) in [
        format!("{{{{ {} }}}}", "9".repeat(400)),
        format!("{{{{ -{} }}}}", "9".repeat(400)),
        format!("{{{{ {}.5 }}}}", "9".repeat(400)),
        format!("{{{{ 1{}.0 }}}}", "0".repeat(400)),
        format!("{{{{ 0.{}1 }}}}", "0".repeat(400)),
        format!("{{{{ {}.{} }}}}", "1".repeat(5000), "1".repeat(5000)),
        format!("{{{{ a[{}] }}}}", "9".repeat(30)),
        format!("{{{{ a[{}:{}:{}] }}}}", "9".repeat(19), "9".repeat(19), "9".repeat(19)),
        format!("{{{{ {{{}: 1}} }}}}", "9".repeat(30)),
        "{{ 1.7976931348623157e308 }}".to_string(),
        format!("{{{{ {}.0 * {}.0 }}}}", "9".repeat(308), "9".repeat(308)),
        format!("{{{{ {}.0 }}}}", "9".repeat(310)),
    ]
    .iter()
    .enumerate()
    {
        out.push(Input::new("numbers", format!("num:{k}"), s.as_str()));
    }
    // 6. unterminated strings / comments / raw blocks / tags, long ones too
    for (k, s) in [
        format!("{{{{ \"{}", "a".repeat(100_000)),
        format!("{{{{ '{}", "\\".repeat(100_001)),
        format!("{{# {}", "c ".repeat(50_000)),
        format!("{{% raw %}}{}", "{% endra %}".repeat(20_000)),
        format!("{{% raw %}}{}", "{%".repeat(50_000)),
        format!("{{{{ a {}", " ".repeat(100_000)),
        format!("{{% if a {}", "\n".repeat(100_000)),
        format!("{}{{{{", "x".repeat(100_000)),
        format!("{{{{ \"{}\" }}}}", "\\n".repeat(50_000)),
        format!("{{{{ {} }}}}", "a".repeat(100_000)),
        format!("{}", "{".repeat(100_001)),
        format!("{}", "{{".repeat(50_000)),
        format!("{}", "{% ".repeat(50_000)),
    ]
    .iter()
    .enumerate()
    {
        out.push(Input::new("unterminated", format!("unterminated:{k}"), s.as_str()));
    }
    // 7. delimiter sets: accepted ones run the base templates rewritten into them (+ prefixes in
    //    the thorough tier), rejected ones must return Err
    let mut dsets = delimiter_sets();
    dsets[3].0[2] = "µ".into();
    dsets[3].0[3] = "¶".into();
    for (di, (d, valid)) in dsets.iter().enumerate() {
        let mut i = Input::new("delimiters", format!("delims:{di}:validity"), with_delims("{{ a }}{% if a %}{# c #}{% endif %}", d));
        i.delims = Some(d.clone());
        i.delims_valid = Some(*valid);
        out.push(i);
        if !*valid {
            continue;
        }
        for (k, src) in BASE_TEMPLATES.iter().enumerate() {
            let ws = src.replace("{{ ", "{{- ").replace(" }}", " -}}").replace("{% ", "{%- ").replace(" %}", " -%}");
            for (v, s0) in [src.to_string(), ws].iter().enumerate() {
                let s = with_delims(s0, d);
                let idx: Vec<usize> = s.char_indices().map(|(i, _)| i).collect();
                let mut i = Input::new("delimiters", format!("delims:{di}:base{k}.{v}"), s.clone());
                i.delims = Some(d.clone());
                out.push(i);
                for &p in &idx {
                    if thorough || rng.chance(1, 14) {
                        let mut i = Input::new("delimiters", format!("delims:{di}:base{k}.{v}:prefix{p}"), &s[..p]);
                        i.delims = Some(d.clone());
                        out.push(i);
                    }
                }
                // the same text under the DEFAULT delimiters and the default text under these
                out.push(Input::new("delimiters", format!("delims:{di}:base{k}.{v}:as-default"), s));
                let mut i = Input::new("delimiters", format!("delims:{di}:base{k}.{v}:default-text"), s0.clone());
                i.delims = Some(d.clone());
                out.push(i);
            }
        }
        for kind in ["nest:paren", "nest:if", "chain:plus", "chain:elif"] {
            for n in [39, 41, 300] {
                let mut i = recipe_input("delimiters", kind, n);
                i.src = with_delims(&i.src, d);
                i.recipe = J::Null;
                i.delims = Some(d.clone());
                out.push(i);
            }
        }
    }
    // 7b. every prefix of every delimiter (and the delimiter itself) as the LAST bytes of a source: alone, after
    //     text, after a complete tag, after a comment, after a raw block, after the same bytes repeated
    for (di, (d, valid)) in dsets.iter().enumerate() {
        if !*valid {
            continue;
        }
        let contexts = ["", "text ", "fn main() ", "x = ", "{{ a }}", "{% if a %}x{% endif %}", "{# c #}", "{% raw %}r{% endraw %}", "é", "line\n", "{{ a }} "];
        for (ci, ctx) in contexts.iter().enumerate() {
            let ctx = with_delims(ctx, d);
            for (k, delim) in d.iter().enumerate() {
                let cuts: Vec<usize> = delim.char_indices().map(|(i, _)| i).skip(1).chain(std::iter::once(delim.len())).collect();
                for cut in cuts {
                    let tail = &delim[..cut];
                    let full = thorough || di == 0;
                    for reps in [1usize, 2, 3] {
                        if !full && reps > 1 {
                            continue;
                        }
                        let mut i = Input::new("delimiter-prefix-at-end", format!("dpe:{di}:{ci}:{k}:{cut}x{reps}"), format!("{ctx}{}", tail.repeat(reps)));
                        if di > 0 {
                            i.delims = Some(d.clone());
                        }
                        out.push(i);
                    }
                    // ... and not quite at the end: followed by one more byte
                    if !full {
                        continue;
                    }
                    let mut i = Input::new("delimiter-prefix-at-end", format!("dpe:{di}:{ci}:{k}:{cut}+1"), format!("{ctx}{tail}z"));
                    if di > 0 {
                        i.delims = Some(d.clone());
                    }
                    out.push(i);
                }
            }
        }
    }
    // 8. template names
    for (k, name) in name_pool().into_iter().enumerate() {
        for (v, src) in ["{{ a }}", "{{ a", "{% if %}", "{% block b %}{% endblock %}", "{% component C() %}{% endcomponent %}{{ <C/> }}{{ <D/> }}",
            "{% include \"nope\" %}", "{% extends \"nope\" %}"].iter().enumerate()
        {
            let mut i = Input::new("names", format!("name:{k}:{v}"), *src);
            i.name = name.clone();
            out.push(i);
        }
    }
    // 9. random byte-level mutations of corpus templates (splice, duplicate, swap)
    let n_rand = if thorough { 10_000 } else { 1000 };
    let frags = ["{{", "}}", "{%", "%}", "{#", "#}", "-", "(", ")", "[", "]", "{", "}", "\"", "'", "`", "\\", "|", ".", ",", ":", "=", "<", ">", "/",
        "if", "else", "elif", "endif", "for", "in", "endfor", "not", "is", "and", "or", "raw", "endraw", "set", "block", "é", "😀", " ", "\n", "0", "...", "?.", "?["];
    for k in 0..n_rand {
        let (_, base) = rng.pick(&corpus[..]);
        let mut s = base.clone();
        for _ in 0..(1 + rng.below(3)) {
            let idx: Vec<usize> = s.char_indices().map(|(i, _)| i).chain(std::iter::once(s.len())).collect();
            let p = idx[rng.below(idx.len())];
            match rng.below(4) {
                0 => s.insert_str(p, *rng.pick(&frags[..])),
                1 => {
                    let q = idx[rng.below(idx.len())];
                    let (a, b) = (p.min(q), p.max(q));
                    let piece = s[a..b].to_string();
                    s.insert_str(b, &piece);
                }
                2 => {
                    let q = idx[rng.below(idx.len())];
                    let (a, b) = (p.min(q), p.max(q));
                    s.replace_range(a..b, *rng.pick(&frags[..]));
                }
                _ => {
                    let (_, other) = rng.pick(&corpus[..]);
                    let oi: Vec<usize> = other.char_indices().map(|(i, _)| i).collect();
                    if !oi.is_empty() {
                        let q = oi[rng.below(oi.len())];
                        s.insert_str(p, &other[q..]);
                    }
                }
            }
        }
        out.push(Input::new("random-mutation", format!("rand:{k}"), s));
    }
    out
}

// ------------------------------------------------------------------ skeleton grammar

#[derive(Clone, Copy, Debug, PartialEq)]
pub enum W {
    Id(u8),
    If, Else, Elif, Endif, For, Endfor, In, Is, Not, And, Or, Block, Endblock, Filter, Endfilter, Set, Endset, Break, Continue,
}

#[derive(Clone, Copy, Debug, PartialEq)]
pub enum Tok {
    Text, VarStart, VarEnd, TagStart, TagEnd, LexErr,
    Atom, Word(W), Minus, Tilde, Mul, Plus, Cmp, Pow, Pipe,
    LParen, RParen, LBracket, RBracket, LBrace, RBrace, Comma, Colon, Dot, Assign, Spread, Other,
}

fn word_text(w: W) -> String {
    match w {
        W::Id(n) => format!("v{n}"),
        W::If => "if".into(), W::Else => "else".into(), W::Elif => "elif".into(), W::Endif => "endif".into(),
        W::For => "for".into(), W::Endfor => "endfor".into(), W::In => "in".into(), W::Is => "is".into(),
        W::Not => "not".into(), W::And => "and".into(), W::Or => "or".into(), W::Block => "block".into(),
        W::Endblock => "endblock".into(), W::Filter => "filter".into(), W::Endfilter => "endfilter".into(),
        W::Set => "set".into(), W::Endset => "endset".into(), W::Break => "break".into(), W::Continue => "continue".into(),
    }
}

fn word_gal(w: W) -> String {
    match w {
        W::Id(n) => format!("(WId {n})"),
        other => format!("W{other:?}"),
    }
}

pub fn gal_toks(ts: &[Tok]) -> String {
    let parts: Vec<String> = ts
        .iter()
        .map(|t| match t {
            Tok::Word(w) => format!("TWord {}", word_gal(*w)),
            Tok::Mul => "TSym SMul".into(),
            Tok::Plus => "TSym SPlus".into(),
            Tok::Cmp => "TSym SCmp".into(),
            Tok::Pow => "TSym SPow".into(),
            other => format!("T{other:?}"),
        })
        .collect();
    format!("[{}]", parts.join("; "))
}

/// Prints a lexer-shaped token list as template text (every inside token separated by a space).
pub fn print_toks(ts: &[Tok]) -> String {
    let mut s = String::new();
    let mut inside = false;
    for t in ts {
        match t {
            Tok::Text => s.push_str("x"),
            Tok::VarStart => { s.push_str("{{"); inside = true; }
            Tok::VarEnd => { s.push_str(" }}"); inside = false; }
            Tok::TagStart => { s.push_str("{%"); inside = true; }
            Tok::TagEnd => { s.push_str(" %}"); inside = false; }
            Tok::LexErr => s.push_str(if inside { " $" } else { "{#" }),
            other => {
                s.push(' ');
                match other {
                    Tok::Atom => s.push('1'),
                    Tok::Word(w) => s.push_str(&word_text(*w)),
                    Tok::Minus => s.push('-'),
                    Tok::Tilde => s.push('~'),
                    Tok::Mul => s.push('*'),
                    Tok::Plus => s.push('+'),
                    Tok::Cmp => s.push_str("=="),
                    Tok::Pow => s.push_str("**"),
                    Tok::Pipe => s.push('|'),
                    Tok::LParen => s.push('('),
                    Tok::RParen => s.push(')'),
                    Tok::LBracket => s.push('['),
                    Tok::RBracket => s.push(']'),
                    Tok::LBrace => s.push('{'),
                    Tok::RBrace => s.push('}'),
                    Tok::Comma => s.push(','),
                    Tok::Colon => s.push(':'),
                    Tok::Dot => s.push('.'),
                    Tok::Assign => s.push('='),
                    Tok::Spread => s.push_str("..."),
                    Tok::Other => s.push('!'),
                    _ => {}
                }
            }
        }
    }
    s
}

pub struct SkelCase {
    pub toks: Vec<Tok>,
    pub text: String,
    pub kind: &'static str,
}

struct G<'a> {
    rng: &'a mut Rng,
    out: Vec<Tok>,
    block_no: u8,
}

impl<'a> G<'a> {
    fn id(&mut self) -> Tok {
        Tok::Word(W::Id(self.rng.below(3) as u8))
    }
    fn kwargs(&mut self, d: u32) {
        self.out.push(Tok::LParen);
        let n = self.rng.below(3);
        for i in 0..n {
            if i > 0 {
                self.out.push(Tok::Comma);
            }
            // distinct names unless we want the duplicate error
            let name = if self.rng.chance(1, 12) { W::Id(0) } else { W::Id(i as u8) };
            self.out.push(Tok::Word(name));
            self.out.push(Tok::Assign);
            self.expr(d);
        }
        if n > 0 && self.rng.chance(1, 5) {
            self.out.push(Tok::Comma);
        }
        self.out.push(Tok::RParen);
    }
    fn postfix(&mut self, d: u32) {
        for _ in 0..self.rng.below(3) {
            match self.rng.below(3) {
                0 => {
                    self.out.push(Tok::Dot);
                    let t = self.id();
                    self.out.push(t);
                }
                1 => {
                    self.out.push(Tok::LBracket);
                    self.expr(d.saturating_sub(1));
                    self.out.push(Tok::RBracket);
                }
                _ => {
                    self.out.push(Tok::LBracket);
                    if self.rng.chance(1, 2) {
                        self.expr(0);
                    }
                    self.out.push(Tok::Colon);
                    if self.rng.chance(1, 2) {
                        self.expr(0);
                    }
                    if self.rng.chance(1, 3) {
                        self.out.push(Tok::Colon);
                        self.expr(0);
                    }
                    self.out.push(Tok::RBracket);
                }
            }
        }
    }
    fn atom(&mut self, d: u32) {
        match self.rng.below(10) {
            0..=2 => self.out.push(Tok::Atom),
            3..=5 => {
                let t = self.id();
                self.out.push(t);
                self.postfix(d);
            }
            6 => {
                let t = self.id();
                self.out.push(t);
                self.kwargs(d.saturating_sub(1));
            }
            7 => {
                // keyword used as a variable name
                let w = *self.rng.pick(&[W::If, W::Else, W::In, W::For, W::And, W::Endif, W::Block, W::Is]);
                self.out.push(Tok::Word(w));
            }
            8 => {
                self.out.push(Tok::Atom);
                if self.rng.chance(1, 2) {
                    self.out.push(Tok::LBracket);
                    self.expr(0);
                    self.out.push(Tok::RBracket);
                }
            }
            _ => self.out.push(Tok::Atom),
        }
    }
    fn expr(&mut self, d: u32) {
        if d == 0 {
            return self.atom(0);
        }
        let d1 = d - 1;
        match self.rng.below(20) {
            0..=3 => self.atom(d1),
            4 => {
                self.expr(d1);
                let op = *self.rng.pick(&[Tok::Plus, Tok::Minus, Tok::Mul, Tok::Cmp, Tok::Pow, Tok::Tilde, Tok::Word(W::And), Tok::Word(W::Or), Tok::Word(W::In)]);
                self.out.push(op);
                self.expr(d1);
            }
            5 => {
                // chains
                self.atom(d1);
                let op = *self.rng.pick(&[Tok::Plus, Tok::Minus, Tok::Mul, Tok::Tilde, Tok::Word(W::And), Tok::Pow]);
                for _ in 0..(1 + self.rng.below(6)) {
                    self.out.push(op);
                    self.atom(0);
                }
            }
            6 => {
                self.out.push(if self.rng.chance(1, 2) { Tok::Minus } else { Tok::Word(W::Not) });
                self.expr(d1);
            }
            7 => {
                self.expr(d1);
                self.out.push(Tok::Word(W::If));
                self.expr(d1);
                self.out.push(Tok::Word(W::Else));
                self.expr(d1);
            }
            8 | 9 => {
                self.out.push(Tok::LParen);
                self.expr(d1);
                self.out.push(Tok::RParen);
            }
            10 => {
                self.atom(d1);
                for _ in 0..(1 + self.rng.below(3)) {
                    self.out.push(Tok::Pipe);
                    let t = self.id();
                    self.out.push(t);
                    if self.rng.chance(1, 2) {
                        self.kwargs(d1);
                    }
                }
            }
            11 => {
                self.atom(d1);
                self.out.push(Tok::Word(W::Is));
                if self.rng.chance(1, 3) {
                    self.out.push(Tok::Word(W::Not));
                }
                let t = self.id();
                self.out.push(t);
                if self.rng.chance(1, 3) {
                    self.kwargs(d1);
                }
            }
            12 => {
                self.atom(d1);
                self.out.push(Tok::Word(W::Not));
                self.out.push(Tok::Word(W::In));
                self.atom(d1);
            }
            13 | 14 => {
                self.out.push(Tok::LBracket);
                let n = self.rng.below(4);
                for i in 0..n {
                    if i > 0 {
                        self.out.push(Tok::Comma);
                    }
                    if self.rng.chance(1, 8) {
                        self.out.push(Tok::Spread);
                    }
                    self.expr(d1);
                }
                if n > 0 && self.rng.chance(1, 4) {
                    self.out.push(Tok::Comma);
                }
                self.out.push(Tok::RBracket);
            }
            15 => {
                self.out.push(Tok::LBrace);
                let n = self.rng.below(3);
                for i in 0..n {
                    if i > 0 {
                        self.out.push(Tok::Comma);
                    }
                    if self.rng.chance(1, 8) {
                        self.out.push(Tok::Spread);
                        self.expr(d1);
                    } else {
                        self.out.push(Tok::Atom);
                        self.out.push(Tok::Colon);
                        self.expr(d1);
                    }
                }
                self.out.push(Tok::RBrace);
            }
            16 => {
                self.out.push(Tok::LBracket);
                self.expr(d1);
                self.out.push(Tok::Word(W::For));
                let t = self.id();
                self.out.push(t);
                if self.rng.chance(1, 3) {
                    self.out.push(Tok::Comma);
                    let t = self.id();
                    self.out.push(t);
                }
                self.out.push(Tok::Word(W::In));
                self.expr(d1);
                if self.rng.chance(1, 2) {
                    self.out.push(Tok::Word(W::If));
                    self.expr(d1);
                }
                self.out.push(Tok::RBracket);
            }
            _ => self.atom(d1),
        }
    }
    fn tag(&mut self, inner: &[Tok]) {
        self.out.push(Tok::TagStart);
        self.out.extend_from_slice(inner);
        self.out.push(Tok::TagEnd);
    }
    fn body(&mut self, d: u32, in_loop: bool, can_block: bool) {
        let mut last_text = matches!(self.out.last(), Some(Tok::Text));
        for _ in 0..(1 + self.rng.below(3)) {
            let pick = self.rng.below(if d == 0 { 4 } else { 13 });
            if pick == 0 {
                if !last_text {
                    self.out.push(Tok::Text);
                    last_text = true;
                }
                continue;
            }
            last_text = false;
            let d1 = d.saturating_sub(1);
            match pick {
                1..=3 => {
                    self.out.push(Tok::VarStart);
                    self.expr(2);
                    self.out.push(Tok::VarEnd);
                }
                4 | 5 => {
                    self.out.push(Tok::TagStart);
                    self.out.push(Tok::Word(W::If));
                    self.expr(1);
                    self.out.push(Tok::TagEnd);
                    self.body(d1, in_loop, false);
                    for _ in 0..self.rng.below(4) {
                        self.out.push(Tok::TagStart);
                        self.out.push(Tok::Word(W::Elif));
                        self.expr(1);
                        self.out.push(Tok::TagEnd);
                        self.body(d1, in_loop, false);
                    }
                    if self.rng.chance(1, 2) {
                        self.tag(&[Tok::Word(W::Else)]);
                        self.body(d1, in_loop, false);
                    }
                    self.tag(&[Tok::Word(W::Endif)]);
                }
                6 | 7 => {
                    self.out.push(Tok::TagStart);
                    self.out.push(Tok::Word(W::For));
                    let t = self.id();
                    self.out.push(t);
                    if self.rng.chance(1, 3) {
                        self.out.push(Tok::Comma);
                        let t = self.id();
                        self.out.push(t);
                    }
                    self.out.push(Tok::Word(W::In));
                    self.expr(1);
                    self.out.push(Tok::TagEnd);
                    self.body(d1, true, false);
                    if self.rng.chance(1, 3) {
                        self.tag(&[Tok::Word(W::Else)]);
                        self.body(d1, in_loop, false);
                    }
                    self.tag(&[Tok::Word(W::Endfor)]);
                }
                8 => {
                    let n = self.block_no;
                    self.block_no += 1;
                    // sometimes inside an if/for (rejected), sometimes a duplicate name
                    let _ = can_block;
                    let name = if self.rng.chance(1, 10) { W::Id(0) } else { W::Id(10 + n) };
                    self.tag(&[Tok::Word(W::Block), Tok::Word(name)]);
                    self.body(d1, in_loop, true);
                    if self.rng.chance(1, 2) {
                        let en = if self.rng.chance(1, 6) { W::Id(1) } else { name };
                        self.tag(&[Tok::Word(W::Endblock), Tok::Word(en)]);
                    } else {
                        self.tag(&[Tok::Word(W::Endblock)]);
                    }
                }
                9 => {
                    self.out.push(Tok::TagStart);
                    self.out.push(Tok::Word(W::Filter));
                    let t = self.id();
                    self.out.push(t);
                    if self.rng.chance(1, 3) {
                        self.kwargs(1);
                    }
                    self.out.push(Tok::TagEnd);
                    self.body(d1, in_loop, can_block);
                    self.tag(&[Tok::Word(W::Endfilter)]);
                }
                10 => {
                    self.out.push(Tok::TagStart);
                    self.out.push(Tok::Word(W::Set));
                    let t = self.id();
                    self.out.push(t);
                    if self.rng.chance(1, 2) {
                        self.out.push(Tok::Assign);
                        self.expr(2);
                        self.out.push(Tok::TagEnd);
                    } else {
                        for _ in 0..self.rng.below(3) {
                            self.out.push(Tok::Pipe);
                            let t = self.id();
                            self.out.push(t);
                            if self.rng.chance(1, 3) {
                                self.kwargs(1);
                            }
                        }
                        self.out.push(Tok::TagEnd);
                        self.body(d1, in_loop, can_block);
                        self.tag(&[Tok::Word(W::Endset)]);
                    }
                }
                11 => {
                    let w = if self.rng.chance(1, 2) { W::Break } else { W::Continue };
                    self.tag(&[Tok::Word(w)]);
                }
                _ => {
                    self.out.push(Tok::VarStart);
                    self.expr(3);
                    self.out.push(Tok::VarEnd);
                }
            }
        }
    }
}

const INSIDE: [Tok; 36] = [
    Tok::Atom, Tok::Word(W::Id(0)), Tok::Word(W::Id(1)), Tok::Word(W::If), Tok::Word(W::Else), Tok::Word(W::Elif), Tok::Word(W::Endif),
    Tok::Word(W::For), Tok::Word(W::Endfor), Tok::Word(W::In), Tok::Word(W::Is), Tok::Word(W::Not), Tok::Word(W::And), Tok::Word(W::Or),
    Tok::Word(W::Block), Tok::Word(W::Endblock), Tok::Word(W::Set), Tok::Word(W::Endset), Tok::Word(W::Break), Tok::Minus, Tok::Tilde,
    Tok::Mul, Tok::Plus, Tok::Cmp, Tok::Pow, Tok::Pipe, Tok::LParen, Tok::RParen, Tok::LBracket, Tok::RBracket, Tok::LBrace, Tok::RBrace,
    Tok::Comma, Tok::Colon, Tok::Dot, Tok::Assign,
];

fn is_mode_tok(t: &Tok) -> bool {
    matches!(t, Tok::Text | Tok::VarStart | Tok::VarEnd | Tok::TagStart | Tok::TagEnd | Tok::LexErr)
}

fn rep_toks(pre: &[Tok], unit: &[Tok], n: usize, mid: &[Tok], close: &[Tok], post: &[Tok]) -> Vec<Tok> {
    let mut v = pre.to_vec();
    for _ in 0..n {
        v.extend_from_slice(unit);
    }
    v.extend_from_slice(mid);
    for _ in 0..n {
        v.extend_from_slice(close);
    }
    v.extend_from_slice(post);
    v
}

pub fn skel_cases(rng: &mut Rng, n: usize) -> Vec<SkelCase> {
    let mut cases: Vec<SkelCase> = Vec::new();
    macro_rules! push {
        ($toks:expr, $kind:expr) => {{
            let toks: Vec<Tok> = $toks;
            let text = print_toks(&toks);
            cases.push(SkelCase { toks, text, kind: $kind });
        }};
    }
    use Tok::*;
    let a = Word(W::Id(0));
    // limits: nesting at limit-2 .. limit+2 for every construct of the skeleton
    for k in 0..=6usize {
        push!(rep_toks(&[VarStart, a], &[LBracket, a], k, &[], &[RBracket], &[VarEnd]), "limit:bracket");
        push!(rep_toks(&[VarStart], &[LBracket], k, &[Atom], &[RBracket], &[VarEnd]), "limit:array");
        push!(rep_toks(&[VarStart], &[LBracket], k, &[a], &[RBracket], &[VarEnd]), "limit:array");
        push!(rep_toks(&[VarStart], &[Minus], k, &[Atom], &[], &[VarEnd]), "limit:unary");
        push!(rep_toks(&[VarStart], &[Word(W::Not)], k, &[a], &[], &[VarEnd]), "limit:unary");
    }
    for k in [1usize, 2, 10, 36, 37, 38, 39, 40, 41, 42, 60] {
        push!(rep_toks(&[VarStart], &[LParen], k, &[Atom], &[RParen], &[VarEnd]), "limit:paren");
        push!(rep_toks(&[VarStart], &[Minus, LParen], k, &[Atom], &[RParen], &[VarEnd]), "limit:unary-paren");
        push!(rep_toks(&[VarStart], &[Atom, Word(W::If), a, Word(W::Else)], k, &[Atom], &[], &[VarEnd]), "limit:ternary");
        push!(rep_toks(&[VarStart], &[Atom, Pow], k, &[Atom], &[], &[VarEnd]), "limit:pow");
        push!(rep_toks(&[VarStart], &[a, LParen, a, Assign], k, &[Atom], &[RParen], &[VarEnd]), "limit:call");
        push!(rep_toks(&[VarStart], &[LBrace, Atom, Colon], k, &[a], &[RBrace], &[VarEnd]), "limit:map");
        push!(rep_toks(&[], &[TagStart, Word(W::If), a, TagEnd], k, &[Text], &[TagStart, Word(W::Endif), TagEnd], &[]), "limit:if");
        push!(rep_toks(&[], &[TagStart, Word(W::For), a, Word(W::In), a, TagEnd], k, &[Text], &[TagStart, Word(W::Endfor), TagEnd], &[]), "limit:for");
        push!(rep_toks(&[], &[TagStart, Word(W::Filter), a, TagEnd], k, &[Text], &[TagStart, Word(W::Endfilter), TagEnd], &[]), "limit:filter");
        push!(rep_toks(&[], &[TagStart, Word(W::Set), a, TagEnd], k, &[Text], &[TagStart, Word(W::Endset), TagEnd], &[]), "limit:set");
        push!(rep_toks(&[], &[TagStart, Word(W::If), a, TagEnd], k, &[VarStart, LParen, Atom, RParen, VarEnd], &[TagStart, Word(W::Endif), TagEnd], &[]), "limit:if+paren");
        let mut blk = Vec::new();
        for i in 0..k {
            blk.extend_from_slice(&[TagStart, Word(W::Block), Word(W::Id(100 + i as u8)), TagEnd]);
        }
        blk.push(Text);
        for _ in 0..k {
            blk.extend_from_slice(&[TagStart, Word(W::Endblock), TagEnd]);
        }
        push!(blk, "limit:block");
    }
    // chains (AST depth grows with the chain)
    for k in [1usize, 2, 5, 20, 60, 150, 254, 255, 256, 257, 258] {
        for op in [Plus, Minus, Mul, Tilde, Cmp, Word(W::And), Word(W::Or), Word(W::In)] {
            push!(rep_toks(&[VarStart, a], &[op, a], k, &[], &[], &[VarEnd]), "chain:binary");
        }
        push!(rep_toks(&[VarStart, a], &[Dot, a], k, &[], &[], &[VarEnd]), "chain:attr");
        push!(rep_toks(&[VarStart, a], &[LBracket, Atom, RBracket], k, &[], &[], &[VarEnd]), "chain:index");
        push!(rep_toks(&[VarStart, Atom], &[LBracket, Atom, RBracket], k, &[], &[], &[VarEnd]), "chain:index");
        push!(rep_toks(&[VarStart, a], &[Pipe, a], k, &[], &[], &[VarEnd]), "chain:filter");
        push!(rep_toks(&[VarStart, a], &[Word(W::Is), a], k, &[], &[], &[VarEnd]), "chain:test");
        push!(rep_toks(&[VarStart, a], &[Word(W::Is), Word(W::Not), a], k, &[], &[], &[VarEnd]), "chain:test");
        push!(rep_toks(&[VarStart, a], &[Word(W::Not), Word(W::In), a], k, &[], &[], &[VarEnd]), "chain:not-in");
        push!(rep_toks(&[TagStart, Word(W::If), a, TagEnd, Text], &[TagStart, Word(W::Elif), a, TagEnd, Text], k, &[], &[], &[TagStart, Word(W::Endif), TagEnd]), "chain:elif");
        push!(rep_toks(&[TagStart, Word(W::If), a, TagEnd], &[TagStart, Word(W::Elif), a, TagEnd], k, &[TagStart, Word(W::Else), TagEnd, Text], &[], &[TagStart, Word(W::Endif), TagEnd]), "chain:elif");
    }
    for k in [254usize, 255, 256, 257] {
        // nested levels add to the height of the enclosing expression
        push!(rep_toks(&[VarStart, LParen, a], &[Plus, a], k, &[RParen, Plus, a], &[], &[VarEnd]), "chain:binary");
        push!(rep_toks(&[VarStart, Minus, a], &[Dot, a], k, &[], &[], &[VarEnd]), "chain:attr");
        push!(rep_toks(&[VarStart, LBracket, a], &[Tilde, a], k, &[RBracket], &[], &[VarEnd]), "chain:binary");
    }
    for k in [498usize, 499, 500, 501, 502] {
        push!(rep_toks(&[TagStart, Word(W::If), a, TagEnd, Text], &[TagStart, Word(W::Elif), a, TagEnd, Text], k, &[], &[], &[TagStart, Word(W::Endif), TagEnd]), "chain:elif");
    }
    for k in [248usize, 249, 250, 251] {
        // elif chains inside elif bodies accumulate
        let inner = rep_toks(&[TagStart, Word(W::If), a, TagEnd], &[TagStart, Word(W::Elif), a, TagEnd], k, &[], &[], &[TagStart, Word(W::Endif), TagEnd]);
        let mut v = rep_toks(&[TagStart, Word(W::If), a, TagEnd], &[TagStart, Word(W::Elif), a, TagEnd], 250, &[], &[], &[]);
        v.extend(inner);
        v.extend_from_slice(&[TagStart, Word(W::Endif), TagEnd]);
        push!(v, "chain:elif");
    }
    // grammar-generated documents, their truncations and inside-token mutations
    let mut k = 0usize;
    while cases.len() < n {
        k += 1;
        let mut g = G { rng: &mut *rng, out: Vec::new(), block_no: 0 };
        let d = 1 + (k % 3) as u32;
        g.body(d, false, true);
        let toks = g.out;
        if toks.len() > 160 {
            continue;
        }
        match k % 4 {
            0 | 1 => push!(toks, "generated"),
            2 => {
                let cut = rng.below(toks.len() + 1);
                let mut t = toks[..cut].to_vec();
                if rng.chance(1, 4) {
                    t.push(LexErr);
                }
                push!(t, "truncated");
            }
            _ => {
                let mut t = toks.clone();
                let pos: Vec<usize> = (0..t.len()).filter(|&i| !is_mode_tok(&t[i])).collect();
                if pos.is_empty() {
                    continue;
                }
                for _ in 0..(1 + rng.below(2)) {
                    let p = pos[rng.below(pos.len())];
                    if p >= t.len() || is_mode_tok(&t[p]) {
                        continue;
                    }
                    match rng.below(3) {
                        0 => t[p] = *rng.pick(&INSIDE[..]),
                        1 => t.insert(p, *rng.pick(&INSIDE[..])),
                        _ => {
                            t.remove(p);
                        }
                    }
                }
                push!(t, "mutated");
            }
        }
    }
    cases
}
