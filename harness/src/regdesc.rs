//! Shared by the C10 and C11 harness binaries (included with `#[path]`, so that the shared
//! `lib.rs` stays untouched): structured template descriptions that are printed both as real
//! template sources and as `TeraV.Model.Registry.tdesc` terms, error-class mapping, and the
//! child-process renderer (bounded stack, time limit) used to observe aborts.
#![allow(dead_code)]

use std::io::{BufRead, BufReader, Read, Write};
use std::process::{Command, Stdio};
use std::time::{Duration, Instant};

use serde_json::json;
use tera::{Context, Tera};
use tvh::{err_class, gal_str};

#[derive(Clone, Debug, PartialEq)]
pub enum Item {
    Text(u32),
    Include(String),
    Block(String, Vec<Item>),
    Super,
    Call(String),
    /// `{{ 1 | f }}`, `{% if 1 is t %}{% endif %}`, `{{ f() }}`: references only (C10 pools)
    Filter(String),
    Test(String),
    Func(String),
    /// `{{ x }}`: prints a context variable (observes the autoescape flag); no descriptor op
    Var,
}

#[derive(Clone, Debug, PartialEq)]
pub struct Tpl {
    pub extends: Option<String>,
    pub body: Vec<Item>,
    pub comps: Vec<(String, Vec<Item>)>,
    /// Some(text): use this text verbatim (a source that does not parse); descriptor = None
    pub broken: Option<String>,
}

impl Tpl {
    pub fn new(extends: Option<&str>, body: Vec<Item>) -> Self {
        Tpl { extends: extends.map(|s| s.to_string()), body, comps: vec![], broken: None }
    }
    pub fn broken(text: &str) -> Self {
        Tpl { extends: None, body: vec![], comps: vec![], broken: Some(text.to_string()) }
    }
    pub fn with_comp(mut self, name: &str, body: Vec<Item>) -> Self {
        self.comps.push((name.to_string(), body));
        self
    }
}

fn items_src(items: &[Item], out: &mut String) {
    for it in items {
        match it {
            Item::Text(i) => out.push_str(&format!("[{i}]")),
            Item::Include(n) => out.push_str(&format!("{{% include \"{n}\" %}}")),
            Item::Block(b, inner) => {
                out.push_str(&format!("{{% block {b} %}}"));
                items_src(inner, out);
                out.push_str(&format!("{{% endblock {b} %}}"));
            }
            Item::Super => out.push_str("{{ super() }}"),
            Item::Call(c) => out.push_str(&format!("{{{{<{c} />}}}}")),
            Item::Filter(f) => out.push_str(&format!("{{% set _v = 1 | {f} %}}")),
            Item::Test(t) => out.push_str(&format!("{{% if 1 is {t} %}}{{% endif %}}")),
            Item::Func(f) => out.push_str(&format!("{{% set _w = {f}() %}}")),
            Item::Var => out.push_str("{{ x }}"),
        }
    }
}

pub fn source_of(t: &Tpl) -> String {
    if let Some(b) = &t.broken {
        return b.clone();
    }
    let mut s = String::new();
    if let Some(p) = &t.extends {
        s.push_str(&format!("{{% extends \"{p}\" %}}"));
    }
    items_src(&t.body, &mut s);
    for (c, body) in &t.comps {
        s.push_str(&format!("{{% component {c}(v = {}) %}}", body.len()));
        items_src(body, &mut s);
        s.push_str(&format!("{{% endcomponent {c} %}}"));
    }
    s
}

pub fn gal_name(s: &str) -> String {
    gal_str(s)
}
pub fn gal_names(v: &[String]) -> String {
    format!("[{}]", v.iter().map(|s| gal_name(s)).collect::<Vec<_>>().join("; "))
}

struct Compiled {
    blocks: Vec<(String, String)>,
    filters: Vec<String>,
    tests: Vec<String>,
    funcs: Vec<String>,
}

/// mirrors Compiler::compile_node / compile_block as far as the descriptor is concerned
fn chunk_of(items: &[Item], c: &mut Compiled) -> String {
    let mut ops: Vec<String> = vec![];
    for it in items {
        match it {
            Item::Text(i) => ops.push(format!("OText {i}%N")),
            Item::Include(n) => ops.push(format!("OInclude {}", gal_name(n))),
            Item::Block(b, inner) => {
                let ch = chunk_of(inner, c);
                c.blocks.push((b.clone(), ch));
                ops.push(format!("OBlock {}", gal_name(b)));
            }
            Item::Super => ops.push("OSuper".to_string()),
            Item::Call(n) => ops.push(format!("OCall {}", gal_name(n))),
            Item::Filter(f) => c.filters.push(f.clone()),
            Item::Test(t) => c.tests.push(t.clone()),
            Item::Func(f) => c.funcs.push(f.clone()),
            Item::Var => {}
        }
    }
    format!("[{}]", ops.join("; "))
}

/// `option tdesc` term
pub fn gal_source(t: &Tpl) -> String {
    if t.broken.is_some() {
        return "None".to_string();
    }
    let mut c = Compiled { blocks: vec![], filters: vec![], tests: vec![], funcs: vec![] };
    let main = chunk_of(&t.body, &mut c);
    let top: Vec<String> = t
        .body
        .iter()
        .filter_map(|i| if let Item::Block(b, _) = i { Some(b.clone()) } else { None })
        .collect();
    let mut comps = vec![];
    for (n, body) in &t.comps {
        let ch = chunk_of(body, &mut c);
        comps.push(format!("({}, {})", gal_name(n), ch));
    }
    let blocks: Vec<String> = c.blocks.iter().map(|(b, ch)| format!("({}, {})", gal_name(b), ch)).collect();
    let ext = match &t.extends {
        None => "None".to_string(),
        Some(p) => format!("(Some {})", gal_name(p)),
    };
    format!(
        "(Some {{| td_extends := {ext}; td_main := {main}; td_blocks := [{}]; td_top := {}; td_comps := [{}]; \
         td_filters := {}; td_tests := {}; td_funcs := {}; td_len := {}%nat |}})",
        blocks.join("; "),
        gal_names(&top),
        comps.join("; "),
        gal_names(&c.filters),
        gal_names(&c.tests),
        gal_names(&c.funcs),
        source_of(t).len()
    )
}

pub fn gal_set(set: &[(String, Tpl)]) -> String {
    format!(
        "[{}]",
        set.iter().map(|(n, t)| format!("({}, {})", gal_name(n), gal_source(t))).collect::<Vec<_>>().join("; ")
    )
}

pub fn json_set(set: &[(String, Tpl)]) -> serde_json::Value {
    json!(set.iter().map(|(n, t)| json!([n, source_of(t)])).collect::<Vec<_>>())
}

/// `ekind` constructor for an implementation error class (lib::err_class)
pub fn gal_ekind(class: &str) -> &'static str {
    match class {
        "syntax" => "EkSyntax",
        "missingparent" => "EkMissingParent",
        "circularextend" => "EkCircularExtend",
        "circularinclude" => "EkCircularInclude",
        "templatenotfound" => "EkNotFound",
        "panic" => "EkPanic",
        _ => "EkMsg",
    }
}

pub fn new_tera(prefixes: &[String]) -> Tera {
    let mut tera = Tera::default();
    if !prefixes.is_empty() {
        tera.set_fallback_prefixes(prefixes.to_vec()).expect("prefixes on an empty instance");
    }
    tera
}

/// Ok(()) or the error class
pub fn add_all(tera: &mut Tera, set: &[(String, String)]) -> Result<(), String> {
    match std::panic::catch_unwind(std::panic::AssertUnwindSafe(|| tera.add_raw_templates(set.to_vec()))) {
        Ok(Ok(())) => Ok(()),
        Ok(Err(e)) => Err(err_class(&e)),
        Err(_) => Err("panic".to_string()),
    }
}

// ------------------------------------------------------------------ registration from files

/// What the harness puts at a path just before the engine reads it.
#[derive(Clone, Debug, PartialEq)]
pub enum FileKind {
    /// a readable UTF-8 file with this content
    Text(String),
    /// nothing at that path (File::open fails)
    Missing,
    /// a file whose content is not UTF-8 (read_to_string fails)
    NotUtf8,
    /// a directory (File::open succeeds on Linux, read_to_string fails with EISDIR)
    Dir,
    /// the path itself is not valid UTF-8 (`path` is only a label then)
    BadPath,
}

/// One `(path, name)` pair of an `add_template_files` call. Paths are relative to the current
/// directory (the harness works inside its own run directory), so that with `name: None` the
/// template is registered under a name other templates can refer to.
#[derive(Clone, Debug, PartialEq)]
pub struct FileEnt {
    pub path: String,
    pub name: Option<String>,
    pub kind: FileKind,
}

impl FileEnt {
    pub fn key(&self) -> &str {
        self.name.as_deref().unwrap_or(&self.path)
    }
    pub fn json(&self) -> serde_json::Value {
        let (k, content) = match &self.kind {
            FileKind::Text(c) => ("text", Some(c.clone())),
            FileKind::Missing => ("missing", None),
            FileKind::NotUtf8 => ("notutf8", None),
            FileKind::Dir => ("dir", None),
            FileKind::BadPath => ("badpath", None),
        };
        json!({"path": self.path, "name": self.name, "kind": k, "content": content})
    }
    pub fn from_json(v: &serde_json::Value) -> FileEnt {
        let kind = match v["kind"].as_str().unwrap_or("") {
            "text" => FileKind::Text(v["content"].as_str().unwrap_or("").to_string()),
            "missing" => FileKind::Missing,
            "notutf8" => FileKind::NotUtf8,
            "dir" => FileKind::Dir,
            _ => FileKind::BadPath,
        };
        FileEnt { path: v["path"].as_str().unwrap_or("").to_string(), name: v["name"].as_str().map(|s| s.to_string()), kind }
    }
    /// Makes the file system say what `kind` says and returns the path to hand to the engine.
    fn prepare(&self) -> std::path::PathBuf {
        use std::os::unix::ffi::OsStringExt;
        if self.kind == FileKind::BadPath {
            return std::path::PathBuf::from(std::ffi::OsString::from_vec(b"bad\xff\xfepath.html".to_vec()));
        }
        let p = std::path::PathBuf::from(&self.path);
        if let Some(d) = p.parent() {
            if !d.as_os_str().is_empty() {
                std::fs::create_dir_all(d).expect("mkdir for template file");
            }
        }
        let _ = std::fs::remove_file(&p);
        let _ = std::fs::remove_dir(&p);
        match &self.kind {
            FileKind::Text(c) => std::fs::write(&p, c).expect("write template file"),
            FileKind::NotUtf8 => std::fs::write(&p, b"[1]\xff\xfe{{ x }}\xc3").expect("write template file"),
            FileKind::Dir => std::fs::create_dir(&p).expect("mkdir as template file"),
            FileKind::Missing | FileKind::BadPath => {}
        }
        p
    }
}

/// `add_template_files` (or `add_template_file` for a single entry when `single_api`) on the
/// entries; each file is put in place only when the engine's loop asks for that entry, so that
/// two entries may use one path with different contents. Ok(()) or the error class.
pub fn add_files(tera: &mut Tera, ents: &[FileEnt], single_api: bool) -> Result<(), String> {
    let r = std::panic::catch_unwind(std::panic::AssertUnwindSafe(|| {
        if single_api && ents.len() == 1 {
            let p = ents[0].prepare();
            tera.add_template_file(p, ents[0].name.as_deref())
        } else {
            tera.add_template_files(ents.iter().map(|e| (e.prepare(), e.name.clone())))
        }
    }));
    match r {
        Ok(Ok(())) => Ok(()),
        Ok(Err(e)) => Err(err_class(&e)),
        Err(_) => Err("panic".to_string()),
    }
}

/// `hfile` term of Corr.CorrC10; `pool_pos` = position of the content in the case's pool
pub fn gal_hfile(e: &FileEnt, pool_pos: Option<usize>) -> String {
    let src = match (&e.kind, pool_pos) {
        (FileKind::Text(_), Some(i)) => format!("HFPool {i}%nat"),
        (FileKind::Text(_), None) => panic!("file content outside the pool"),
        (FileKind::Missing, _) => "HFNoOpen".to_string(),
        (FileKind::NotUtf8, _) | (FileKind::Dir, _) => "HFNoRead".to_string(),
        (FileKind::BadPath, _) => "HFBadPath".to_string(),
    };
    let name = match &e.name {
        Some(n) => format!("(Some {})", gal_name(n)),
        None => "None".to_string(),
    };
    format!("{{| hf_path := {}; hf_src := {}; hf_name := {} |}}", gal_name(&e.path), src, name)
}

// ------------------------------------------------------------------ child-process renders

#[derive(Clone, Debug, PartialEq)]
pub enum ROut {
    Text(String),
    Err(String),
    /// killed by a signal (stack overflow = SIGABRT/SIGSEGV) or non-zero exit
    Crash(String),
    Timeout,
}

impl ROut {
    pub fn json(&self) -> serde_json::Value {
        match self {
            ROut::Text(t) => json!({"text": t}),
            ROut::Err(c) => json!({"err": c}),
            ROut::Crash(s) => json!({"crash": s}),
            ROut::Timeout => json!("timeout"),
        }
    }
    /// `rout` term: texts are `[n]` markers
    pub fn gal(&self) -> String {
        match self {
            ROut::Text(t) => {
                let ids: Vec<String> = t
                    .split(|c| c == '[' || c == ']')
                    .filter(|s| !s.is_empty())
                    .map(|s| s.to_string())
                    .collect();
                format!("(RText [{}]%N)", ids.join(";"))
            }
            ROut::Err(_) => "(RFail EkMsg)".to_string(),
            ROut::Crash(_) | ROut::Timeout => "ROutOfFuel".to_string(),
        }
    }
    pub fn is_bad(&self) -> bool {
        matches!(self, ROut::Crash(_) | ROut::Timeout)
    }
}

/// Child side: reads a JSON job from stdin `{prefixes, templates: [[name, src]..], start,
/// blocks: [[tpl, block]..]}`, registers the set and renders every template from index
/// `start` on, one line per result, flushed, so that the parent sees how far it got.
/// Runs on a thread with an explicit 4 MiB stack; an overflow there aborts the process.
pub fn child_main() -> ! {
    let mut input = String::new();
    std::io::stdin().read_to_string(&mut input).expect("stdin");
    let job: serde_json::Value = serde_json::from_str(&input).expect("job json");
    let h = std::thread::Builder::new()
        .stack_size(4 << 20)
        .spawn(move || {
            let prefixes: Vec<String> =
                job["prefixes"].as_array().unwrap().iter().map(|x| x.as_str().unwrap().to_string()).collect();
            let calls: Vec<Vec<(String, String)>> = job["calls"]
                .as_array()
                .unwrap()
                .iter()
                .map(|b| {
                    b.as_array()
                        .unwrap()
                        .iter()
                        .map(|p| (p[0].as_str().unwrap().to_string(), p[1].as_str().unwrap().to_string()))
                        .collect()
                })
                .collect();
            let names: Vec<String> = job["names"].as_array().unwrap().iter().map(|x| x.as_str().unwrap().to_string()).collect();
            let strict = job["strict"].as_bool().unwrap_or(true);
            let start = job["start"].as_u64().unwrap_or(0) as usize;
            let mut tera = new_tera(&prefixes);
            let out = std::io::stdout();
            for b in &calls {
                if let Err(e) = tera.add_raw_templates(b.clone()) {
                    if strict {
                        let mut o = out.lock();
                        writeln!(o, "REJECT {}", err_class(&e)).unwrap();
                        o.flush().unwrap();
                        return;
                    }
                }
            }
            for (i, n) in names.iter().enumerate().skip(start) {
                // `name#block` = render_block(name, block)
                let r = match n.split_once('#') {
                    Some((t, b)) => tera.render_block(t, b, &Context::new()),
                    None => tera.render(n, &Context::new()),
                };
                let mut o = out.lock();
                match r {
                    Ok(s) => writeln!(o, "R {i} ok {}", s.replace('\n', " ")).unwrap(),
                    Err(e) => writeln!(o, "R {i} err {}", err_class(&e)).unwrap(),
                }
                o.flush().unwrap();
            }
        })
        .expect("spawn");
    let ok = h.join().is_ok();
    std::process::exit(if ok { 0 } else { 3 });
}

fn run_child(job: &serde_json::Value, limit: Duration) -> (Vec<String>, Option<String>) {
    run_child_with("render-child", job, limit)
}

/// Spawns this binary with sub-command `sub`, feeds it `job` on stdin; returns its stdout lines
/// and, if it did not exit normally, how it ended ("timeout", "signal N", "exit N").
pub fn run_child_with(sub: &str, job: &serde_json::Value, limit: Duration) -> (Vec<String>, Option<String>) {
    let exe = std::env::current_exe().expect("current_exe");
    let mut child = Command::new(exe)
        .arg(sub)
        .stdin(Stdio::piped())
        .stdout(Stdio::piped())
        .stderr(Stdio::null())
        .spawn()
        .expect("spawn child");
    {
        let mut si = child.stdin.take().unwrap();
        si.write_all(job.to_string().as_bytes()).unwrap();
    }
    let so = child.stdout.take().unwrap();
    let reader = std::thread::spawn(move || {
        let mut lines = vec![];
        for l in BufReader::new(so).lines() {
            match l {
                Ok(l) => lines.push(l),
                Err(_) => break,
            }
        }
        lines
    });
    let t0 = Instant::now();
    let status = loop {
        match child.try_wait().expect("try_wait") {
            Some(st) => break Some(st),
            None => {
                if t0.elapsed() > limit {
                    let _ = child.kill();
                    let _ = child.wait();
                    break None;
                }
                std::thread::sleep(Duration::from_micros(300));
            }
        }
    };
    let lines = reader.join().unwrap_or_default();
    let bad = match status {
        None => Some("timeout".to_string()),
        Some(st) if st.success() => None,
        Some(st) => {
            use std::os::unix::process::ExitStatusExt;
            Some(match st.signal() {
                Some(sig) => format!("signal {sig}"),
                None => format!("exit {:?}", st.code()),
            })
        }
    };
    (lines, bad)
}

/// Renders every template of an accepted set in child processes; one outcome per template.
pub fn render_all_in_child(prefixes: &[String], set: &[(String, String)], limit: Duration) -> Vec<ROut> {
    let names: Vec<String> = set.iter().map(|(n, _)| n.clone()).collect();
    render_entries_in_child(prefixes, &[set.to_vec()], true, &names, limit)
}

/// Replays `calls` (batches; with `strict` a failing batch ends the job, otherwise it is
/// ignored like on a long-lived instance) in child processes and renders `entries`
/// (`name` = render, `name#block` = render_block); one outcome per entry.
pub fn render_entries_in_child(
    prefixes: &[String],
    calls: &[Vec<(String, String)>],
    strict: bool,
    entries: &[String],
    limit: Duration,
) -> Vec<ROut> {
    let mut outs: Vec<ROut> = vec![];
    let mut spawns = 0;
    let jcalls: Vec<serde_json::Value> =
        calls.iter().map(|b| json!(b.iter().map(|(n, s)| json!([n, s])).collect::<Vec<_>>())).collect();
    while outs.len() < entries.len() && spawns <= entries.len() {
        spawns += 1;
        let job = json!({"prefixes": prefixes, "calls": jcalls, "strict": strict, "names": entries, "start": outs.len()});
        let (lines, bad) = run_child(&job, limit);
        for l in &lines {
            if let Some(rest) = l.strip_prefix("R ") {
                let mut it = rest.splitn(3, ' ');
                let idx: usize = it.next().unwrap().parse().unwrap();
                let kind = it.next().unwrap();
                let payload = it.next().unwrap_or("").to_string();
                if idx == outs.len() {
                    outs.push(if kind == "ok" { ROut::Text(payload) } else { ROut::Err(payload) });
                }
            } else if l.starts_with("REJECT") {
                // the parent only sends accepted sets
                while outs.len() < entries.len() {
                    outs.push(ROut::Err(l.clone()));
                }
            }
        }
        if let Some(b) = bad {
            if outs.len() < entries.len() {
                outs.push(if b == "timeout" { ROut::Timeout } else { ROut::Crash(b) });
            }
        }
    }
    while outs.len() < entries.len() {
        outs.push(ROut::Crash("no result".into()));
    }
    outs
}
