//! Family `vm1` (C03): the REAL finalized chunks, block lineage and component table of template
//! sets run on Model/VM.v in the FULL world Model/World1.v (arithmetic, comparisons, every
//! modelled built-in, components, includes, inheritance) vs the real render (text / error class).
//! Sources: hand-written programs, a typed expression/statement generator, the World0-subset
//! generators of c03.rs / gen_tpl.rs / c03_stmt.rs under richer contexts, and the engine's own
//! snapshot corpus (rendering_inputs/{success,errors}) with the context of
//! snapshot_tests/rendering.rs.
use serde::Serialize;
use serde_json::json;
use std::collections::{BTreeMap, HashMap};
use tera::verif::{component_listings, template_listing, Listing, TemplateListing};
use tera::{Context, Map, Tera, Value};
use tvh::galvm::*;
use tvh::*;

#[path = "c03_stmt.rs"]
pub mod stmt;

pub const HDR: &str = "From TeraV Require Import Model.Value Model.Instr Model.VM Corr.CorrVM1.";

// ------------------------------------------------------------------ what World1 models

const FILTERS: [&str; 36] = [
    "safe", "default", "upper", "lower", "wordcount", "escape_html", "escape_xml", "newlines_to_br", "pluralize",
    "trim", "trim_start", "trim_end", "replace", "capitalize", "title", "truncate", "indent", "str", "int", "float",
    "length", "reverse", "split", "abs", "round", "first", "last", "nth", "join", "sort", "unique", "get", "values",
    "keys", "pairs", "group_by",
];
const TESTS: [&str; 17] = [
    "string", "number", "map", "bool", "array", "integer", "float", "none", "iterable", "defined", "undefined", "odd",
    "even", "divisible_by", "starting_with", "ending_with", "containing",
];
const FUNCTIONS: [&str; 3] = ["super", "range", "throw"];
const CASE_FILTERS: [&str; 4] = ["upper", "lower", "capitalize", "title"];

/// characters whose `{:?}` form Model/VFormat.v debug_str prints (printable, not Grapheme_Extend)
fn char_ok(c: char) -> bool {
    let u = c as u32;
    matches!(c, '\n' | '\t' | '\r')
        || (0x20..0x7f).contains(&u)
        || ((0xa1..0x300).contains(&u) && u != 0xad)
        || (0x3041..=0x3096).contains(&u)
        || (0x4e00..=0x9fff).contains(&u)
        || (0x1f600..=0x1f64f).contains(&u)
        || matches!(u, 0x20ac | 0x2026 | 0x2192 | 0x2713)
}

struct Flags {
    case_filter: bool,
}

fn value_reason(v: &Value, ascii_only: bool) -> Option<String> {
    use tera::value::ValueKind as K;
    match v.kind() {
        K::Bytes => {
            if std::str::from_utf8(v.as_bytes().unwrap()).is_err() {
                Some("ill-formed bytes (from_utf8_lossy)".into())
            } else {
                None
            }
        }
        K::Array => v.as_array().unwrap().iter().find_map(|x| value_reason(x, ascii_only)),
        K::Map => v.as_map().unwrap().iter().find_map(|(k, x)| {
            k.as_str().and_then(|s| str_reason(s, ascii_only)).or_else(|| value_reason(x, ascii_only))
        }),
        K::String => str_reason(v.as_str().unwrap(), ascii_only),
        _ => None,
    }
}

fn str_reason(s: &str, ascii_only: bool) -> Option<String> {
    if ascii_only && !s.is_ascii() {
        return Some("case-mapping filter with non-ASCII text (char::to_uppercase tables)".into());
    }
    if s.chars().all(char_ok) { None } else { Some("string with characters whose {:?} form is not modelled".into()) }
}

/// does the instruction at `idx` produce an integer computed from integer literals only?
/// returns the index of the first instruction of that computation
fn static_int(l: &Listing, idx: usize, nonneg: bool) -> Option<usize> {
    let (i, _) = l.get(idx)?;
    match i.op {
        "LoadConst" => {
            let v = i.konst.as_ref()?;
            let z = v.as_i128()?;
            if v.is_f64() || (nonneg && z < 0) { None } else { Some(idx) }
        }
        "Plus" | "Mul" | "Power" | "Minus" | "FloorDiv" | "Mod" => {
            if nonneg && matches!(i.op, "Minus" | "FloorDiv" | "Mod") {
                return None;
            }
            let r = static_int(l, idx.checked_sub(1)?, nonneg || i.op == "Power")?;
            static_int(l, r.checked_sub(1)?, nonneg)
        }
        "Negative" => {
            if nonneg { None } else { static_int(l, idx.checked_sub(1)?, false) }
        }
        _ => None,
    }
}

/// Why a chunk is outside what Model/World1.v models (None = inside). `typed`: the chunk comes
/// from the typed generator, whose discipline replaces the static operand analysis of `**`,
/// `float` and `int`.
fn chunk_reason(l: &Listing, typed: bool, flags: &mut Flags) -> Option<String> {
    for (idx, (i, _)) in l.iter().enumerate() {
        match i.op {
            "ApplyFilter" => {
                let n = i.strs[0].as_str();
                if !FILTERS.contains(&n) {
                    return Some(format!("custom filter `{n}`"));
                }
                if CASE_FILTERS.contains(&n) {
                    flags.case_filter = true;
                }
                if !typed && n == "float" {
                    return Some("filter `float` (str::parse::<f64> on string receivers)".into());
                }
            }
            "RunTest" => {
                if !TESTS.contains(&i.strs[0].as_str()) {
                    return Some(format!("custom test `{}`", i.strs[0]));
                }
            }
            "CallFunction" => {
                if !FUNCTIONS.contains(&i.strs[0].as_str()) {
                    return Some(format!("custom function `{}`", i.strs[0]));
                }
            }
            "Power" => {
                if !typed {
                    let ok = static_int(l, idx.wrapping_sub(1), true)
                        .and_then(|r| static_int(l, r.wrapping_sub(1), false))
                        .is_some();
                    if !ok {
                        return Some("`**` whose operands are not statically integers (f64::powf)".into());
                    }
                }
            }
            _ => {}
        }
    }
    None
}

fn chunk_strings_reason(l: &Listing, ascii_only: bool) -> Option<String> {
    for (i, _) in l {
        match i.op {
            "LoadConst" => {
                if let Some(r) = value_reason(i.konst.as_ref().unwrap(), ascii_only) {
                    return Some(r);
                }
            }
            "WriteText" => {
                if ascii_only && !i.strs[0].is_ascii() {
                    return Some("case-mapping filter with non-ASCII text (char::to_uppercase tables)".into());
                }
            }
            _ => {}
        }
    }
    None
}

// ------------------------------------------------------------------ printing

fn gal_comp_def(tera: &Tera, name: &str) -> String {
    let info = tera.get_component_definition(name).expect("component definition");
    let ps: Vec<String> = info
        .args()
        .iter()
        .map(|a| {
            format!(
                "({}, {}, {})",
                gal_str(a.name()),
                gal_opt(&a.arg_type(), |t| gal_str(t.as_str())),
                gal_opt(&a.default(), |v| gal_value_ord(*v))
            )
        })
        .collect();
    format!(
        "{{| cd_params := [{}]; cd_rest := {} |}}",
        ps.join("; "),
        gal_opt(&info.rest_param(), |r| gal_str(r))
    )
}

struct Prepared {
    tera: Tera,
    listings: Vec<TemplateListing>,
    defs: Vec<(String, String)>,
    world: String,
    comps: String,
    instrs: usize,
    case_filter: bool,
}

pub struct Stats {
    pub skipped: BTreeMap<String, usize>,
    pub rejected: usize,
    pub corpus_run: Vec<String>,
    pub corpus_skipped: Vec<(String, String)>,
    pub rejected_hand: Vec<String>,
}

fn prepare(
    templates: &[(String, String)],
    suffixes: &[&'static str],
    typed: bool,
    custom: bool,
) -> Result<Prepared, Result<String, String>> {
    let mut tera = Tera::default();
    tera.autoescape_on(suffixes.to_vec());
    if custom {
        register_read_ctx(&mut tera);
    }
    if let Err(e) = tera.add_raw_templates(templates.to_vec()) {
        return Err(Err(format!("{e}")));
    }
    let mut flags = Flags { case_filter: false };
    let mut listings = Vec::new();
    for (n, _) in templates {
        let Some(tl) = template_listing(&tera, n) else { return Err(Err(format!("no listing for {n}"))) };
        listings.push(tl);
    }
    let comps = component_listings(&tera);
    let mut all: Vec<&Listing> = Vec::new();
    for tl in &listings {
        all.push(&tl.chunk);
        for (_, cs) in &tl.lineage {
            all.extend(cs.iter());
        }
    }
    for (_, _, c) in &comps {
        all.push(c);
    }
    for l in &all {
        if let Some(r) = chunk_reason(l, typed, &mut flags) {
            return Err(Ok(r));
        }
    }
    for l in &all {
        if let Some(r) = chunk_strings_reason(l, flags.case_filter) {
            return Err(Ok(r));
        }
    }
    let mut defs = Vec::new();
    let mut tnames = Vec::new();
    for tl in &listings {
        let root = listings.iter().find(|x| x.name == tl.root).map(|x| x.chunk.clone()).unwrap_or_else(|| tl.chunk.clone());
        let gt = gal_template(tl, &root);
        let dn = format!("tp_{:x}", fnv_pub(&gt));
        tnames.push(format!("({}, {})", gal_str(&tl.name), dn));
        defs.push((dn, gt));
    }
    let mut cnames = Vec::new();
    for (name, _, chunk) in &comps {
        let gc = format!("({}, {})", gal_comp_def(&tera, name), gal_code(chunk));
        let dn = format!("cp_{:x}", fnv_pub(&gc));
        cnames.push(format!("({}, {})", gal_str(name), dn));
        defs.push((dn, gc));
    }
    let instrs = all.iter().map(|l| l.len()).sum();
    Ok(Prepared {
        tera,
        listings,
        defs,
        world: format!("[{}]", tnames.join("; ")),
        comps: format!("[{}]", cnames.join("; ")),
        instrs,
        case_filter: flags.case_filter,
    })
}

fn to_context(c: &[(String, Value)]) -> Context {
    let mut ctx = Context::new();
    for (k, v) in c {
        ctx.insert_value(k.clone(), v.clone());
    }
    ctx
}

#[allow(clippy::too_many_arguments)]
fn emit(
    sink: &mut Sink,
    meta: &mut Meta,
    stats: &mut Stats,
    kind: &str,
    label: &str,
    templates: &[(String, String)],
    suffixes: &[&'static str],
    entries: &[(String, Option<String>)],
    ctxs: &[(String, Vec<(String, Value)>)],
    global: &[(String, Value)],
    typed: bool,
    custom: bool,
) -> bool {
    let mut p = match prepare(templates, suffixes, typed, custom) {
        Ok(p) => p,
        Err(Ok(reason)) => {
            *stats.skipped.entry(reason.clone()).or_default() += 1;
            if kind.starts_with("corpus") {
                stats.corpus_skipped.push((label.to_string(), reason));
            }
            return false;
        }
        Err(Err(e)) => {
            stats.rejected += 1;
            if kind.starts_with("corpus") {
                stats.corpus_skipped.push((label.to_string(), format!("rejected at registration: {e}")));
            } else if kind == "hand" {
                stats.rejected_hand.push(format!("{label}: {e}"));
            }
            return false;
        }
    };
    if !global.is_empty() {
        *p.tera.global_context() = to_context(global);
    }
    let mut any = false;
    for (cname, c) in ctxs {
        if let Some(r) = c.iter().chain(global.iter()).find_map(|(_, v)| value_reason(v, p.case_filter)) {
            *stats.skipped.entry(format!("context: {r}")).or_default() += 1;
            continue;
        }
        let ctx = to_context(c);
        for (entry, blk) in entries {
            let r = match blk {
                None => guarded(|| p.tera.render(entry, &ctx)),
                Some(b) => guarded(|| p.tera.render_block(entry, b, &ctx)),
            };
            meta.oracle_checks += 1;
            if let Outcome::Panic(msg) = &r {
                meta.oracle_fail(&format!("panic: {msg}"), None, json!({"templates": templates, "entry": entry, "context": cname}));
            }
            let g = format!(
                "{{| u_templates := {}; u_components := {}; u_entry := {}; u_block := {}; u_ctx := {}; u_global := {}; u_impl := {} |}}",
                p.world, p.comps, gal_str(entry), gal_opt(blk, |b| gal_str(b)), gal_ctx(c), gal_ctx(global),
                r.gal(|s| gal_str(s))
            );
            let desc = json!({"kind": kind, "label": label, "templates": templates, "entry": entry, "block": blk,
                "context": cname, "impl": r.json(|s| json!(s))});
            let nontrivial = matches!(&r, Outcome::Ok(s) if s.len() > 2) && p.instrs >= 6;
            let tag = match &r { Outcome::Ok(_) => "impl:ok", Outcome::Err(..) => "impl:err", Outcome::Panic(_) => "impl:panic" };
            sink.push_with_defs(&p.defs, g, desc, nontrivial, None, &[tag, kind]);
            any = true;
        }
    }
    if any && kind.starts_with("corpus") {
        stats.corpus_run.push(label.to_string());
    }
    any
}

// ------------------------------------------------------------------ contexts

fn m(entries: Vec<(&str, Value)>) -> Value {
    let mut mm = Map::new();
    for (k, v) in entries {
        mm.insert(k.to_string().into(), v);
    }
    Value::from(mm)
}
fn arr(v: Vec<Value>) -> Value {
    Value::from(v)
}
fn row(id: i64, name: &str, tag: Option<&str>, score: f64) -> Value {
    m(vec![
        ("id", Value::from(id)),
        ("name", Value::from(name)),
        ("tag", tag.map(Value::from).unwrap_or_else(Value::none)),
        ("score", Value::from(score)),
    ])
}

/// Variables with fixed types (the typed generator relies on them): n m z : integers; f g : floats;
/// s t e : strings; yes no : bools; xs : integers; ys : numbers; ws : strings; rows : maps with
/// id/name/tag/score; es : empty array; mp one : maps; nil : none; bs : bytes; u is never bound.
pub fn contexts1() -> Vec<(String, Vec<(String, Value)>)> {
    let mk = |n: Value, mv: Value, f: f64, g: f64, s: &str, t: &str, xs: Vec<i64>, ys: Vec<Value>, ws: Vec<&str>,
              rows: Vec<Value>, mp: Value, one: Value| {
        vec![
            ("n".to_string(), n),
            ("m".to_string(), mv),
            ("z".to_string(), Value::from(0u64)),
            ("f".to_string(), Value::from(f)),
            ("g".to_string(), Value::from(g)),
            ("s".to_string(), Value::from(s)),
            ("t".to_string(), Value::from(t)),
            ("e".to_string(), Value::from("")),
            ("yes".to_string(), Value::from(true)),
            ("no".to_string(), Value::from(false)),
            ("xs".to_string(), arr(xs.into_iter().map(Value::from).collect())),
            ("ys".to_string(), arr(ys)),
            ("ws".to_string(), arr(ws.into_iter().map(Value::from).collect())),
            ("rows".to_string(), arr(rows)),
            ("es".to_string(), arr(vec![])),
            ("mp".to_string(), mp),
            ("one".to_string(), one),
            ("nil".to_string(), Value::none()),
            ("bs".to_string(), Value::bytes(b"hi<".to_vec())),
        ]
    };
    vec![
        (
            "A".into(),
            mk(
                Value::from(3u64), Value::from(-7i64), 2.5, -0.75, "Hello World", "<b>a&b</b>", vec![3, 1, 2],
                vec![Value::from(1.5), Value::from(3u64), Value::from(2.0), Value::from(1u64)],
                vec!["pear", "apple", "fig"],
                vec![row(2, "b", Some("x"), 1.5), row(1, "a", None, 0.25), row(3, "c", Some("x"), -2.0), row(4, "d", Some("y"), 1e-7)],
                m(vec![("a", Value::from(1u64)), ("b", Value::from("two")), ("c", arr(vec![Value::from(1u64), Value::from(2u64)]))]),
                m(vec![("k", Value::from("v"))]),
            ),
        ),
        (
            "B".into(),
            mk(
                Value::from(0u64), Value::from(i64::MAX), 0.1, 1e21, "  padded\ttext \n", "it's \"q\" \\ done", vec![],
                vec![Value::from(2u64), Value::from(2.0), Value::from(-1i64)],
                vec!["b", "a", "b"],
                vec![],
                m(vec![]),
                { let mut mm = Map::new(); mm.insert(tera::value::Key::U64(1), Value::from("int key")); Value::from(mm) },
            ),
        ),
        (
            "C".into(),
            mk(
                Value::from(-4i64), Value::from(i128::MAX), -0.0, f64::NAN, "one two  three", "a.b.c", vec![5, 5, -5, 0],
                vec![Value::from(f64::INFINITY), Value::from(u64::MAX), Value::from(-0.5), Value::from(u128::MAX)],
                vec!["", "z", "Z", "10", "9"],
                vec![row(1, "same", Some("t"), 0.5), row(1, "same", Some("t"), 0.5)],
                m(vec![("a", Value::none()), ("n", m(vec![("deep", Value::from(7u64))]))]),
                m(vec![("true", Value::from(true))]),
            ),
        ),
        (
            "D".into(),
            mk(
                Value::from(12u64), Value::from(5u64), 1234.5678, 0.000012345, "gr\u{fc}\u{df}e \u{65e5}\u{672c} \u{1f600}", "l1\nl2\r\nl3\n\n", vec![10, 9, 8, 7, 6, 5, 4, 3, 2, 1],
                vec![Value::from(1u64), Value::from("s"), Value::from(2u64)],
                vec!["\u{e9}t\u{e9}", "ete", "\u{20ac}"],
                vec![row(1, "a", Some("x"), 3.0), m(vec![("id", Value::from(2u64))])],
                m(vec![("a", Value::from(2.5)), ("b", Value::from(false))]),
                m(vec![("k", arr(vec![]))]),
            ),
        ),
        (
            "E".into(),
            mk(
                Value::from(7u64), Value::from(u64::MAX), 1e16, 9999999999999998.0, "a b", "x", vec![2, 4, 6],
                vec![Value::from(1e-5), Value::from(0.0001), Value::from(123456789.125), Value::from(5e-324), Value::from(f64::MAX),
                     Value::from(-1e15), Value::from(0.30000000000000004), Value::from(1e-7)],
                vec!["x"],
                vec![row(3, "c", Some("1"), 2.0e10), row(1, "a", Some("2"), 1.0e-10), row(2, "b", Some("1"), f64::NEG_INFINITY)],
                m(vec![("a", Value::from(-1i64)), ("b", Value::from("B")), ("c", arr(vec![]))]),
                m(vec![("k", Value::from(1e100))]),
            ),
        ),
        (
            "F".into(),
            mk(
                Value::from(1i128), Value::from(u128::MAX), 4.0, 0.5, "Title case'd words-here and_there", "<>&\"'/", vec![1],
                vec![Value::from(i128::MIN), Value::from(-1.5), Value::from(u128::MAX), Value::from(0u64)],
                vec!["same", "same"],
                vec![row(-1, "neg", None, 0.0), row(i64::MIN, "min", None, -0.0)],
                m(vec![("a", Value::from(i128::MIN)), ("b", Value::from("")), ("c", arr(vec![Value::from(0u64)]))]),
                m(vec![("k", Value::none())]),
            ),
        ),
    ]
}

// ------------------------------------------------------------------ typed generator

#[derive(Clone, Copy, PartialEq, Debug)]
enum Ty {
    Int,
    Float,
    Str,
    Bool,
    ArrInt,
    ArrNum,
    ArrStr,
    Rows,
    MapV,
}

pub struct G<'a> {
    pub rng: &'a mut Rng,
    loops: usize,
    /// a loop variable `i` (integer element) is in scope
    ivar: bool,
    comps: bool,
    incs: bool,
    /// avoid the constructs that usually end a render with an error
    clean: bool,
}

const STR_LITS: [&str; 8] = ["\"ab\"", "\"Hello\"", "\" x \"", "\"a,b,,c\"", "\"<i>\"", "\"42\"", "\"\"", "\"l1\\nl2\""];

impl<'a> G<'a> {
    pub fn new(rng: &'a mut Rng, comps: bool, incs: bool) -> Self {
        G { rng, loops: 0, ivar: false, comps, incs, clean: false }
    }
    fn pick<'b>(&mut self, xs: &[&'b str]) -> &'b str {
        xs[self.rng.below(xs.len())]
    }
    /// `good` in clean mode, any of `good` and `bad` otherwise
    fn pick2<'b>(&mut self, good: &[&'b str], bad: &[&'b str]) -> &'b str {
        let n = if self.clean { good.len() } else { good.len() + bad.len() };
        let k = self.rng.below(n);
        if k < good.len() { good[k] } else { bad[k - good.len()] }
    }
    /// a divisor: a non-zero literal in clean mode
    fn divisor(&mut self, ty: Ty, d: u32) -> String {
        if self.clean {
            let k = self.rng.range(1, 9);
            if self.rng.chance(1, 5) { format!("(-{k})") } else if ty == Ty::Float && self.rng.chance(1, 2) { format!("{k}.5") } else { format!("{k}") }
        } else {
            self.e(ty, d)
        }
    }
    fn int_atom(&mut self) -> String {
        match self.rng.below(10) {
            0..=2 => "n".into(),
            3 => "m".into(),
            4 => "z".into(),
            5 if self.ivar => "i".into(),
            6 if self.loops > 0 => format!("loop.{}", self.pick(&["index", "index0", "length"])),
            _ => format!("{}", self.rng.range(0, 12)),
        }
    }
    fn float_atom(&mut self) -> String {
        match self.rng.below(6) {
            0..=1 => "f".into(),
            2 => "g".into(),
            _ => self.pick(&["1.5", "0.1", "2.0", "0.25", "10.75", "3.14159", "100.0", "0.3"]).into(),
        }
    }
    fn e_of(&mut self, tys: &[Ty], d: u32) -> String {
        let t = tys[self.rng.below(tys.len())];
        self.e(t, d)
    }
    fn num(&mut self, d: u32) -> String {
        if self.rng.chance(1, 2) { self.e(Ty::Int, d) } else { self.e(Ty::Float, d) }
    }
    /// an expression of a type picked at random
    fn any(&mut self, d: u32) -> String {
        self.e_of(&[Ty::Int, Ty::Int, Ty::Float, Ty::Str, Ty::Str, Ty::Bool, Ty::ArrInt, Ty::ArrStr, Ty::MapV], d)
    }
    fn kw_str(&mut self) -> String {
        self.pick(&["\"l\"", "\"o\"", "\" \"", "\",\"", "\"He\"", "\"ld\"", "\"\"", "\"x\"", "\"l1\""]).into()
    }
    pub fn e(&mut self, ty: Ty, d: u32) -> String {
        let d1 = d.saturating_sub(1);
        match ty {
            Ty::Int => {
                if d == 0 {
                    return self.int_atom();
                }
                match self.rng.below(24) {
                    0..=3 => self.int_atom(),
                    4 => format!("({} + {})", self.e(Ty::Int, d1), self.e(Ty::Int, d1)),
                    5 => format!("({} - {})", self.e(Ty::Int, d1), self.e(Ty::Int, d1)),
                    6 => format!("({} * {})", self.e(Ty::Int, d1), self.e(Ty::Int, d1)),
                    7 => format!("({} // {})", self.e(Ty::Int, d1), self.divisor(Ty::Int, d1)),
                    8 => format!("({} % {})", self.e(Ty::Int, d1), self.divisor(Ty::Int, d1)),
                    9 => format!("({} ** {})", self.e(Ty::Int, d1), self.rng.range(0, 5)),
                    10 => format!("(-{})", self.int_atom()),
                    11 => format!("(-({}))", self.e(Ty::Int, d1)),
                    12 => format!("({} | length)", self.e_of(&[Ty::Str, Ty::ArrInt, Ty::ArrStr, Ty::MapV, Ty::Rows], d1)),
                    13 => format!("({} | {})", self.e(Ty::ArrInt, d1), self.pick(&["first", "last", "nth(n=1)", "nth(n=0)", "nth(n=7)"]) ),
                    14 => format!("({} | wordcount)", self.e(Ty::Str, d1)),
                    15 => format!("({} | int)", self.pick2(&["\"42\"", "\" -7 \"", "\"+3\"", "2.0", "n", "m"], &["\"abc\"", "\"\"", "f", "yes"])),
                    16 => {
                        let (lit, base) = if self.clean {
                            *self.rng.pick(&[("ff", "16"), ("0x1F", "16"), ("101", "2"), ("0b101", "2"), ("0o17", "8"), ("z", "36"), ("-10", "10"), ("101", "16")])
                        } else {
                            (self.pick(&["ff", "0x1F", "101", "0b101", "0o17", "z", "-10"]), self.pick(&["16", "2", "8", "36", "10", "1", "37"]))
                        };
                        format!("(\"{lit}\" | int(base={base}))")
                    }
                    17 => format!("({} | abs)", self.e(Ty::Int, d1)),
                    18 => format!("{}[{}]", self.pick2(&["[4, 5, 6]", "range(end=4)"], &["xs"]), self.rng.range(-2, 2)),
                    19 => format!("({} if {} else {})", self.e(Ty::Int, d1), self.e(Ty::Bool, d1), self.e(Ty::Int, d1)),
                    20 => "rows[0].id".into(),
                    21 => format!("({} | default(value={}))", self.pick(&["u", "n", "nil", "mp.zz", "rows[0].nope"]), self.rng.range(0, 9)),
                    22 => format!("(mp | get(key={}, default=0))", self.pick(&["\"a\"", "\"zz\""])),
                    _ => format!("({} + {} * {})", self.int_atom(), self.int_atom(), self.int_atom()),
                }
            }
            Ty::Float => {
                if d == 0 {
                    return self.float_atom();
                }
                match self.rng.below(16) {
                    0..=2 => self.float_atom(),
                    3 => { let t = if self.rng.chance(1, 2) { Ty::Int } else { Ty::Float }; format!("({} / {})", self.num(d1), self.divisor(t, d1)) }
                    4 => format!("({} + {})", self.e(Ty::Float, d1), self.num(d1)),
                    5 => format!("({} - {})", self.num(d1), self.e(Ty::Float, d1)),
                    6 => format!("({} * {})", self.e(Ty::Float, d1), self.num(d1)),
                    7 => format!("({} // {})", self.e(Ty::Float, d1), self.divisor(Ty::Float, d1)),
                    8 => format!("({} % {})", self.e(Ty::Float, d1), self.divisor(Ty::Float, d1)),
                    9 => format!("(-{})", self.float_atom()),
                    10 => format!("({} | float)", self.num(d1)),
                    11 => format!("({} | round)", self.num(d1)),
                    12 => format!("({} | round(precision={}))", self.e(Ty::Float, d1), self.rng.range(0, 4)),
                    13 => format!("({} | round(method=\"{}\"{}))", self.e(Ty::Float, d1), self.pick2(&["ceil", "floor"], &["up"]),
                        if self.rng.chance(1, 2) { ", precision=1" } else { "" }),
                    14 => format!("({} | abs)", self.e(Ty::Float, d1)),
                    _ => "rows[0].score".into(),
                }
            }
            Ty::Bool => {
                if d == 0 {
                    return self.pick(&["yes", "no", "true", "false"]).into();
                }
                let cmp = self.pick(&["<", "<=", ">", ">=", "==", "!="]);
                let eqcmp = self.pick2(&["==", "!="], &["<", ">="]);
                match self.rng.below(22) {
                    0 => self.pick(&["yes", "no", "true", "false"]).into(),
                    1..=3 => format!("({} {cmp} {})", self.num(d1), self.num(d1)),
                    4 => format!("({} {cmp} {})", self.e(Ty::Str, d1), self.e(Ty::Str, d1)),
                    5 => format!("({} {eqcmp} {})", self.any(d1), self.any(d1)),
                    6 => format!("({} {} {})", self.e(Ty::ArrInt, d1), self.pick(&["==", "!=", "<", ">="]), self.e(Ty::ArrInt, d1)),
                    7 => format!("({} {} {})", self.e(Ty::Int, d1), self.pick(&["in", "not in"]), self.e_of(&[Ty::ArrInt, Ty::ArrNum], d1)),
                    8 => format!("({} {} {})", self.kw_str(), self.pick(&["in", "not in"]), self.e_of(&[Ty::Str, Ty::ArrStr, Ty::MapV], d1)),
                    9 => format!("({} in {})", self.any(d1), if self.clean { self.e_of(&[Ty::Str, Ty::ArrInt, Ty::ArrStr, Ty::MapV, Ty::ArrNum], d1) } else { self.any(d1) }),
                    10 => format!("(not {})", self.e(Ty::Bool, d1)),
                    11 => format!("({} and {})", self.e(Ty::Bool, d1), self.e(Ty::Bool, d1)),
                    12 => format!("({} or {})", self.e(Ty::Bool, d1), self.e(Ty::Bool, d1)),
                    13 => format!("({} is {})", self.e(Ty::Int, d1), self.pick2(&["odd", "even", "divisible_by(divisor=3)", "divisible_by(divisor=0)", "divisible_by(divisor=-1)", "divisible_by(divisor=2.0)"], &["divisible_by(divisor=1.5)", "divisible_by"])),
                    14 => format!("({} is {}(pat={}))", self.e(Ty::Str, d1), self.pick(&["starting_with", "ending_with", "containing"]), self.kw_str()),
                    15 => format!("({} is containing(pat={}))", self.e_of(&[Ty::ArrInt, Ty::ArrStr, Ty::MapV, Ty::ArrNum], d1), self.pick(&["1", "\"a\"", "2.0", "\"fig\"", "nil", "xs"])),
                    16 | 17 => format!("({} is {}{})", self.any(d1), if self.rng.chance(1, 4) { "not " } else { "" },
                        self.pick2(&["string", "number", "integer", "float", "map", "array", "bool", "none", "iterable", "defined", "undefined"], &["odd"])),
                    18 => format!("({} is {})", self.pick(&["u", "nil", "mp.a", "mp.zz", "rows[0].tag", "one?.q?.r"]), self.pick(&["defined", "undefined", "none"])),
                    19 => format!("({} == {})", self.e(Ty::MapV, d1), self.e(Ty::MapV, d1)),
                    20 => format!("({} {cmp} {})", self.e(Ty::Float, d1), self.e(Ty::Int, d1)),
                    _ => format!("({} == {})", self.pick(&["1", "1.0", "true", "\"1\"", "none", "[1]", "u"]), self.pick(&["1", "1.0", "true", "\"1\"", "none", "[1.0]", "u"])),
                }
            }
            Ty::Str => {
                if d == 0 {
                    return match self.rng.below(6) {
                        0 => "s".into(),
                        1 => "t".into(),
                        2 => "e".into(),
                        _ => self.pick(&STR_LITS).into(),
                    };
                }
                match self.rng.below(30) {
                    0..=2 => self.e(Ty::Str, 0),
                    3 => format!("({} ~ {})", self.e(Ty::Str, d1), self.any(d1)),
                    4 => format!("({} ~ {})", self.num(d1), self.e(Ty::Str, d1)),
                    5 => format!("({} | {})", self.e(Ty::Str, d1), self.pick(&["upper", "lower", "capitalize", "title"])),
                    6 => format!("({} | {})", self.e(Ty::Str, d1), self.pick(&["trim", "trim_start", "trim_end"])),
                    7 => format!("({} | {}(pat={}))", self.e(Ty::Str, d1), self.pick(&["trim", "trim_start", "trim_end"]), self.kw_str()),
                    8 => format!("({} | replace(from={}, to={}))", self.e(Ty::Str, d1), self.kw_str(), self.kw_str()),
                    9 => format!("({} | truncate(length={}, end={}))", self.e(Ty::Str, d1), self.rng.range(0, 12), self.pick(&["\"..\"", "\"\"", "\">\""])),
                    10 => format!("({} | indent{})", self.e(Ty::Str, d1), self.pick(&["", "(width=2)", "(first=true)", "(blank=true, width=1)", "(width=0)"])),
                    11 => format!("({} | {})", self.e(Ty::Str, d1), self.pick(&["escape_html", "escape_xml", "newlines_to_br", "safe"])),
                    12 => format!("({} | str)", self.any(d1)),
                    13 => format!("({} | join(sep={}))", self.e_of(&[Ty::ArrStr, Ty::ArrInt, Ty::ArrNum], d1), self.kw_str()),
                    14 => format!("({} | join)", self.e(Ty::ArrStr, d1)),
                    15 => format!("({} | pluralize{})", self.e(Ty::Int, d1), self.pick(&["", "(singular=\"y\", plural=\"ies\")", "(plural=\"es\")"])),
                    16 => format!("({} | {})", self.e(Ty::ArrStr, d1), self.pick(&["first", "last", "nth(n=1)"])),
                    17 => format!("({} | reverse)", self.e(Ty::Str, d1)),
                    18 => format!("{}[{}:{}]", self.pick(&["s", "t", "\"abcdef\""]), self.rng.range(-3, 3), self.rng.range(-2, 6)),
                    19 => format!("{}[::{}]", self.pick(&["s", "\"abcdef\""]), self.pick(&["-1", "2", "-2"])),
                    20 => format!("({} if {} else {})", self.e(Ty::Str, d1), self.e(Ty::Bool, d1), self.e(Ty::Str, d1)),
                    21 => format!("({} | default(value={}{}))", self.pick(&["u", "e", "nil", "s", "mp.b"]), self.kw_str(), if self.rng.chance(1, 2) { ", boolean=true" } else { "" }),
                    22 => format!("{}", self.pick(&["rows[0].name", "mp.b", "one.k", "ws[0]", "ws[-1]", "mp[\"b\"]"])),
                    23 => format!("({} | safe | {})", self.e(Ty::Str, d1), self.pick(&["upper", "trim", "str", "safe", "escape_html"])),
                    24 if !self.clean => format!("({} | {})", self.any(d1), self.pick(&["upper", "trim", "wordcount", "capitalize", "split(pat=\",\")", "first", "keys", "abs", "round", "length", "reverse"])),
                    25 => format!("(bs | {})", self.pick(&["str", "safe", "length", "reverse"])),
                    26 if self.comps => self.call(d1),
                    27 => format!("({} | str | {})", self.e(Ty::Float, d1), self.pick(&["length", "upper", "reverse"])),
                    _ => format!("({} ~ {} ~ {})", self.e(Ty::Str, 0), self.int_atom(), self.float_atom()),
                }
            }
            Ty::ArrInt => {
                if d == 0 {
                    return self.pick(&["xs", "[1, 2, 3]", "es", "range(end=3)"]).into();
                }
                match self.rng.below(14) {
                    0..=1 => self.e(Ty::ArrInt, 0),
                    2 => format!("range(end={})", self.e(Ty::Int, d1)),
                    3 => {
                        if self.clean {
                            let a = self.rng.range(-3, 5);
                            let len = self.rng.range(0, 6);
                            if self.rng.chance(1, 2) { format!("range(start={a}, end={}, step_by={})", a + len, self.pick(&["1", "2", "3"])) }
                            else { format!("range(start={}, end={a}, step_by={})", a + len, self.pick(&["-1", "-2"])) }
                        } else {
                            format!("range(start={}, end={}, step_by={})", self.rng.range(-3, 5), self.rng.range(-3, 9), self.pick(&["1", "2", "-1", "-2", "0", "3"]))
                        }
                    }
                    4 => format!("({} | {})", self.e(Ty::ArrInt, d1), self.pick(&["reverse", "sort", "unique"])),
                    5 => format!("[{}, {}]", self.e(Ty::Int, d1), self.e(Ty::Int, d1)),
                    6 => format!("[...{}, {}]", self.e(Ty::ArrInt, d1), self.e(Ty::Int, d1)),
                    7 => format!("[x * {} for x in {}{}]", self.rng.range(1, 3), self.e(Ty::ArrInt, d1), self.pick(&["", " if x is odd", " if x > 1"])),
                    8 => format!("{}[{}:{}]", self.pick(&["xs", "range(end=6)"]), self.pick(&["", "1", "-2"]), self.pick(&["", "2", "-1"])),
                    9 => format!("{}[::{}]", self.pick(&["xs", "range(end=6)"]), self.pick2(&["-1", "2"], &["0"])),
                    10 => "[r.id for r in rows | sort(attribute=\"score\")]".into(),
                    11 => "mp.c".into(),
                    12 => format!("({} if {} else {})", self.e(Ty::ArrInt, d1), self.e(Ty::Bool, d1), self.e(Ty::ArrInt, d1)),
                    _ => format!("(rows | {})", self.pick(&["length", "first", "sort(attribute=\"name\")"])),
                }
            }
            Ty::ArrNum => match self.rng.below(5) {
                0..=1 => "ys".into(),
                2 => format!("[{}, {}, {}]", self.num(d.min(1)), self.num(0), self.num(0)),
                3 => format!("(ys | {})", self.pick(&["sort", "unique", "reverse"])),
                _ => "[1, 1.0, 2, 0.5]".into(),
            },
            Ty::ArrStr => {
                if d == 0 {
                    return self.pick(&["ws", "[\"b\", \"a\"]"]).into();
                }
                match self.rng.below(9) {
                    0..=1 => self.e(Ty::ArrStr, 0),
                    2 => format!("({} | split(pat={}))", self.e(Ty::Str, d1), self.kw_str()),
                    3 => format!("({} | {})", self.e(Ty::ArrStr, d1), self.pick(&["sort", "unique", "reverse"])),
                    4 => format!("(mp | keys | sort)"),
                    5 => format!("(one | {})", self.pick(&["keys", "values"])),
                    6 => "[r.name for r in rows]".into(),
                    7 => format!("[{}, {}]", self.e(Ty::Str, d1), self.e(Ty::Str, 0)),
                    _ => format!("(rows | group_by(attribute=\"tag\") | keys | sort)"),
                }
            }
            Ty::Rows => match self.rng.below(6) {
                0..=1 => "rows".into(),
                2 => format!("(rows | sort(attribute=\"{}\"))", self.pick2(&["id", "name", "score", "tag"], &["nope", "id.x"])),
                3 => "(rows | unique)".into(),
                4 => "(rows | reverse)".into(),
                _ => "(rows | group_by(attribute=\"tag\") | get(key=\"x\", default=[]))".into(),
            },
            Ty::MapV => match self.rng.below(9) {
                0..=1 => "mp".into(),
                2 => "one".into(),
                3 => format!("{{\"a\": {}, \"b\": {}}}", self.e(Ty::Int, d.min(1)), self.e(Ty::Str, 0)),
                4 => format!("{{...mp, \"a\": {}}}", self.int_atom()),
                5 => format!("(rows | group_by(attribute=\"{}\"))", self.pick2(&["tag", "id", "name"], &["score", "nope"])),
                6 => "rows[0]".into(),
                7 => format!("{{{}: \"i\", true: \"b\", \"s\": {}}}", self.rng.range(0, 3), self.float_atom()),
                _ => "{}".into(),
            },
        }
    }

    /// a component call used as an expression
    fn call(&mut self, d: u32) -> String {
        let d1 = d.min(1);
        if self.clean {
            return match self.rng.below(8) {
                0 => format!("<twice x={{{}}}/>", self.e_of(&[Ty::Int, Ty::Float, Ty::Str, Ty::Bool], d1)),
                1 => format!("<box title={{{}}} n={{{}}}/>", self.e(Ty::Str, d1), self.e(Ty::Int, d1)),
                2 => format!("<box title=\"T\" flag={{{}}} extra={{{}}} more=\"m\"/>", self.e(Ty::Bool, d1), self.any(d1)),
                3 => format!("<calc a={{{}}} b={{{}}}/>", self.num(d1), self.num(d1)),
                4 => format!("<rec k={{{}}}/>", self.pick(&["0", "3", "5", "z"])),
                5 => format!("<nest v={{{}}}/>", self.e(Ty::Str, d1)),
                6 => format!("<box {{...{}}}/>", self.pick(&["{\"title\": \"sp\", \"n\": 4}", "{\"title\": s, \"zz\": [1]}"])),
                _ => format!("<lister items={{{}}} sep={{{}}}/>", self.e_of(&[Ty::ArrInt, Ty::ArrStr, Ty::ArrNum], d1), self.kw_str()),
            };
        }
        match self.rng.below(12) {
            0 => format!("<twice x={{{}}}/>", self.any(d1)),
            1 => format!("<box title={{{}}} n={{{}}}/>", self.e(Ty::Str, d1), self.e(Ty::Int, d1)),
            2 => format!("<box title=\"T\" flag={{{}}} extra={{{}}} more=\"m\"/>", self.e(Ty::Bool, d1), self.any(d1)),
            3 => format!("<box title={{{}}}/>", self.any(d1)),
            4 => "<box n={2}/>".into(),
            5 => format!("<calc a={{{}}} b={{{}}}/>", self.num(d1), self.num(d1)),
            6 => format!("<rec k={{{}}}/>", self.pick(&["0", "3", "n", "25", "z"])),
            7 => format!("<nest v={{{}}}/>", self.e(Ty::Str, d1)),
            8 => format!("<strict who=\"w\" bogus={{{}}}/>", self.int_atom()),
            9 => format!("<box {{...{}}}/>", self.pick(&["mp", "{\"title\": \"sp\", \"n\": 4}", "one", "{\"title\": s}", "xs"])),
            10 => format!("<lister items={{{}}} sep={{{}}}/>", self.e_of(&[Ty::ArrInt, Ty::ArrStr, Ty::ArrNum], d1), self.kw_str()),
            _ => "<strict who s/>".into(),
        }
    }

    pub fn stmt(&mut self, depth: u32) -> String {
        let d = depth.saturating_sub(1);
        let top = if depth == 0 { 5 } else { 22 };
        match self.rng.below(top) {
            0 => "t ".into(),
            1..=4 => format!("{{{{ {} }}}}", self.any(2)),
            5 => format!("{{% if {} %}}{}{{% endif %}}", self.e(Ty::Bool, 2), self.body(d)),
            6 => format!(
                "{{% if {} %}}{}{{% elif {} %}}{}{{% else %}}{}{{% endif %}}",
                self.e(Ty::Bool, 1), self.body(d), self.e(Ty::Bool, 1), self.body(d), self.body(d)
            ),
            7 | 8 => {
                let target = self.e(Ty::ArrInt, 1);
                let (l, iv) = (self.loops, self.ivar);
                self.loops += 1;
                self.ivar = true;
                let b = self.body(d);
                self.loops = l;
                self.ivar = iv;
                let els = if self.rng.chance(1, 3) { format!("{{% else %}}{}", self.body(d)) } else { String::new() };
                format!("{{% for i in {target} %}}{{{{ loop.index }}}}:{b}{els}{{% endfor %}}")
            }
            9 => {
                let l = self.loops;
                self.loops += 1;
                let b = self.body(d);
                self.loops = l;
                format!("{{% for k, v in {} %}}{{{{ k }}}}={{{{ v }}}};{b}{{% endfor %}}", self.pick(&["one", "{\"only\": 1}", "mp", "xs"]))
            }
            10 => {
                let l = self.loops;
                self.loops += 1;
                let b = self.body(d);
                self.loops = l;
                format!("{{% for r in {} %}}{{{{ r.id }}}}{{{{ r.name | upper }}}}{b}{{% endfor %}}", self.e(Ty::Rows, 1))
            }
            11 => format!("{{% for ch in {} %}}[{{{{ ch }}}}]{{% endfor %}}", self.e(Ty::Str, 1)),
            12 => format!("{{% set v = {} %}}{{{{ v }}}}", self.any(2)),
            13 => format!("{{% set acc = {} %}}{{% set acc = acc + {} %}}{{{{ acc }}}}", self.e(Ty::Int, 1), self.num(1)),
            14 => format!("{{% set cap %}}{}{{% endset %}}{{{{ cap | {} }}}}", self.body(d), self.pick(&["length", "upper", "trim", "safe", "wordcount"])),
            15 => format!("{{% filter {} %}}{}{{% endfilter %}}", self.pick(&["upper", "trim", "title", "replace(from=\"t\", to=\"T\")", "indent(width=1)", "escape_html", "wordcount", "truncate(length=5, end=\"~\")"]), self.body(d)),
            16 => {
                if self.loops > 0 {
                    let kw = if self.rng.chance(1, 2) { "break" } else { "continue" };
                    format!("{{% if {} %}}{{% {kw} %}}{{% endif %}}", self.e(Ty::Bool, 1))
                } else {
                    format!("{{{{ {} }}}}", self.e(Ty::Int, 2))
                }
            }
            17 => format!("{{% set_global g = {} %}}", self.any(1)),
            18 if self.incs => format!("{{% include \"{}\" %}}", self.pick(&["inc1", "inc2"])),
            19 if self.comps => format!("{{{{ {} }}}}", self.call(2)),
            20 if self.comps => {
                let open = match self.rng.below(4) {
                    0 => "<wrap>".to_string(),
                    1 => format!("<wrap cls={{{}}}>", self.e(Ty::Str, 1)),
                    2 => format!("<box title=\"B\" n={{{}}}>", self.e(Ty::Int, 1)),
                    _ => "<twice x=\"q\">".to_string(),
                };
                let name: String = open[1..].chars().take_while(|c| c.is_alphanumeric()).collect();
                format!("{{% {open} %}}{}{{% </{name}> %}}", self.body(d))
            }
            _ => format!("{{{{ {} }}}}", self.e_of(&[Ty::Float, Ty::Bool, Ty::Str], 2)),
        }
    }

    pub fn body(&mut self, depth: u32) -> String {
        let n = 1 + self.rng.below(3);
        (0..n).map(|_| self.stmt(depth)).collect()
    }
}

/// the fixed component library, includes and base template every generated program may use
fn library() -> Vec<(String, String)> {
    vec![
        (
            "comps.html".into(),
            concat!(
                "{% component twice(x) %}{{ x }}{{ x }}{% endcomponent twice %}",
                "{% component box(title: string, n: integer = 1, flag: bool = false, ...rest) %}",
                "[{{ title }}|{{ n * 2 }}|{% if flag %}F{% endif %}|{{ rest | length }}|{{ body | default(value=\"nobody\") }}]{% endcomponent box %}",
                "{% component wrap(cls = \"c\") %}<div class=\"{{ cls }}\">{{ body }}</div>{% endcomponent wrap %}",
                "{% component calc(a: number, b: number = 2) %}{{ a + b }};{{ a * b }};{{ a > b }}{% endcomponent calc %}",
                "{% component rec(k: integer) %}{% if k > 0 %}{{ k }}{{ <rec k={k - 1}/> }}{% endif %}{% endcomponent rec %}",
                "{% component nest(v) %}{{ <twice x={v ~ \"!\"}/> }}{% include \"inc1\" %}{% set_global gg = 1 %}{{ n | default(value=\"no-n\") }}{% endcomponent nest %}",
                "{% component strict(who: string, s = none) %}{{ who }}{% if s is none %}-{% else %}{{ s | length }}{% endif %}{% endcomponent strict %}",
                "{% component lister(items: array, sep: string = \",\") %}{% for it in items %}{{ it }}{% if not loop.last %}{{ sep }}{% endif %}{% endfor %}{% endcomponent lister %}",
            )
            .to_string(),
        ),
        ("inc1".into(), "<{{ n | default(value=\"?\") }}{{ i | default(value=\"\") }}{{ loop_v | default(value=\"\") }}>".into()),
        ("inc2".into(), "{% set q = 2 %}({% include \"inc1\" %}{{ q * 3 }}{{ v | default(value=\"nov\") }})".into()),
        (
            "base.html".into(),
            "B[{% block head %}H{{ n + 1 }}{% endblock %}|{% block body %}b0{% block inner %}i0{% endblock %}{% endblock %}|{% block foot %}{{ xs | length }}{% endblock %}]".into(),
        ),
    ]
}

fn hand_programs() -> Vec<&'static str> {
    vec![
        // for-else decided by "was there anything to iterate", not by what the last element is;
        // loop-local assignments do not leak into a later loop started inside the same outer loop
        "{% for x in [1, u] %}[{{ loop.index }}/{{ loop.length }}]{% else %}EMPTY{% endfor %}",
        "{% for x in [u] %}i{% else %}EMPTY{% endfor %}|{% for x in [u, 1] %}i{% else %}EMPTY{% endfor %}|{% for x in [] %}i{% else %}EMPTY{% endfor %}",
        "{% for k, v in {\"a\": u} %}{{ k }}{% else %}EMPTY{% endfor %}|{% for k, v in {\"b\": nil} %}{{ k }}{% else %}EMPTY{% endfor %}",
        "{% for x in [1, u, 2] %}{% if x is undefined %}{% break %}{% endif %}i{% else %}EMPTY{% endfor %}|{% for x in [nil] %}n{% else %}EMPTY{% endfor %}",
        "{% for row in [[\"a\", \"x\"], [\"b\", \"c\"]] %}{% for c in row %}{% if c == \"x\" %}{% set hit = true %}{% endif %}{% if hit is defined %}!{% else %}.{% endif %}{% endfor %}|{% endfor %}",
        "{% for o in [1, 2] %}{% for a in [1] %}{% set s = \"x\" %}{% endfor %}{% for b in [1, 2] %}{{ s }}-{% set s = \"c\" %}{% endfor %}|{% endfor %}",
        "{% for o in [1, 2] %}{% for a in [1, 2] %}{% set t = a %}{% endfor %}{{ [t for q in [7]] }}{% endfor %}",
        "{{ 1 + 10 * 2 / 5 }} {{ 10 % 3 }} {{ 2 ** 10 }} {{ 7 // 2 }} {{ -7 // 2 }} {{ -7 % 3 }} {{ 7.5 // 2 }} {{ -7.5 % 2 }}",
        "{{ n + m }} {{ n - m }} {{ n * m }} {{ n / m }} {{ n // m }} {{ n % m }} {{ -n }} {{ -m }} {{ -f }}",
        "{{ m + 1 }}",
        "{{ m * m * m }}",
        "{{ -m - 2 }}",
        "{{ n / z }}",
        "{{ n // z }}",
        "{{ n % z }}",
        "{{ f / 0.0 }}",
        "{{ f + g }} {{ f - g }} {{ f * g }} {{ f / g }} {{ g // f }} {{ g % f }}",
        "{{ 0.1 + 0.2 }} {{ 1.0 }} {{ 100000000000000000000.0 }} {{ 0.00001 }} {{ 123456789012345678 * 1.0 }}",
        "{{ 1 < 2 }} {{ 1 < 1.5 }} {{ 2.0 <= 2 }} {{ \"a\" < \"b\" }} {{ [1, 2] < [1, 3] }} {{ true > false }} {{ none == none }}",
        "{{ 1 < \"a\" }}",
        "{{ [1] < 2 }}",
        "{{ mp < mp }}",
        "{{ 1 == 1.0 }} {{ 1 != 1.0 }} {{ \"1\" == 1 }} {{ [1, 2.0] == [1.0, 2] }} {{ mp == mp }} {{ {\"a\": 1} == {\"a\": 1.0} }} {{ u == u }} {{ nil == u }}",
        "{{ 1 in xs }} {{ 9 not in xs }} {{ 2.0 in xs }} {{ \"ell\" in s }} {{ \"a\" in mp }} {{ 1 in one }} {{ 1 in \"1\" }} {{ xs in [xs] }}",
        "{{ 1 in 2 }}",
        "{{ s | upper }}|{{ s | lower }}|{{ s | capitalize }}|{{ \"hello wORLD it's\" | title }}|{{ s | wordcount }}|{{ s | length }}|{{ s | reverse }}",
        "{{ \"  x \" | trim }}|{{ \"  x \" | trim_start }}|{{ \"  x \" | trim_end }}|{{ \"xxaxx\" | trim(pat=\"x\") }}|{{ \"xxaxx\" | trim_start(pat=\"xx\") }}|{{ \"xxaxx\" | trim_end(pat=\"\") }}",
        "{{ s | replace(from=\"l\", to=\"L\") }}|{{ s | replace(from=\"\", to=\"-\") }}|{{ s | truncate(length=3) }}|{{ s | truncate(length=3, end=\"\") }}|{{ s | truncate(length=100) }}",
        "{{ \"a\\nb\\n\\nc\" | indent }}|{{ \"a\\nb\" | indent(width=2, first=true) }}|{{ \"a\\n\\nb\\n\" | indent(blank=true) }}|{{ \"a\\r\\nb\" | newlines_to_br }}",
        "{{ t | escape_html }}|{{ t | escape_xml }}|{{ t | safe }}|{{ t }}|{{ t | escape_html | safe }}|{{ t | upper | safe }}|{{ t | safe | upper }}",
        "{{ 1 | pluralize }}|{{ 2 | pluralize }}|{{ 0 | pluralize(singular=\"y\", plural=\"ies\") }}|{{ -1 | pluralize(plural=\"es\") }}",
        "{{ 1.5 | pluralize }}",
        "{{ \"42\" | int }}|{{ \"-0x1f\" | int(base=16) }}|{{ \"0b11\" | int(base=2) }}|{{ \"z\" | int(base=36) }}|{{ 3.0 | int }}|{{ m | int }}|{{ 7 | float }}|{{ f | float }}",
        "{{ \"4x\" | int }}",
        "{{ 2.5 | int }}",
        "{{ \"1\" | int(base=1) }}",
        "{{ 2.5 | round }}|{{ 3.5 | round }}|{{ -2.5 | round }}|{{ 2.45 | round(precision=1) }}|{{ 2.41 | round(method=\"ceil\", precision=1) }}|{{ 2.49 | round(method=\"floor\", precision=1) }}|{{ 7 | round }}|{{ 1234.5678 | round(precision=2) }}",
        "{{ 2.5 | round(method=\"up\") }}",
        "{{ -3 | abs }}|{{ -3.5 | abs }}|{{ m | abs }}|{{ 3 | abs }}",
        "{{ xs | first }}|{{ xs | last }}|{{ xs | nth(n=1) }}|{{ xs | nth(n=99) }}|{{ es | first }}|{{ xs | length }}|{{ xs | reverse }}|{{ xs | sort }}|{{ xs | unique }}",
        "{{ xs | nth }}",
        "{{ xs | nth(n=-1) }}",
        "{{ ys | sort }}|{{ ys | unique }}|{{ ws | sort }}|{{ ws | unique }}|{{ ws | join(sep=\"+\") }}|{{ xs | join }}|{{ ys | join(sep=\" \") }}|{{ [1, \"a\", none, 2.5, true, [1], {\"k\": \"v\"}] | join(sep=\"|\") }}",
        "{{ [1, \"a\"] | sort }}",
        "{{ [none, 2, 1] | sort }}|{{ [[2, 1], [1, 9], [1]] | sort }}|{{ [true, false] | sort }}",
        "{{ rows | sort(attribute=\"id\") }}",
        "{% for r in rows | sort(attribute=\"score\") %}{{ r.id }}:{{ r.score }};{% endfor %}",
        "{{ rows | sort(attribute=\"nope\") }}",
        "{{ rows | group_by(attribute=\"tag\") }}",
        "{{ rows | group_by(attribute=\"id\") | length }}",
        "{{ rows | group_by(attribute=\"score\") }}",
        "{{ [[1, \"a\"], [2, \"b\"], [1, \"c\"]] | group_by(attribute=\"0\") }}|{{ [[3, 1], [2, 2]] | sort(attribute=\"1\") }}|{{ [{\"a\": {\"b\": 2} }, {\"a\": {\"b\": 1} }] | sort(attribute=\"a.b\") }}",
        "{{ mp | keys | sort }}|{{ mp | values | length }}|{{ one | keys }}|{{ one | values }}|{{ one | pairs }}|{{ mp | get(key=\"a\") }}|{{ mp | get(key=\"zz\", default=\"d\") }}|{{ mp | length }}",
        "{{ mp | get(key=\"zz\") }}",
        "{{ mp | get(key=1) }}",
        "{{ \"a,b,,c\" | split(pat=\",\") }}|{{ \"abc\" | split(pat=\"\") }}|{{ \"\" | split(pat=\"x\") }}|{{ s | split(pat=\"l\") | join(sep=\"_\") }}",
        "{{ range(end=5) }}|{{ range(start=2, end=5) }}|{{ range(start=5, end=0, step_by=-2) }}|{{ range(end=0) }}|{{ range(start=0, end=10, step_by=3) | reverse }}",
        "{{ range(start=3, end=1) }}",
        "{{ range(end=3, step_by=0) }}",
        "{{ range() }}",
        "{{ range(end=200000) | length }}",
        "{{ range(end=\"3\") }}",
        "{{ throw(message=\"boom\") }}",
        "{{ n is odd }}{{ n is even }}{{ n is divisible_by(divisor=3) }}{{ 1.5 is odd | default(value=\"x\") }}",
        "{{ 1.5 is odd }}",
        "{{ s is starting_with(pat=\"He\") }}{{ s is ending_with(pat=\"ld\") }}{{ s is containing(pat=\"lo W\") }}{{ xs is containing(pat=2) }}{{ mp is containing(pat=\"a\") }}{{ xs is containing(pat=2.0) }}",
        "{{ 1 is containing(pat=1) }}",
        "{{ s is string }}{{ n is number }}{{ n is integer }}{{ f is float }}{{ mp is map }}{{ xs is array }}{{ yes is bool }}{{ nil is none }}{{ s is iterable }}{{ bs is iterable }}{{ u is undefined }}{{ n is not string }}",
        "{{ s[0] }}{{ s[-1] }}{{ s[1:3] }}{{ s[::-1] }}{{ xs[0] }}{{ xs[-1] }}{{ xs[1:] }}{{ xs[::-1] }}{{ mp[\"a\"] }}{{ mp.c[1] }}{{ rows[1].name }}{{ one[\"k\"] }}",
        "{{ xs[10] }}",
        "{{ [x * x for x in xs if x > 1] }}{{ [r.name ~ r.id for r in rows] }}{{ [k for k, v in one] }}{{ [...xs, 4, ...es] }}{{ {...one, \"z\": 1} }}",
        "{{ bs }}|{{ bs | length }}|{{ bs | safe }}|{{ bs | str }}|{{ [bs] | join }}|{% for b in bs %}{{ b }},{% endfor %}",
        "{{ __tera_context }}",
        "{% set a = 1 %}{% for i in range(end=3) %}{% set a = a + i %}{% set_global tot = a * 2 %}{{ a }}{% endfor %}{{ a }}{{ tot }}",
        "{% for i in range(end=10) %}{% if i % 2 == 0 %}{% continue %}{% endif %}{% if i > 6 %}{% break %}{% endif %}{{ i * i }},{% endfor %}",
        "{% for r in rows %}{% for x in xs %}{{ r.id * x }}{% if x == r.id %}{% break %}{% endif %} {% endfor %}|{% endfor %}",
        "{% filter upper %}a{{ n + 1 }}{% filter trim %}  b {% endfilter %}{% endfilter %}{% set c %}{{ f * 2 }}x{% endset %}{{ c | length }}{{ c }}",
        "{{ <twice x={n + 1}/> }}|{{ <box title=\"T\"/> }}|{{ <box title={s} n={n * 3} flag={n > 1} a=\"1\" b={f}/> }}|{% <wrap cls=\"k\"> %}in {{ n }}{% </wrap> %}|{{ <calc a={f}/> }}",
        "{{ <box title={n}/> }}",
        "{{ <box/> }}",
        "{{ <strict who=\"w\" x=\"1\"/> }}",
        "{{ <rec k={5}/> }}|{{ <nest v={s}/> }}|{{ <lister items={xs | sort} sep=\"-\"/> }}|{{ <strict who=\"w\" s={xs}/> }}|{{ gg | default(value=\"nogg\") }}",
        "{{ <rec k={25}/> }}",
        "{{ <box {...{\"title\": \"sp\", \"n\": 4, \"zz\": 1} } n={9}/> }}|{{ <box n={9} {...{\"title\": \"sp\", \"n\": 4} }/> }}",
        "{% <box title=\"outer\"> %}o{% <wrap> %}w{{ <twice x={n}/> }}{% </wrap> %}{% </box> %}",
        "{% for i in xs %}{% include \"inc2\" %}{% endfor %}{% set v = \"V\" %}{% include \"inc2\" %}",
        "{% extends \"base.html\" %}{% block head %}{{ super() }}+{{ n * 2 }}{% endblock %}{% block inner %}{{ <twice x={f}/> }}{{ super() | upper }}{% endblock %}",
        "{{ [1.5, 2, none] | first + 1 }} {{ (xs | last) ** 2 }} {{ (ys | sort | first) }}",
        "{{ 3 if yes else 4 }}|{{ 3.0 if no else s }}|{{ (n if n > 2 else m) + 1 }}|{{ yes and n }}|{{ no or f }}|{{ not n }}|{{ nil or u or 5 }}",
        "{{ 1 ~ 2.5 ~ true ~ none ~ \"s\" ~ [1] }}",
        "{{ f | str }}|{{ g | str | length }}|{{ [f, g, 10000000000.0 * 10000000000.0] }}|{{ {\"k\": f} }}|{{ -0.0 }}|{{ 0.0 / 0.0 }}",
        "{{ 9007199254740993 == 9007199254740992.0 }} {{ 9007199254740993 > 9007199254740992.0 }} {{ m > g }} {{ m == m * 1.0 }}",
        "{{ 9223372036854775807 * 9223372036854775807 * 2 }}",
        "{{ 9223372036854775807 * 9223372036854775807 * 4 }}",
        "{{ 9223372036854775807 + 1 }} {{ -9223372036854775807 - 2 }} {{ 9223372036854775807 == 9223372036854775807.0 }} {{ 9223372036854775807 < 9223372036854775808.0 }}",
        "{{ 2 ** 127 }}",
        "{{ 2 ** 126 * 2 - 1 }} {{ (-2) ** 127 }} {{ 0 ** 0 }} {{ 1 ** 4294967295 }}",
    ]
}

// ------------------------------------------------------------------ the snapshot corpus

#[derive(Debug, Serialize)]
struct Product {
    name: String,
}
#[derive(Debug, Serialize)]
struct Review {
    title: String,
    paragraphs: Vec<String>,
}
impl Review {
    fn new() -> Review {
        Review { title: "My review".to_owned(), paragraphs: vec!["A".to_owned(), "B".to_owned(), "C".to_owned()] }
    }
}
#[derive(Debug, Serialize)]
struct NestedObject {
    label: String,
    parent: Option<Box<NestedObject>>,
    numbers: Vec<usize>,
}
#[derive(Debug, Serialize)]
struct YearData {
    id: usize,
    year: Option<usize>,
}

/// snapshot_tests/rendering.rs get_context(), statement by statement
fn corpus_context() -> Vec<(String, Value)> {
    let mut context = Context::new();
    context.insert("name", &"Bob");
    context.insert("description", &"<p>I should be escaped by default</p>");
    context.insert("some_html", &"<p>Some HTML chars & more</p>");
    context.insert("age", &18);
    context.insert("some_bool", &true);
    context.insert("one", &1);
    context.insert("product", &Product { name: "Moto G".to_owned() });
    context.insert("vectors", &vec![vec![0, 3, 6], vec![1, 4, 7]]);
    context.insert("numbers", &vec![1, 2, 3]);
    context.insert("empty", &Vec::<usize>::new());
    let parent = NestedObject { label: "Parent".to_string(), parent: None, numbers: vec![1, 2, 3] };
    let child = NestedObject { label: "Child".to_string(), parent: Some(Box::new(parent)), numbers: vec![1, 2, 3] };
    context.insert("objects", &vec![child]);
    let mut data: HashMap<String, Value> = HashMap::new();
    data.insert("names".to_string(), vec!["Tchoupi".to_string(), "Pilou".to_string(), "Fanny".to_string()].into());
    data.insert("weights".to_string(), vec![50.6, 70.1].into());
    context.insert("data", &data);
    context.insert("reviews", &vec![Review::new(), Review::new()]);
    context.insert("to", &"&");
    context.insert("malicious", &"<html>");
    context.insert(
        "year_data",
        &vec![
            YearData { id: 1, year: Some(2015) },
            YearData { id: 2, year: Some(2015) },
            YearData { id: 3, year: Some(2016) },
            YearData { id: 4, year: Some(2017) },
            YearData { id: 5, year: Some(2018) },
            YearData { id: 6, year: None },
            YearData { id: 7, year: Some(2018) },
        ],
    );
    context.insert_value("bytes", Value::bytes(b"hello".to_vec()));
    let names = [
        "name", "description", "some_html", "age", "some_bool", "one", "product", "vectors", "numbers", "empty", "objects",
        "data", "reviews", "to", "malicious", "year_data", "bytes",
    ];
    names.iter().map(|n| (n.to_string(), context.get(n).expect("context key").clone())).collect()
}

/// the custom filter rendering_ok registers (State::get with path support): outside the model
fn register_read_ctx(tera: &mut Tera) {
    tera.register_filter("read_ctx", |x: &str, _: tera::Kwargs, state: &tera::State| {
        if let Some((start, rest)) = x.split_once('.') {
            let base: Value = state.get(start)?.unwrap_or(Value::undefined());
            Ok(base.get_from_path(rest).cloned().unwrap_or(Value::undefined()))
        } else {
            Ok(state.get::<Value>(x)?.unwrap_or(Value::undefined()))
        }
    });
}

fn split_multi(body: &str) -> Vec<(String, String)> {
    body.split("$$ ")
        .skip(1)
        .map(|part| {
            let mut chars = part.chars();
            let filename: String = chars.by_ref().take_while(|&c| c != '\n').collect();
            (filename, chars.collect::<String>().trim().to_string())
        })
        .collect()
}

fn corpus(sink: &mut Sink, meta: &mut Meta, stats: &mut Stats) {
    let root = std::path::Path::new("/repo/tera/src/snapshot_tests/rendering_inputs");
    let ctx = vec![("snapshot".to_string(), corpus_context())];
    for group in ["success", "errors"] {
        let kind = if group == "success" { "corpus" } else { "corpus-err" };
        let mut dirs = vec![root.join(group)];
        for sub in ["components", "inheritance", "include"] {
            dirs.push(root.join(group).join(sub));
        }
        for (di, dir) in dirs.iter().enumerate() {
            let Ok(rd) = std::fs::read_dir(dir) else { continue };
            let mut files: Vec<_> = rd.flatten().map(|e| e.path()).filter(|p| p.is_file()).collect();
            files.sort();
            for f in files {
                let fname = f.file_name().unwrap().to_string_lossy().to_string();
                if !fname.contains(".txt") {
                    continue;
                }
                let Ok(contents) = std::fs::read_to_string(&f) else { continue };
                let contents = contents.replace("\r\n", "\n");
                let label = f.strip_prefix(root).unwrap().to_string_lossy().to_string();
                if di == 0 {
                    // rendering_ok / rendering_errors: one template named after the file;
                    // autoescape on ".txt" for the success group, the default suffixes otherwise
                    let suffixes: &[&'static str] = if group == "success" { &[".txt"] } else { &[".html", ".htm", ".xml"] };
                    let tpls = vec![(fname.clone(), contents.clone())];
                    let ok = emit(sink, meta, stats, kind, &label, &tpls, suffixes, &[(fname.clone(), None)], &ctx, &[], false, group == "success");
                    if !ok && contents.contains("read_ctx") {
                        // the same template without the lines that call the custom filter
                        let reduced: String = contents.lines().filter(|l| !l.contains("read_ctx") && l.is_ascii()).map(|l| format!("{l}\n")).collect();
                        let tpls = vec![(fname.clone(), reduced)];
                        emit(sink, meta, stats, "corpus-reduced", &format!("{label} (lines calling the custom filter or holding non-ASCII text removed)"), &tpls, suffixes,
                             &[(fname.clone(), None)], &ctx, &[], false, false);
                    }
                } else {
                    let tpls = split_multi(&contents);
                    let Some(last) = tpls.last().map(|t| t.0.clone()) else { continue };
                    emit(sink, meta, stats, kind, &label, &tpls, &[".html"], &[(last, None)], &ctx, &[], false, false);
                }
            }
        }
    }
}

// ------------------------------------------------------------------ driver

pub fn run(args: &Args, rng: &mut Rng, meta: &mut Meta) {
    let thorough = args.tier == "thorough";
    let mut sink = Sink::new(&args.out, "vm1", HDR, "check_vm1");
    sink.shard_cap_set(40);
    let mut stats = Stats { skipped: BTreeMap::new(), rejected: 0, corpus_run: vec![], corpus_skipped: vec![], rejected_hand: vec![] };
    let ctxs = contexts1();
    let lib = library();
    let html: &[&'static str] = &[".html"];

    // ---- the engine's snapshot corpus
    corpus(&mut sink, meta, &mut stats);

    // ---- hand-written programs, under every context, autoescape on and off
    for (k, src) in hand_programs().iter().enumerate() {
        for name in ["main.html", "main.txt"] {
            let mut tpls = lib.clone();
            tpls.push((name.to_string(), src.to_string()));
            let nctx = if name == "main.html" || thorough { ctxs.len() } else { 1 };
            emit(&mut sink, meta, &mut stats, "hand", &format!("hand#{k}"), &tpls, html, &[(name.to_string(), None)],
                 &ctxs[..nctx], &[], true, false);
        }
    }

    // ---- typed generator
    let n_gen = if thorough { 900 } else { 170 };
    for k in 0..n_gen {
        let name = if k % 3 == 0 { "main.txt" } else { "main.html" };
        let with_lib = k % 4 != 3;
        let mut g = G::new(rng, with_lib, with_lib);
        g.clean = k % 5 != 4;
        let depth = 1 + (k % 3) as u32;
        let src = if with_lib && k % 7 == 0 {
            format!("{{% extends \"base.html\" %}}{{% block body %}}{}{{{{ super() }}}}{{% endblock %}}{{% block foot %}}{}{{% endblock %}}", g.body(depth), g.body(1))
        } else {
            g.body(depth)
        };
        let mut tpls = if with_lib { lib.clone() } else { vec![] };
        tpls.push((name.to_string(), src));
        let mut entries = vec![(name.to_string(), None)];
        if with_lib && k % 7 == 0 {
            entries.push((name.to_string(), Some("body".to_string())));
        }
        let start = rng.below(ctxs.len());
        let pick: Vec<_> = ctxs.iter().cycle().skip(start).take(if thorough { 3 } else { 2 }).cloned().collect();
        emit(&mut sink, meta, &mut stats, "gen", &format!("gen#{k}"), &tpls, html, &entries, &pick, &[], true, false);
    }

    // ---- printing of floats: random bit patterns and the boundaries of the notation switch
    let n_fl = if thorough { 120 } else { 24 };
    for k in 0..n_fl {
        let mut fl: Vec<Value> = Vec::new();
        for j in 0..30 {
            let x = match (k + j) % 6 {
                0 => f64::from_bits(rng.next()),
                1 => {
                    // around a power of ten
                    let p = rng.range(-25, 25) as i32;
                    let base = 10f64.powi(p);
                    f64::from_bits((base.to_bits() as i64 + rng.range(-3, 3)) as u64)
                }
                2 => {
                    // around a power of two (binade boundary: asymmetric rounding interval)
                    let e = rng.range(-1074, 1023) as i32;
                    let base = if e < -1022 { f64::from_bits(1u64 << (e + 1074)) } else { f64::from_bits(((e + 1023) as u64) << 52) };
                    f64::from_bits((base.to_bits() as i64 + rng.range(-2, 2)).max(1) as u64)
                }
                3 => (rng.range(-1_000_000, 1_000_000) as f64) / [1.0, 10.0, 100.0, 1000.0, 8.0, 3.0][rng.below(6)],
                4 => f64::from_bits(rng.next() & 0x000f_ffff_ffff_ffff | ((rng.range(960, 1090) as u64) << 52)) * if rng.chance(1, 2) { -1.0 } else { 1.0 },
                _ => *rng.pick(&[1e16, 9999999999999998.0, 1e15, 1.0e-4, 0.00009999999999999999, 1e-5, 123456789012345680.0, 0.1, 0.2, 0.30000000000000004,
                                 5e-324, 2.2250738585072014e-308, f64::MAX, f64::MIN_POSITIVE, 4.35, 1e23, 8.41e21, 9.5, 0.5, 1e22, 1e21, 2.5e-5]),
            };
            fl.push(Value::from(x));
        }
        let c = vec![("fl".to_string(), arr(fl)), ("n".to_string(), Value::from(k as u64))];
        let src = "{{ fl }}|{% for x in fl %}{{ x }};{% endfor %}|{{ fl | join(sep=\" \") }}|{{ {\"k\": fl[0]} }}|{{ fl[1] ~ \"\" }}|{{ fl[2] | str | length }}";
        emit(&mut sink, meta, &mut stats, "floats", &format!("floats#{k}"), &[("f.txt".to_string(), src.to_string())], html,
             &[("f.txt".to_string(), None)], &[(format!("floats#{k}"), c)], &[], true, false);
    }

    // ---- integer arithmetic and comparison at the edges of the representations
    let n_big = if thorough { 150 } else { 30 };
    let edge: Vec<Value> = vec![
        Value::from(i128::MAX), Value::from(i128::MIN), Value::from(i128::MIN + 1), Value::from(u128::MAX), Value::from(u64::MAX),
        Value::from(i64::MAX), Value::from(i64::MIN), Value::from(-1i64), Value::from(0u64), Value::from(1u64), Value::from(2u64),
        Value::from(1i128 << 64), Value::from(-(1i128 << 64)), Value::from((1i128 << 126) - 1), Value::from(3037000500i64),
        Value::from(13043817825332782212i128), Value::from(-7i64), Value::from(10u64), Value::from(1e19), Value::from(-0.5),
        Value::from(170141183460469231731687303715884105728.0), Value::from(9007199254740993i64), Value::from(9007199254740992.0),
    ];
    for k in 0..n_big {
        let a = rng.pick(&edge).clone();
        let b = rng.pick(&edge).clone();
        let c = vec![("a".to_string(), a), ("b".to_string(), b)];
        let op = *rng.pick(&["+", "-", "*", "//", "%", "/"]);
        let src = format!(
            "{{{{ a {op} b }}}}|{{{{ a < b }}}}{{{{ a <= b }}}}{{{{ a == b }}}}{{{{ a != b }}}}{{{{ a >= b }}}}{{{{ a > b }}}}|{{{{ [a, b] | sort }}}}|{{{{ [a, b, a] | unique }}}}|{{{{ a in [b] }}}}|{{{{ {{\"k\": a}} }}}}|{{{{ -a }}}}"
        );
        emit(&mut sink, meta, &mut stats, "edges", &format!("edges#{k}"), &[("e.txt".to_string(), src)], html,
             &[("e.txt".to_string(), None)], &[(format!("edges#{k}"), c)], &[], true, false);
    }
    for k in 0..n_big {
        // one operator per template so that an error of one does not hide the others
        let a = rng.pick(&edge).clone();
        let b = rng.pick(&edge).clone();
        let c = vec![("a".to_string(), a), ("b".to_string(), b)];
        let e = *rng.pick(&["a + b", "a - b", "a * b", "a // b", "a % b", "a / b", "-a", "a ** 2", "a ** 3", "a | abs", "a | int", "a | float", "a is odd",
                            "a is divisible_by(divisor=b)", "a | pluralize", "range(start=a, end=b) | length", "a | round", "[a, b] | join(sep=\"_\")", "a | str"]);
        // f64::powf is not modelled: `**` only on integer bases
        let e = if e.contains("**") && c[0].1.is_f64() { "a * a" } else { e };
        emit(&mut sink, meta, &mut stats, "edges", &format!("edge1#{k}"), &[("e.txt".to_string(), format!("{{{{ {e} }}}}"))], html,
             &[("e.txt".to_string(), None)], &[(format!("edge1#{k}"), c)], &[], true, false);
    }

    // ---- the World0-subset generators, now in the full world and under the richer contexts
    let n_w0 = if thorough { 200 } else { 40 };
    for k in 0..n_w0 {
        let src = gen_tpl::template(rng, 1 + (k % 3) as u32);
        // gen_tpl reads a, b, c (paths x/y/z) and the unbound u
        let inner = m(vec![("z", Value::from(2.5)), ("x", arr(vec![Value::from(1u64), Value::from(-2i64)]))]);
        let a = m(vec![("x", m(vec![("y", inner), ("x", Value::from("<s&>"))])), ("y", Value::from(0.0))]);
        let b = arr(vec![
            m(vec![("x", Value::from("r1")), ("y", Value::from(1.5))]),
            m(vec![("x", Value::from(2u64)), ("y", m(vec![("z", Value::from(true))]))]),
            m(vec![("x", Value::none())]),
        ]);
        let c = vec![("a".to_string(), a), ("b".to_string(), b), ("c".to_string(), Value::from(if k % 2 == 0 { 1.25 } else { 0.0 }))];
        let name = if k % 2 == 0 { "t.html" } else { "t.txt" };
        emit(&mut sink, meta, &mut stats, "w0gen", &format!("w0gen#{k}"), &[(name.to_string(), src)], html, &[(name.to_string(), None)],
             &[("abc-float".to_string(), c)], &[], false, false);
    }
    let n_st = if thorough { 120 } else { 30 };
    for k in 0..n_st {
        let lib = if k % 3 == 2 { stmt::chain_library(rng) } else { stmt::library(rng, 1 + (k % 3) as u32) };
        let tpls: Vec<(String, String)> = lib.iter().map(|(n, b)| (n.clone(), stmt::body_src(b, rng))).collect();
        let (c, glob) = stmt::contexts(rng);
        emit(&mut sink, meta, &mut stats, "w0stmt", &format!("w0stmt#{k}"), &tpls, html, &[(lib[0].0.clone(), None)],
             &[("stmt".to_string(), c)], &glob, false, false);
    }

    meta.extra.insert("vm1_skipped_outside_world1".into(), json!(stats.skipped));
    meta.extra.insert("vm1_rejected_at_registration".into(), json!(stats.rejected));
    meta.extra.insert("vm1_hand_programs_rejected".into(), json!(stats.rejected_hand));
    meta.extra.insert("vm1_corpus_templates_run".into(), json!(stats.corpus_run));
    meta.extra.insert("vm1_corpus_templates_skipped".into(), json!(stats.corpus_skipped));
    meta.families.push(sink.finish());
}
