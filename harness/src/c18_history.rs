//! C18, purity over histories ("rendering does not modify the engine") and the concurrency stress
//! for one-off renders. Included by src/bin/c18.rs with `#[path]` (not part of the tvh library).
//!
//! purity-history oracle: a random history of engine operations — register / replace templates
//! (every position of an inheritance chain, include targets, component sources; replacements keep
//! names, parent lists and shapes and change only bodies), batch registration, every configuration
//! setter (autoescape suffixes, delimiters, fallback prefixes, escape fn, filter / test / function
//! registration, global context), clone — interleaved with RENDERS through every API entry point
//! and both channels, runs on engine A. After every step the observable state of A (names, every
//! template and block rendered through both channels on several contexts, every component, its
//! definition, a pool of one-off sources under both autoescape flags) is compared with that of an
//! engine B built from scratch by the same history WITHOUT the renders (B has never rendered
//! anything before it is observed). Any difference is a render that left something behind.
use serde::{Deserialize, Serialize};
use serde_json::json;
use std::io::Write;
use std::sync::Arc;
use tera::verif::{component_listings, template_listing};
use tera::{Context, Delimiters, Kwargs, State, Tera, Value};
use tvh::{guarded, Outcome, Rng};

#[derive(Clone, Debug, Serialize, Deserialize, PartialEq)]
pub enum Op {
    Add { name: String, version: u8 },
    AddBatch { items: Vec<(String, u8)> },
    AutoescapeOn { suffixes: Vec<String> },
    SetDelims { which: u8 },
    SetEscape { which: u8 },
    RegFilter { version: u8 },
    RegTest { version: u8 },
    RegFunction { version: u8 },
    GlobalInsert { key: String, version: u8 },
    SetFallback { prefixes: Vec<String> },
    CloneSelf,
    Render { name: String, ctx: u8, to: bool },
    RenderBlock { name: String, block: String, ctx: u8, to: bool },
    RenderComponent { name: String, ctx: u8, body: bool, ae: bool, to: bool },
    RenderStr { src: u8, ae: bool, ctx: u8, to: bool },
}

impl Op {
    pub fn is_render(&self) -> bool {
        matches!(self, Op::Render { .. } | Op::RenderBlock { .. } | Op::RenderComponent { .. } | Op::RenderStr { .. })
    }
}

pub const NAMES: [&str; 8] = ["base.html", "mid.html", "child.html", "inc.txt", "comps.html", "page.html", "bad.html", "solo.txt"];
pub const BLOCKS: [&str; 3] = ["a", "b", "n"];
pub const COMPS: [&str; 3] = ["Tag", "Rec", "Bad"];

/// Body of template `name` in version `v`: all versions of a name have the same parent, blocks,
/// includes and components; only the text differs (even versions of child/solo also use the
/// custom filter `mark`, which exists only after RegFilter).
pub fn body(name: &str, v: u8) -> String {
    match name {
        "base.html" => format!("<v{v}>{{% block a %}}A{v}{{{{ c }}}}{{% block n %}}N{v}{{% endblock %}}{{% endblock %}}|{{% block b %}}B{v}{{% endblock %}}{{% include \"inc.txt\" %}}</v{v}>"),
        "mid.html" => format!("{{% extends \"base.html\" %}}{{% block a %}}mA{v}[{{{{ super() }}}}]{{% endblock %}}"),
        "child.html" => {
            let f = if v % 2 == 0 { " | mark" } else { "" };
            format!("{{% extends \"mid.html\" %}}{{% block b %}}cB{v}{{{{ c{f} }}}}{{% endblock %}}{{% block n %}}cN{v}{{% endblock %}}")
        }
        "inc.txt" => format!("(i{v}:{{{{ c }}}}{{{{ g }}}})"),
        "comps.html" => format!(
            "{{% component Tag(label, kind=\"k{v}\") %}}<t{v} class=\"{{{{ kind }}}}\">{{{{ label }}}}{{{{ body | default(value=\"\") }}}}</t{v}>{{% endcomponent Tag %}}\
             {{% component Rec(n: integer) %}}r{v}.{{{{ n }}}}{{% if n > 0 %}}{{{{ <Rec n={{n - 1}}/> }}}}{{% endif %}}{{% endcomponent Rec %}}\
             {{% component Bad(v) %}}d{v}{{{{ 100 / v }}}}{{% endcomponent Bad %}}"
        ),
        "page.html" => format!("P{v}:{{{{ <Tag label={{c}}/> }}}}{{% <Tag label=\"b\"> %}}body{v}{{% </Tag> %}}{{{{ <Rec n={{2}}/> }}}}{{% include \"inc.txt\" %}}"),
        "bad.html" => format!("X{v}{{{{ <Bad v={{z}}/> }}}}{{{{ <Rec n={{z}}/> }}}}"),
        "solo.txt" => {
            let f = if v % 2 == 0 { "{{ c | mark }}{% if c is flag %}F{% endif %}{{ mk() }}" } else { "" };
            format!("S{v} {{{{ c }}}} {{% for i in b %}}{{{{ i }}}}{{% endfor %}}{{{{ g }}}}{f}")
        }
        _ => format!("other{v}"),
    }
}

/// One-off sources; #0 means something under every delimiter set of the pool.
pub const ONE_OFFS: [&str; 5] = [
    "o0 {{ c }} << c >> [[ c ]] {% if z %}T{% endif %}<% if z %>U<% endif %>[% if z %]V[% endif %]{# x #}<# y #>",
    "o1 {{ c | mark }}{{ g }}",
    "o2 {{ <Tag label={c}/> }}",
    "o3 {% for i in b %}{{ i }},{% endfor %}{{ mk() }}{% if c is flag %}F{% endif %}",
    "o4 {{ c }}<{{ g }}>",
];

pub fn delims(which: u8) -> Delimiters {
    let d = |a: &'static str, b: &'static str, c: &'static str, e: &'static str, f: &'static str, g: &'static str| Delimiters {
        block_start: a.into(), block_end: b.into(), variable_start: c.into(), variable_end: e.into(), comment_start: f.into(), comment_end: g.into(),
    };
    match which {
        1 => d("<%", "%>", "<<", ">>", "<#", "#>"),
        2 => d("[%", "%]", "[[", "]]", "[#", "#]"),
        3 => d("{%", "%}", "{%", "}}", "{#", "#}"), // invalid: block_start == variable_start
        _ => Delimiters::default(),
    }
}

fn esc_brackets(s: &str, w: &mut dyn Write) -> std::io::Result<()> {
    for b in s.bytes() {
        match b {
            b'<' => w.write_all(b"(lt)")?,
            b'&' => w.write_all(b"(amp)")?,
            _ => w.write_all(&[b])?,
        }
    }
    Ok(())
}

pub fn ctx(which: u8) -> Context {
    let mut c = Context::new();
    match which {
        0 => {
            c.insert_value("c", Value::from("<x&>"));
            c.insert_value("b", Value::from(vec![Value::from(1u64), Value::from(2u64)]));
            c.insert_value("z", Value::from(0u64));
        }
        _ => {
            c.insert_value("c", Value::safe_string("<s>"));
            c.insert_value("b", Value::from(Vec::<Value>::new()));
            c.insert_value("z", Value::from(4u64));
            c.insert_value("g", Value::from("local-g"));
        }
    }
    c
}

pub fn comp_ctx(name: &str, which: u8) -> Context {
    let mut c = Context::new();
    match name {
        "Tag" => c.insert_value("label", Value::from(if which == 0 { "L<" } else { "plain" })),
        "Rec" => c.insert_value("n", Value::from(if which == 0 { 3u64 } else { 25u64 })),
        "Bad" => c.insert_value("v", Value::from(if which == 0 { 0u64 } else { 4u64 })),
        _ => {}
    }
    c
}

fn repr<T: AsRef<[u8]>>(o: &Outcome<T>) -> String {
    match o {
        Outcome::Ok(s) => format!("ok:{}", String::from_utf8_lossy(s.as_ref())),
        Outcome::Err(c, _) => format!("err:{c}"), // messages are compared by class (DESIGN §8)
        Outcome::Panic(p) => format!("panic:{p}"),
    }
}

fn via_to(f: impl FnOnce(&mut Vec<u8>) -> Result<(), tera::Error>) -> String {
    let mut buf: Vec<u8> = Vec::new();
    let o = guarded(|| f(&mut buf));
    match o {
        Outcome::Ok(()) => format!("ok:{}", String::from_utf8_lossy(&buf)),
        Outcome::Err(c, _) => format!("err:{c}"),
        Outcome::Panic(p) => format!("panic:{p}"),
    }
}

/// Apply one operation; the returned string is the outcome class (compared between A and B for
/// the non-render operations).
pub fn apply(op: &Op, t: &mut Tera) -> String {
    let unit = |r: Outcome<()>| match r {
        Outcome::Ok(()) => "ok".to_string(),
        Outcome::Err(c, _) => format!("err:{c}"),
        Outcome::Panic(p) => format!("panic:{p}"),
    };
    match op {
        Op::Add { name, version } => unit(guarded(|| t.add_raw_template(name, &body(name, *version)))),
        Op::AddBatch { items } => {
            let set: Vec<(String, String)> = items.iter().map(|(n, v)| (n.clone(), body(n, *v))).collect();
            unit(guarded(|| t.add_raw_templates(set)))
        }
        Op::AutoescapeOn { suffixes } => unit(guarded(|| {
            t.autoescape_on(suffixes.clone());
            Ok(())
        })),
        Op::SetDelims { which } => unit(guarded(|| t.set_delimiters(delims(*which)))),
        Op::SetEscape { which } => unit(guarded(|| {
            if *which == 0 { t.reset_escape_fn() } else { t.set_escape_fn(esc_brackets) }
            Ok(())
        })),
        Op::RegFilter { version } => {
            let v = *version;
            unit(guarded(|| {
                t.register_filter("mark", move |x: Value, _: Kwargs, _: &State| Value::from(format!("m{v}({})", x.as_str().unwrap_or("?"))));
                Ok(())
            }))
        }
        Op::RegTest { version } => {
            let v = *version;
            unit(guarded(|| {
                t.register_test("flag", move |x: Value, _: Kwargs, _: &State| (x.as_str().map_or(0, |s| s.len()) as u8).wrapping_add(v) % 2 == 0);
                Ok(())
            }))
        }
        Op::RegFunction { version } => {
            let v = *version;
            unit(guarded(|| {
                t.register_function("mk", move |_: Kwargs, _: &State| Value::from(format!("<mk{v}>")));
                Ok(())
            }))
        }
        Op::GlobalInsert { key, version } => unit(guarded(|| {
            t.global_context().insert_value(key.clone(), Value::from(format!("G{version}&")));
            Ok(())
        })),
        Op::SetFallback { prefixes } => unit(guarded(|| t.set_fallback_prefixes(prefixes.clone()))),
        Op::CloneSelf => {
            let c = t.clone();
            *t = c;
            "ok".into()
        }
        Op::Render { name, ctx: c, to } => {
            let cx = ctx(*c);
            if *to { via_to(|b| t.render_to(name, &cx, b)) } else { repr(&guarded(|| t.render(name, &cx))) }
        }
        Op::RenderBlock { name, block, ctx: c, to } => {
            let cx = ctx(*c);
            if *to { via_to(|b| t.render_block_to(name, block, &cx, b)) } else { repr(&guarded(|| t.render_block(name, block, &cx))) }
        }
        Op::RenderComponent { name, ctx: c, body: bd, ae, to } => {
            let cx = comp_ctx(name, *c);
            let b = if *bd { Some("<i>b</i>") } else { None };
            if *to { via_to(|w| t.render_component_to(name, &cx, b, *ae, w)) } else { repr(&guarded(|| t.render_component(name, &cx, b, *ae))) }
        }
        Op::RenderStr { src, ae, ctx: c, to } => {
            let cx = ctx(*c);
            let s = ONE_OFFS[*src as usize % ONE_OFFS.len()];
            if *to { via_to(|w| t.render_str_to(s, &cx, *ae, w)) } else { repr(&guarded(|| t.render_str(s, &cx, *ae))) }
        }
    }
}

/// Everything observable about an engine through its public API (plus the listing hook for the
/// block and component names). Rendering is part of observing: on engine A these are further
/// renders of the history, engine B is observed once and thrown away.
pub fn observe(t: &Tera, lead: Option<(usize, bool)>) -> Vec<(String, String)> {
    let mut out = Vec::new();
    // one-off renders first, starting with the (source, flag) rendered most recently on the
    // engine with renders: whatever a one-off render may have left behind is met again by the
    // same source right after the operation that should have invalidated it
    let mut order: Vec<(usize, bool)> = Vec::new();
    if let Some(l) = lead {
        order.push((l.0 % ONE_OFFS.len(), l.1));
    }
    for i in 0..ONE_OFFS.len() {
        for ae in [true, false] {
            if !order.contains(&(i, ae)) {
                order.push((i, ae));
            }
        }
    }
    for (i, ae) in order {
        let s = ONE_OFFS[i];
        let cx = ctx(0);
        out.push((format!("render_str(#{i}, ae={ae})"), repr(&guarded(|| t.render_str(s, &cx, ae)))));
        out.push((format!("render_str_to(#{i}, ae={ae})"), via_to(|w| t.render_str_to(s, &cx, ae, w))));
    }
    let mut names: Vec<String> = t.get_template_names().map(|s| s.to_string()).collect();
    names.sort();
    out.push(("names".to_string(), names.join(",")));
    for n in &names {
        let blocks: Vec<String> = template_listing(t, n).map(|tl| tl.lineage.iter().map(|(b, _)| b.clone()).collect()).unwrap_or_default();
        for c in 0..2u8 {
            let cx = ctx(c);
            out.push((format!("render({n}, ctx{c})"), repr(&guarded(|| t.render(n, &cx)))));
            out.push((format!("render_to({n}, ctx{c})"), via_to(|b| t.render_to(n, &cx, b))));
            for b in &blocks {
                out.push((format!("render_block({n}, {b}, ctx{c})"), repr(&guarded(|| t.render_block(n, b, &cx)))));
                out.push((format!("render_block_to({n}, {b}, ctx{c})"), via_to(|w| t.render_block_to(n, b, &cx, w))));
            }
        }
    }
    for (cname, src, _) in component_listings(t) {
        out.push((format!("component {cname}"), format!("from {src}: {:?}", t.get_component_definition(&cname))));
        for c in 0..2u8 {
            let cx = comp_ctx(&cname, c);
            for (bd, ae) in [(None, true), (Some("<i>b</i>"), false)] {
                out.push((format!("render_component({cname}, ctx{c}, body={}, ae={ae})", bd.is_some()), repr(&guarded(|| t.render_component(&cname, &cx, bd, ae)))));
                out.push((format!("render_component_to({cname}, ctx{c}, body={}, ae={ae})", bd.is_some()), via_to(|w| t.render_component_to(&cname, &cx, bd, ae, w))));
            }
        }
    }
    out
}

/// the one-off (source, flag) an observation renders last
pub fn last_one_off(lead: Option<(usize, bool)>) -> (usize, bool) {
    let last = (ONE_OFFS.len() - 1, false);
    match lead {
        Some(l) if (l.0 % ONE_OFFS.len(), l.1) == last => (ONE_OFFS.len() - 1, true),
        _ => last,
    }
}

/// The reference: a fresh engine given the non-render operations of `ops`, never rendered.
pub fn rebuild(ops: &[Op]) -> (Tera, String) {
    let mut b = Tera::default();
    let mut last = String::new();
    for op in ops {
        if !op.is_render() {
            last = apply(op, &mut b);
        }
    }
    (b, last)
}

#[derive(Debug, Clone)]
pub struct Divergence {
    pub step: usize,
    pub label: String,
    pub with_renders: String,
    pub without_renders: String,
}

pub struct Counts {
    pub observations: usize,
    pub compared: usize,
}

pub fn first_divergence(history: &[Op], counts: &mut Counts) -> Option<Divergence> {
    let mut a = Tera::default();
    let mut lead: Option<(usize, bool)> = None;
    for (i, op) in history.iter().enumerate() {
        let ra = apply(op, &mut a);
        if let Op::RenderStr { src, ae, .. } = op {
            lead = Some((*src as usize % ONE_OFFS.len(), *ae));
        }
        if ra.starts_with("panic:") {
            return Some(Divergence { step: i, label: format!("{op:?} panicked"), with_renders: ra, without_renders: String::new() });
        }
        let (b, rb) = rebuild(&history[..=i]);
        if !op.is_render() && ra != rb {
            return Some(Divergence { step: i, label: format!("result of {op:?}"), with_renders: ra, without_renders: rb });
        }
        let oa = observe(&a, lead);
        let ob = observe(&b, lead);
        lead = Some(last_one_off(lead));
        counts.observations += 2;
        counts.compared += oa.len();
        if oa.len() != ob.len() {
            return Some(Divergence { step: i, label: "number of observable items".into(), with_renders: oa.len().to_string(), without_renders: ob.len().to_string() });
        }
        for (x, y) in oa.iter().zip(ob.iter()) {
            if x != y {
                return Some(Divergence { step: i, label: if x.0 == y.0 { x.0.clone() } else { format!("{} / {}", x.0, y.0) }, with_renders: x.1.clone(), without_renders: y.1.clone() });
            }
            if x.1.starts_with("panic:") {
                return Some(Divergence { step: i, label: format!("{} panicked", x.0), with_renders: x.1.clone(), without_renders: y.1.clone() });
            }
        }
    }
    None
}

/// Greedy one-at-a-time removal while a divergence persists.
pub fn shrink(history: &[Op], counts: &mut Counts) -> (Vec<Op>, Divergence) {
    let mut h: Vec<Op> = history.to_vec();
    let mut d = first_divergence(&h, counts).expect("diverging history");
    h.truncate(d.step + 1);
    let mut budget = 150usize;
    let mut progress = true;
    while progress && budget > 0 {
        progress = false;
        let mut i = 0;
        while i < h.len() && budget > 0 {
            let mut h2 = h.clone();
            h2.remove(i);
            budget -= 1;
            if let Some(d2) = first_divergence(&h2, counts) {
                h2.truncate(d2.step + 1);
                h = h2;
                d = d2;
                progress = true;
            } else {
                i += 1;
            }
        }
    }
    (h, d)
}

fn gen_render(rng: &mut Rng) -> Op {
    let c = rng.below(2) as u8;
    let to = rng.chance(1, 2);
    match rng.below(10) {
        0..=4 => Op::Render { name: rng.pick(&NAMES[..]).to_string(), ctx: c, to },
        5..=6 => Op::RenderBlock { name: rng.pick(&["base.html", "mid.html", "child.html"][..]).to_string(), block: rng.pick(&BLOCKS[..]).to_string(), ctx: c, to },
        7 => Op::RenderComponent { name: rng.pick(&COMPS[..]).to_string(), ctx: c, body: rng.chance(1, 2), ae: rng.chance(1, 2), to },
        _ => Op::RenderStr { src: rng.below(ONE_OFFS.len()) as u8, ae: rng.chance(1, 2), ctx: c, to },
    }
}

fn gen_config(rng: &mut Rng) -> Op {
    match rng.below(12) {
        0..=1 => Op::AutoescapeOn { suffixes: rng.pick(&[vec![], vec![".html"], vec![".txt"], vec![".html", ".txt"]][..]).iter().map(|s| s.to_string()).collect() },
        2..=3 => Op::SetDelims { which: rng.below(4) as u8 },
        4 => Op::SetEscape { which: rng.below(2) as u8 },
        5..=6 => Op::RegFilter { version: 1 + rng.below(2) as u8 },
        7 => Op::RegTest { version: rng.below(2) as u8 },
        8 => Op::RegFunction { version: 1 + rng.below(2) as u8 },
        9 => Op::GlobalInsert { key: rng.pick(&["g", "c", "z"][..]).to_string(), version: 1 + rng.below(3) as u8 },
        10 => Op::SetFallback { prefixes: rng.pick(&[vec![], vec!["alt/"]][..]).iter().map(|s| s.to_string()).collect() },
        _ => Op::CloneSelf,
    }
}

fn gen_replace(rng: &mut Rng) -> Op {
    if rng.chance(1, 6) {
        let k = 2 + rng.below(3);
        Op::AddBatch { items: (0..k).map(|_| (rng.pick(&NAMES[..]).to_string(), 1 + rng.below(4) as u8)).collect() }
    } else {
        Op::Add { name: rng.pick(&NAMES[..]).to_string(), version: 1 + rng.below(4) as u8 }
    }
}

pub fn gen_history(rng: &mut Rng, len: usize) -> Vec<Op> {
    let mut h = Vec::new();
    let one_off_engine = rng.chance(1, 4);
    if one_off_engine {
        // no registered templates: delimiters and fallback prefixes can change at any time
        for _ in 0..len {
            if rng.chance(1, 2) {
                h.push(Op::RenderStr { src: rng.below(ONE_OFFS.len()) as u8, ae: rng.chance(1, 2), ctx: rng.below(2) as u8, to: rng.chance(1, 2) });
            } else {
                h.push(gen_config(rng));
            }
        }
        return h;
    }
    for _ in 0..rng.below(3) {
        h.push(gen_config(rng));
    }
    if rng.chance(2, 3) {
        h.push(Op::RegFilter { version: 1 });
        if rng.chance(2, 3) {
            h.push(Op::RegTest { version: 0 });
            h.push(Op::RegFunction { version: 1 });
        }
    }
    // the whole set, bottom-up or as one batch
    if rng.chance(1, 2) {
        h.push(Op::AddBatch { items: NAMES.iter().map(|n| (n.to_string(), 1u8)).collect() });
    } else {
        for n in ["inc.txt", "base.html", "mid.html", "child.html", "comps.html", "page.html", "bad.html", "solo.txt"] {
            h.push(Op::Add { name: n.to_string(), version: 1 });
        }
    }
    while h.len() < len + 6 {
        match rng.below(10) {
            0..=3 => h.push(gen_render(rng)),
            4..=7 => h.push(gen_replace(rng)),
            _ => h.push(gen_config(rng)),
        }
    }
    h
}

pub struct HistoryReport {
    pub histories: usize,
    pub steps: usize,
    pub observations: usize,
    pub compared: usize,
    pub op_tags: std::collections::BTreeMap<String, usize>,
    pub failures: Vec<(String, serde_json::Value)>,
}

pub fn history_input(h: &[Op], d: &Divergence) -> serde_json::Value {
    json!({"history": h, "diverges_after_step": d.step, "observable": d.label,
           "engine_that_rendered": d.with_renders, "same_history_without_renders": d.without_renders,
           "note": "ops are applied to Tera::default(); bodies are c18_history::body(name, version); after every step the engine is observed, i.e. every template, block, component and one-off source is rendered through both channels (these renders are part of its history); the reference engine is rebuilt from the non-render ops alone and has never rendered before it is observed"})
}

pub fn run_histories(rng: &mut Rng, n: usize, len: usize) -> HistoryReport {
    let mut rep = HistoryReport { histories: 0, steps: 0, observations: 0, compared: 0, op_tags: Default::default(), failures: Vec::new() };
    let mut counts = Counts { observations: 0, compared: 0 };
    for _ in 0..n {
        let h = gen_history(rng, len);
        rep.histories += 1;
        rep.steps += h.len();
        for op in &h {
            let tag = format!("{op:?}");
            let tag = tag.split(|c: char| !c.is_alphanumeric()).next().unwrap_or("?").to_string();
            *rep.op_tags.entry(tag).or_default() += 1;
        }
        if first_divergence(&h, &mut counts).is_some() {
            if rep.failures.len() < 4 {
                let (hs, d) = shrink(&h, &mut counts);
                rep.failures.push((
                    format!("purity history: after step {} `{}` is {:?} on the engine that rendered before and {:?} on an engine given the same operations without the renders", d.step, d.label, trunc(&d.with_renders), trunc(&d.without_renders)),
                    history_input(&hs, &d),
                ));
            } else {
                rep.failures.push(("purity history: further diverging history (not shrunk)".into(), json!({"history": h})));
            }
            if rep.failures.len() >= 12 {
                break;
            }
        }
    }
    rep.observations = counts.observations;
    rep.compared = counts.compared;
    rep
}

fn trunc(s: &str) -> String {
    s.chars().take(160).collect()
}

// ---------------------------------------------------------------- one-off concurrency stress

/// Per-thread (source, autoescape) pairs: structurally different programs, some pairs sharing the
/// source and differing only in the flag.
pub fn stress_pairs(threads: usize) -> Vec<(String, bool)> {
    (0..threads)
        .map(|i| {
            let src = match i % 6 {
                0 => format!("t{i}: {{{{ name }}}} {{% for x in items %}}[{{{{ x * {i} }}}}]{{% endfor %}} {{{{ html }}}}"),
                1 => format!("t{}: {{{{ html }}}}|{{{{ html | safe }}}}|{{% if name %}}y{{% else %}}n{{% endif %}}", i - 1), // same family as its neighbour, other flag
                2 => format!("{{% set s %}}<{i}>{{{{ html }}}}{{% endset %}}{{{{ s }}}}{{{{ s | upper }}}}"),
                3 => format!("{{% filter upper %}}t{i}{{{{ name }}}}{{% endfilter %}}{{{{ items | length }}}}{{{{ html }}}}"),
                4 => "same source on several threads {{ html }} {{ name }}".to_string(),
                _ => "same source on several threads {{ html }} {{ name }}".to_string(),
            };
            (src, i % 2 == 0)
        })
        .collect()
}

pub fn stress_ctx() -> Context {
    let mut c = Context::new();
    c.insert_value("name", Value::from("shared"));
    c.insert_value("items", Value::from((1u64..=5).map(Value::from).collect::<Vec<_>>()));
    c.insert_value("html", Value::from("<b>&</b>"));
    c
}

pub struct StressReport {
    pub renders: usize,
    pub failures: Vec<(String, serde_json::Value)>,
}

/// `mode`: "shared" = all threads on one Arc<Tera>; "clones" = every thread renders on its own
/// clone of one engine. Every result is compared with the sequential answer of a fresh engine.
pub fn oneoff_stress(threads: usize, rounds: usize, mode: &str) -> StressReport {
    let pairs = stress_pairs(threads);
    let cx = stress_ctx();
    let expected: Vec<String> = pairs.iter().map(|(s, ae)| repr(&guarded(|| Tera::default().render_str(s, &cx, *ae)))).collect();
    let mut origin = Tera::default();
    origin.add_raw_template("reg.html", "reg {{ html }} {{ name }}").expect("reg");
    let reg_expected = repr(&guarded(|| origin.render("reg.html", &cx)));
    let shared = Arc::new(origin.clone());
    let barrier = std::sync::Barrier::new(threads);
    let bad: Vec<Vec<(usize, String, String)>> = std::thread::scope(|sc| {
        let hs: Vec<_> = (0..threads)
            .map(|i| {
                let (pairs, expected, cx, barrier, reg_expected) = (&pairs, &expected, &cx, &barrier, &reg_expected);
                let engine: Arc<Tera> = if mode == "clones" { Arc::new(origin.clone()) } else { Arc::clone(&shared) };
                sc.spawn(move || {
                    let mut bad = Vec::new();
                    let (src, ae) = &pairs[i];
                    barrier.wait();
                    for r in 0..rounds {
                        let got = if r % 2 == 0 { repr(&guarded(|| engine.render_str(src, cx, *ae))) } else { via_to(|w| engine.render_str_to(src, cx, *ae, w)) };
                        if got != expected[i] && bad.len() < 3 {
                            bad.push((r, got, expected[i].clone()));
                        }
                        if r % 16 == 7 {
                            let g = repr(&guarded(|| engine.render("reg.html", cx)));
                            if &g != reg_expected && bad.len() < 3 {
                                bad.push((r, g, reg_expected.clone()));
                            }
                        }
                    }
                    bad
                })
            })
            .collect();
        hs.into_iter().map(|h| h.join().unwrap_or_else(|_| vec![(0, "thread panicked".into(), String::new())])).collect()
    });
    let mut failures = Vec::new();
    for (i, b) in bad.iter().enumerate() {
        if let Some((r, got, exp)) = b.first() {
            failures.push((
                format!("one-off renders, {threads} threads ({mode}): thread {i} round {r} got {:?}, the sequential answer is {:?}", trunc(got), trunc(exp)),
                json!({"oneoff_stress": {"threads": threads, "rounds": rounds, "mode": mode}, "thread": i, "source": pairs[i].0, "autoescape": pairs[i].1,
                       "all_sources": pairs.iter().map(|(s, a)| json!([s, a])).collect::<Vec<_>>(),
                       "note": "schedule-dependent: re-running the same (sources, threads, rounds) reproduces it with high probability, not always at the same round"}),
            ));
        }
    }
    StressReport { renders: threads * rounds, failures }
}
