//! Boundary pools shared by the generators (DESIGN §2.3).
use tera::Value;

/// Signed boundary integers: 0, ±1, ±2, ±2^k, ±2^k±1 for the widths that matter.
pub fn int_pool_i128() -> Vec<i128> {
    let mut v: Vec<i128> = vec![0, 1, -1, 2, -2, 3, -3, 5, -5, 7, -7, 10, -10, 12, -13, 100, -100];
    for k in [7u32, 8, 15, 16, 31, 32, 53, 63, 64, 126] {
        let p = 1i128 << k;
        for d in [-1i128, 0, 1] {
            v.push(p + d);
            v.push(-(p + d));
        }
    }
    v.push(i128::MAX);
    v.push(i128::MAX - 1);
    v.push(i128::MIN);
    v.push(i128::MIN + 1);
    v.sort();
    v.dedup();
    v
}

pub fn int_pool_u128_big() -> Vec<u128> {
    vec![
        i128::MAX as u128 + 1,
        i128::MAX as u128 + 2,
        u128::MAX,
        u128::MAX - 1,
        1u128 << 127,
        (1u128 << 127) + (1u128 << 64),
    ]
}

/// Every representation the engine has for integer `z` (U64/I64/U128/I128 as it fits).
pub fn int_reps(z: i128) -> Vec<Value> {
    let mut out = Vec::new();
    if let Ok(x) = u64::try_from(z) {
        out.push(Value::from(x));
    }
    if let Ok(x) = i64::try_from(z) {
        out.push(Value::from(x));
    }
    if let Ok(x) = u128::try_from(z) {
        out.push(Value::from(x));
    }
    out.push(Value::from(z));
    out
}

/// All boundary integers in all their representations, plus u128 values above i128::MAX.
pub fn int_values() -> Vec<Value> {
    let mut out = Vec::new();
    for z in int_pool_i128() {
        out.extend(int_reps(z));
    }
    for u in int_pool_u128_big() {
        out.push(Value::from(u));
    }
    out
}

pub fn float_pool() -> Vec<f64> {
    let mut v = vec![
        0.0,
        -0.0,
        1.0,
        -1.0,
        0.5,
        -0.5,
        1.5,
        -1.5,
        2.5,
        0.1,
        1e-300,
        f64::MIN_POSITIVE,
        f64::from_bits(1),
        f64::MAX,
        f64::MIN,
        f64::INFINITY,
        f64::NEG_INFINITY,
        f64::NAN,
        9007199254740992.0,
        9007199254740993.0,
        9007199254740991.0,
        -9007199254740992.0,
    ];
    for k in [31, 32, 63, 64, 127, 128] {
        let p = 2f64.powi(k);
        v.push(p);
        v.push(-p);
        v.push(f64::from_bits(p.to_bits() - 1));
        v.push(f64::from_bits(p.to_bits() + 1));
        v.push(-f64::from_bits(p.to_bits() - 1));
    }
    v
}

pub fn string_pool() -> Vec<&'static str> {
    vec![
        "",
        "a",
        "abc",
        "hello world",
        "&<>\"'/%",
        "<",
        "é",
        "日本語",
        "a\u{0301}e",
        "😀",
        "x😀y日é",
        "{{",
        "%}",
        " \t\n",
        "\u{a0}\u{2028}\u{3000}",
        "0",
        "-1",
        "1.5",
        "Straße",
        "ǆ",
        "a\"b\\c\nd",
    ]
}

/// One string per UTF-8 lead byte (0xC2..=0xF4, 51 of them): "x", the first and the last scalar
/// value encoded with that lead byte, "y". Together with ASCII this visits every lead-byte
/// class of the encoding, including the singular ones (E0, ED, F0, F4).
pub fn utf8_lead_byte_strings() -> Vec<String> {
    let mut out = Vec::new();
    for lead in 0xC2u32..=0xF4 {
        let (lo, hi) = match lead {
            0xC2..=0xDF => ((lead & 0x1F) << 6, ((lead & 0x1F) << 6) | 0x3F),
            0xE0..=0xEF => ((lead & 0x0F) << 12, ((lead & 0x0F) << 12) | 0xFFF),
            _ => ((lead & 0x07) << 18, ((lead & 0x07) << 18) | 0x3FFFF),
        };
        // clip to what the lead byte can really start: no overlong forms, no surrogates, <= 10FFFF
        let (lo, hi) = match lead {
            0xE0 => (0x800, hi),
            0xED => (lo, 0xD7FF),
            0xF0 => (0x10000, hi),
            0xF4 => (lo, 0x10FFFF),
            _ => (lo, hi),
        };
        let a = char::from_u32(lo).unwrap();
        let b = char::from_u32(hi).unwrap();
        let s: String = ['x', a, b, 'y'].iter().collect();
        debug_assert!(s.as_bytes()[1] as u32 == lead);
        out.push(s);
    }
    out
}

/// A few values of every kind (used where "a value of the wrong kind" is needed).
pub fn kind_pool() -> Vec<Value> {
    let mut m = tera::Map::new();
    m.insert("a".into(), Value::from(1u64));
    vec![
        Value::undefined(),
        Value::none(),
        Value::from(true),
        Value::from(false),
        Value::from(3u64),
        Value::from(-3i64),
        Value::from(7u128),
        Value::from(-7i128),
        Value::from(1.5f64),
        Value::from(f64::NAN),
        Value::from("str"),
        Value::safe_string("<b>"),
        Value::from(vec![Value::from(1u64), Value::from("x")]),
        Value::from(Vec::<Value>::new()),
        Value::from(m),
        Value::bytes(vec![0xffu8, 0x61]),
    ]
}
