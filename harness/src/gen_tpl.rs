//! Grammar-based generator of template sources (expressions and statements) biased towards
//! variable paths next to jumps: short circuits, ternaries, loop heads/ends, else branches,
//! comprehensions. Variables: a b c u (u is never bound); attributes: x y z.
use crate::Rng;

pub const VARS: [&str; 4] = ["a", "b", "c", "u"];
pub const ATTRS: [&str; 3] = ["x", "y", "z"];

pub fn path(rng: &mut Rng) -> String {
    let mut s = rng.pick(&VARS[..]).to_string();
    let n = match rng.below(10) {
        0..=2 => 0,
        3..=6 => 1,
        7..=8 => 2,
        _ => 3,
    };
    for _ in 0..n {
        if rng.chance(1, 8) {
            s.push_str("?.");
        } else {
            s.push('.');
        }
        s.push_str(*rng.pick(&ATTRS[..]));
    }
    s
}

pub fn atom(rng: &mut Rng) -> String {
    match rng.below(12) {
        0..=5 => path(rng),
        6 => format!("{}", rng.range(0, 3)),
        7 => "\"s\"".to_string(),
        8 => "true".to_string(),
        9 => "none".to_string(),
        10 => format!("{}[{}]", path(rng), rng.range(0, 2)),
        _ => format!("{}[\"{}\"]", path(rng), rng.pick(&ATTRS[..])),
    }
}

pub fn expr(rng: &mut Rng, depth: u32) -> String {
    if depth == 0 {
        return atom(rng);
    }
    match rng.below(18) {
        0..=3 => atom(rng),
        // postfix forms applied to a parenthesised compound: the compound's jump lands ON the
        // subscript / filter that follows (`.attr` is only accepted after identifiers, so a
        // LoadAttr can never be a jump target in compiled code)
        16 => format!("({})[0]", expr(rng, depth - 1)),
        17 => format!("({}) | default(value={})", expr(rng, depth - 1), path(rng)),
        4 => format!("{} and {}", expr(rng, depth - 1), expr(rng, depth - 1)),
        5 => format!("{} or {}", expr(rng, depth - 1), expr(rng, depth - 1)),
        6 => format!("not {}", atom(rng)),
        7 => format!("{} if {} else {}", expr(rng, depth - 1), expr(rng, depth - 1), expr(rng, depth - 1)),
        8 => format!("({})", expr(rng, depth - 1)),
        9 => format!("{} == {}", atom(rng), atom(rng)),
        10 => format!("{} | default(value={})", path(rng), atom(rng)),
        11 => format!("{} ~ {}", atom(rng), atom(rng)),
        12 => format!("{} is defined", path(rng)),
        13 => format!("[{}, {}]", expr(rng, depth - 1), path(rng)),
        14 => format!("[i.x for i in {} if i.y]", path(rng)),
        _ => format!("{} in {}", atom(rng), path(rng)),
    }
}

pub fn stmt(rng: &mut Rng, depth: u32, in_loop: bool) -> String {
    let d = depth.saturating_sub(1);
    match rng.below(if depth == 0 { 4 } else { 14 }) {
        0 => "t ".to_string(),
        1..=3 => format!("{{{{ {} }}}}", expr(rng, 2)),
        4 => format!("{{% if {} %}}{}{{% endif %}}", expr(rng, 1), body(rng, d, in_loop)),
        5 => format!(
            "{{% if {} %}}{}{{% elif {} %}}{}{{% else %}}{}{{% endif %}}",
            expr(rng, 1), body(rng, d, in_loop), expr(rng, 1), body(rng, d, in_loop), body(rng, d, in_loop)
        ),
        6 => format!("{{% for i in {} %}}{}{{% endfor %}}", path(rng), body_loop(rng, d)),
        7 => format!(
            "{{% for i in {} %}}{}{{% else %}}{}{{% endfor %}}",
            path(rng), body_loop(rng, d), body(rng, d, in_loop)
        ),
        8 => format!("{{% for k, v in {} %}}{{{{ k }}}}{{{{ v.x }}}}{}{{% endfor %}}", path(rng), body_loop(rng, d)),
        9 => format!("{{% set s = {} %}}{{{{ s.x }}}}", expr(rng, 1)),
        10 => format!("{{% set s %}}{}{{% endset %}}{{{{ s }}}}", body(rng, d, in_loop)),
        11 => format!("{{% filter upper %}}{}{{% endfilter %}}", body(rng, d, in_loop)),
        12 => {
            if in_loop {
                if rng.chance(1, 2) {
                    format!("{{% if {} %}}{{% break %}}{{% endif %}}", expr(rng, 1))
                } else {
                    format!("{{% if {} %}}{{% continue %}}{{% endif %}}", expr(rng, 1))
                }
            } else {
                format!("{{{{ {} }}}}", path(rng))
            }
        }
        _ => format!("{{% set_global g = {} %}}", expr(rng, 1)),
    }
}

pub fn body(rng: &mut Rng, depth: u32, in_loop: bool) -> String {
    let n = 1 + rng.below(3);
    (0..n).map(|_| stmt(rng, depth, in_loop)).collect()
}

fn body_loop(rng: &mut Rng, depth: u32) -> String {
    let mut s = String::new();
    if rng.chance(1, 2) {
        s.push_str("{{ i.x }}");
    }
    if rng.chance(1, 3) {
        s.push_str("{{ loop.index }}");
    }
    s.push_str(&body(rng, depth, true));
    s
}

pub fn template(rng: &mut Rng, depth: u32) -> String {
    body(rng, depth, false)
}
