//! Statement-tree generator for C03 (families `compile` and `ref`): trees of the statement
//! language of coq/Spec/Stmt.v, printed both as template source and as Gallina terms.
//!
//! Bias (DESIGN §6 C03): mostly BOUND variables with truthy/falsy mixes; one name shadowed
//! across loop variable / set / set_global / includer / context / global context; includes
//! inside captures inside loops; break/continue under if under nested loops; loops over
//! strings with multi-byte characters, over single-entry maps, over empty containers (else
//! bodies); loop.* counters.
use tera::{Map, Value};
use tvh::*;

#[derive(Clone, Debug)]
pub enum Expr {
    Const(Value, String), // value, source text
    Var(String),
    Loop(&'static str),
    Attr(Box<Expr>, String),
    Not(Box<Expr>),
    And(Box<Expr>, Box<Expr>),
    Or(Box<Expr>, Box<Expr>),
    Eq(Box<Expr>, Box<Expr>),
    Test(Box<Expr>, &'static str),
    Filter(Box<Expr>, &'static str, Vec<(String, Expr)>),
    // ---- extended forms: family `compile` only (Scope::ext > 0)
    Bin(&'static str, Box<Expr>, Box<Expr>), // source operator: + - * / // % ** < <= > >= != ~ in
    NotIn(Box<Expr>, Box<Expr>),             // a not in b  ==  ENot (EBin BIn a b)
    Neg(Box<Expr>),
    Ternary(Box<Expr>, Box<Expr>, Box<Expr>), // (cond, true, false)
    // ---- Scope::ext >= 2
    AttrOpt(Box<Expr>, String),                                            // e?.a
    Sub(bool, Box<Expr>, Box<Expr>),                                       // e[i] / e?[i]
    Slice(bool, Box<Expr>, Option<Box<Expr>>, Option<Box<Expr>>, Option<Box<Expr>>), // e[a:b:c] / e?[a:b:c]
    Call(&'static str, Vec<(String, Expr)>),                               // f(k=v): at most one kwarg (HashMap order)
    Arr(Vec<(bool, Expr)>),                                                // [a, ...b] with a non-literal entry
    Map(Vec<(Option<(Value, String)>, Expr)>),                             // {k: v, ...m} with a non-literal entry
}

fn binop_gal(op: &str) -> &'static str {
    match op {
        "*" => "BMul",
        "/" => "BDiv",
        "//" => "BFloorDiv",
        "%" => "BMod",
        "+" => "BPlus",
        "-" => "BMinus",
        "**" => "BPower",
        "<" => "BLt",
        ">" => "BGt",
        "<=" => "BLe",
        ">=" => "BGe",
        "!=" => "BNe",
        "~" => "BConcat",
        "in" => "BIn",
        _ => panic!("binop"),
    }
}

pub type Kw = Vec<(String, Expr)>;

#[derive(Clone, Debug)]
pub enum Stmt {
    Text(String),
    Print(Expr),
    If(Expr, Vec<Stmt>, Vec<Stmt>),
    For { key: Option<String>, val: String, target: Expr, body: Vec<Stmt>, els: Vec<Stmt> },
    Assign(bool, String, Expr),
    SetBlock(bool, String, Vec<Stmt>, Vec<(&'static str, Kw)>),
    Filter(&'static str, Kw, Vec<Stmt>),
    Include(String),
    Break,
    Continue,
}

// ------------------------------------------------------------------ printing: source

impl Expr {
    fn is_atom(&self) -> bool {
        matches!(
            self,
            Expr::Const(..) | Expr::Var(_) | Expr::Loop(_) | Expr::Attr(..) | Expr::AttrOpt(..) | Expr::Sub(..) | Expr::Slice(..) | Expr::Call(..) | Expr::Arr(_) | Expr::Map(_)
        )
    }
    fn atom_src(&self) -> String {
        if self.is_atom() { self.src() } else { format!("({})", self.src()) }
    }
    pub fn src(&self) -> String {
        match self {
            Expr::Const(_, s) => s.clone(),
            Expr::Var(n) => n.clone(),
            Expr::Loop(f) => format!("loop.{f}"),
            Expr::Attr(e, a) => format!("{}.{a}", e.src()),
            Expr::Not(e) => format!("not {}", e.atom_src()),
            Expr::And(a, b) => format!("{} and {}", a.atom_src(), b.atom_src()),
            Expr::Or(a, b) => format!("{} or {}", a.atom_src(), b.atom_src()),
            Expr::Eq(a, b) => format!("{} == {}", a.atom_src(), b.atom_src()),
            Expr::Test(e, n) => format!("{} is {n}", e.atom_src()),
            Expr::Filter(e, n, kw) => format!("{} | {n}{}", e.atom_src(), kw_src(kw)),
            Expr::Bin(op, a, b) => format!("{} {op} {}", a.atom_src(), b.atom_src()),
            Expr::NotIn(a, b) => format!("{} not in {}", a.atom_src(), b.atom_src()),
            Expr::Neg(e) => format!("-{}", e.atom_src()),
            Expr::Ternary(c, a, b) => format!("{} if {} else {}", a.atom_src(), c.atom_src(), b.atom_src()),
            Expr::AttrOpt(e, a) => format!("{}?.{a}", e.atom_src()),
            Expr::Sub(opt, e, i) => format!("{}{}{}]", e.atom_src(), if *opt { "?[" } else { "[" }, i.src()),
            Expr::Slice(opt, e, a, b, c) => {
                let p = |x: &Option<Box<Expr>>| x.as_ref().map(|e| e.atom_src()).unwrap_or_default();
                let step = match c {
                    Some(c) => format!(":{}", c.atom_src()),
                    None => String::new(),
                };
                format!("{}{}{}:{}{step}]", e.atom_src(), if *opt { "?[" } else { "[" }, p(a), p(b))
            }
            Expr::Call(n, kw) => format!("{n}({})", kw.iter().map(|(k, e)| format!("{k}={}", e.src())).collect::<Vec<_>>().join(", ")),
            Expr::Arr(items) => format!(
                "[{}]",
                items.iter().map(|(sp, e)| format!("{}{}", if *sp { "..." } else { "" }, e.atom_src())).collect::<Vec<_>>().join(", ")
            ),
            // spaces inside the braces: `}}` would end the variable block
            Expr::Map(entries) => format!(
                "{{ {} }}",
                entries
                    .iter()
                    .map(|(k, e)| match k {
                        Some((_, ks)) => format!("{ks}: {}", e.atom_src()),
                        None => format!("...{}", e.atom_src()),
                    })
                    .collect::<Vec<_>>()
                    .join(", ")
            ),
        }
    }
    pub fn gal(&self) -> String {
        match self {
            Expr::Const(v, _) => format!("(EConst {})", gal_value(v)),
            Expr::Var(n) => format!("(EVar {})", gal_str(n)),
            Expr::Loop(f) => format!(
                "(ELoop {})",
                match *f {
                    "index" => "LIndex",
                    "index0" => "LIndex0",
                    "first" => "LFirst",
                    "last" => "LLast",
                    _ => "LLength",
                }
            ),
            Expr::Attr(e, a) => format!("(EAttr {} {})", e.gal(), gal_str(a)),
            Expr::Not(e) => format!("(ENot {})", e.gal()),
            Expr::And(a, b) => format!("(EAnd {} {})", a.gal(), b.gal()),
            Expr::Or(a, b) => format!("(EOr {} {})", a.gal(), b.gal()),
            Expr::Eq(a, b) => format!("(EEq {} {})", a.gal(), b.gal()),
            Expr::Test(e, n) => format!("(ETest {} {})", e.gal(), gal_str(n)),
            Expr::Filter(e, n, kw) => format!("(EFilter {} {} {})", e.gal(), gal_str(n), kw_gal(kw)),
            Expr::Bin(op, a, b) => format!("(EBin {} {} {})", binop_gal(op), a.gal(), b.gal()),
            Expr::NotIn(a, b) => format!("(ENot (EBin BIn {} {}))", a.gal(), b.gal()),
            Expr::Neg(e) => format!("(ENeg {})", e.gal()),
            Expr::Ternary(c, a, b) => format!("(ETernary {} {} {})", c.gal(), a.gal(), b.gal()),
            Expr::AttrOpt(e, a) => format!("(EAttrOpt {} {})", e.gal(), gal_str(a)),
            Expr::Sub(opt, e, i) => format!("(ESub {} {} {})", gal_bool(*opt), e.gal(), i.gal()),
            Expr::Slice(opt, e, a, b, c) => {
                let p = |x: &Option<Box<Expr>>| match x {
                    Some(e) => format!("(Some {})", e.gal()),
                    None => "None".to_string(),
                };
                format!("(ESlice {} {} {} {} {})", gal_bool(*opt), e.gal(), p(a), p(b), p(c))
            }
            Expr::Call(n, kw) => format!("(ECall {} {})", gal_str(n), kw_gal(kw)),
            Expr::Arr(items) => format!(
                "(EArr [{}])",
                items.iter().map(|(sp, e)| format!("({}, {})", gal_bool(*sp), e.gal())).collect::<Vec<_>>().join("; ")
            ),
            Expr::Map(entries) => format!(
                "(EMap [{}])",
                entries
                    .iter()
                    .map(|(k, e)| match k {
                        Some((kv, _)) => format!("(Some {}, {})", gal_value(kv), e.gal()),
                        None => format!("(None, {})", e.gal()),
                    })
                    .collect::<Vec<_>>()
                    .join("; ")
            ),
        }
    }
    /// the extended forms occurring in the expression (coverage tags of family `compile`)
    pub fn forms(&self, out: &mut std::collections::BTreeSet<&'static str>) {
        match self {
            Expr::Const(..) | Expr::Var(_) | Expr::Loop(_) => {}
            Expr::Attr(e, _) | Expr::Not(e) | Expr::Test(e, _) => e.forms(out),
            Expr::And(a, b) | Expr::Or(a, b) | Expr::Eq(a, b) => {
                a.forms(out);
                b.forms(out);
            }
            Expr::Filter(e, _, kw) => {
                e.forms(out);
                for (_, x) in kw {
                    x.forms(out);
                }
            }
            Expr::Bin(op, a, b) => {
                out.insert(match *op {
                    "+" | "-" | "*" | "/" | "//" | "%" | "**" => "x:arith",
                    "<" | "<=" | ">" | ">=" | "!=" => "x:compare",
                    "~" => "x:concat",
                    _ => "x:in",
                });
                a.forms(out);
                b.forms(out);
            }
            Expr::NotIn(a, b) => {
                out.insert("x:not-in");
                a.forms(out);
                b.forms(out);
            }
            Expr::Neg(e) => {
                out.insert("x:neg");
                e.forms(out);
            }
            Expr::Ternary(c, a, b) => {
                out.insert("x:ternary");
                c.forms(out);
                a.forms(out);
                b.forms(out);
            }
            Expr::AttrOpt(e, _) => {
                out.insert("x:attr-opt");
                e.forms(out);
            }
            Expr::Sub(opt, e, i) => {
                out.insert(if *opt { "x:subscript-opt" } else { "x:subscript" });
                e.forms(out);
                i.forms(out);
            }
            Expr::Slice(opt, e, a, b, c) => {
                out.insert(if *opt { "x:slice-opt" } else { "x:slice" });
                e.forms(out);
                for x in [a, b, c].into_iter().flatten() {
                    x.forms(out);
                }
            }
            Expr::Call(_, kw) => {
                out.insert(if kw.is_empty() { "x:call" } else { "x:call-kwargs" });
                for (_, x) in kw {
                    x.forms(out);
                }
            }
            Expr::Arr(items) => {
                out.insert(if items.iter().any(|x| x.0) { "x:array-spread" } else { "x:array" });
                for (_, x) in items {
                    x.forms(out);
                }
            }
            Expr::Map(entries) => {
                out.insert(if entries.iter().any(|x| x.0.is_none()) { "x:map-spread" } else { "x:map" });
                for (_, x) in entries {
                    x.forms(out);
                }
            }
        }
    }
}

fn kw_src(kw: &Kw) -> String {
    if kw.is_empty() {
        String::new()
    } else {
        format!("({})", kw.iter().map(|(k, e)| format!("{k}={}", e.src())).collect::<Vec<_>>().join(", "))
    }
}
fn kw_gal(kw: &Kw) -> String {
    format!("[{}]", kw.iter().map(|(k, e)| format!("({}, {})", gal_str(k), e.gal())).collect::<Vec<_>>().join("; "))
}

pub fn body_src(b: &[Stmt], rng: &mut Rng) -> String {
    b.iter().map(|s| s.src(rng)).collect()
}
pub fn body_gal(b: &[Stmt]) -> String {
    format!("[{}]", b.iter().map(|s| s.gal()).collect::<Vec<_>>().join("; "))
}

impl Stmt {
    /// `rng` only chooses between equivalent spellings (elif vs else+if)
    pub fn src(&self, rng: &mut Rng) -> String {
        match self {
            Stmt::Text(t) => t.clone(),
            Stmt::Print(e) => format!("{{{{ {} }}}}", e.src()),
            Stmt::If(c, body, els) => {
                let mut s = format!("{{% if {} %}}{}", c.src(), body_src(body, rng));
                let mut cur: &Vec<Stmt> = els;
                loop {
                    if cur.is_empty() {
                        break;
                    }
                    if cur.len() == 1 && rng.chance(2, 3) {
                        if let Stmt::If(c2, b2, e2) = &cur[0] {
                            s.push_str(&format!("{{% elif {} %}}{}", c2.src(), body_src(b2, rng)));
                            cur = e2;
                            continue;
                        }
                    }
                    s.push_str(&format!("{{% else %}}{}", body_src(cur, rng)));
                    break;
                }
                s.push_str("{% endif %}");
                s
            }
            Stmt::For { key, val, target, body, els } => {
                let vars = match key {
                    Some(k) => format!("{k}, {val}"),
                    None => val.clone(),
                };
                let mut s = format!("{{% for {vars} in {} %}}{}", target.src(), body_src(body, rng));
                if !els.is_empty() {
                    s.push_str(&format!("{{% else %}}{}", body_src(els, rng)));
                }
                s.push_str("{% endfor %}");
                s
            }
            Stmt::Assign(g, n, e) => format!("{{% {} {n} = {} %}}", if *g { "set_global" } else { "set" }, e.src()),
            Stmt::SetBlock(g, n, body, fs) => {
                let f: String = fs.iter().map(|(name, kw)| format!(" | {name}{}", kw_src(kw))).collect();
                format!("{{% {} {n}{f} %}}{}{{% endset %}}", if *g { "set_global" } else { "set" }, body_src(body, rng))
            }
            Stmt::Filter(name, kw, body) => format!("{{% filter {name}{} %}}{}{{% endfilter %}}", kw_src(kw), body_src(body, rng)),
            Stmt::Include(n) => format!("{{% include \"{n}\" %}}"),
            Stmt::Break => "{% break %}".into(),
            Stmt::Continue => "{% continue %}".into(),
        }
    }
    pub fn gal(&self) -> String {
        match self {
            Stmt::Text(t) => format!("(SText {})", gal_str(t)),
            Stmt::Print(e) => format!("(SPrint {})", e.gal()),
            Stmt::If(c, b, e) => format!("(SIf {} {} {})", c.gal(), body_gal(b), body_gal(e)),
            Stmt::For { key, val, target, body, els } => format!(
                "(SFor {} {} {} {} {})",
                match key {
                    Some(k) => format!("(Some {})", gal_str(k)),
                    None => "None".into(),
                },
                gal_str(val),
                target.gal(),
                body_gal(body),
                body_gal(els)
            ),
            Stmt::Assign(g, n, e) => format!("(SAssign {} {} {})", gal_bool(*g), gal_str(n), e.gal()),
            Stmt::SetBlock(g, n, b, fs) => format!(
                "(SSetBlock {} {} {} [{}])",
                gal_bool(*g),
                gal_str(n),
                body_gal(b),
                fs.iter().map(|(name, kw)| format!("({}, {})", gal_str(name), kw_gal(kw))).collect::<Vec<_>>().join("; ")
            ),
            Stmt::Filter(name, kw, b) => format!("(SFilter {} {} {})", gal_str(name), kw_gal(kw), body_gal(b)),
            Stmt::Include(n) => format!("(SInclude {})", gal_str(n)),
            Stmt::Break => "SBreak".into(),
            Stmt::Continue => "SContinue".into(),
        }
    }
    pub fn forms(&self, out: &mut std::collections::BTreeSet<&'static str>) {
        let kwf = |kw: &Kw, out: &mut std::collections::BTreeSet<&'static str>| {
            for (_, x) in kw {
                x.forms(out);
            }
        };
        match self {
            Stmt::Print(e) | Stmt::Assign(_, _, e) => e.forms(out),
            Stmt::If(c, x, y) => {
                c.forms(out);
                for s in x.iter().chain(y) {
                    s.forms(out);
                }
            }
            Stmt::For { target, body, els, .. } => {
                target.forms(out);
                for s in body.iter().chain(els) {
                    s.forms(out);
                }
            }
            Stmt::SetBlock(_, _, x, fs) => {
                for s in x {
                    s.forms(out);
                }
                for (_, kw) in fs {
                    kwf(kw, out);
                }
            }
            Stmt::Filter(_, kw, x) => {
                kwf(kw, out);
                for s in x {
                    s.forms(out);
                }
            }
            _ => {}
        }
    }
    pub fn count(&self) -> usize {
        let b = |x: &Vec<Stmt>| x.iter().map(|s| s.count()).sum::<usize>();
        1 + match self {
            Stmt::If(_, x, y) => b(x) + b(y),
            Stmt::For { body, els, .. } => b(body) + b(els),
            Stmt::SetBlock(_, _, x, _) | Stmt::Filter(_, _, x) => b(x),
            _ => 0,
        }
    }
    pub fn features(&self, out: &mut std::collections::BTreeSet<&'static str>, loops: usize, caps: usize) {
        match self {
            Stmt::If(_, x, y) => {
                out.insert(if y.is_empty() { "if" } else { "if-else" });
                for s in x.iter().chain(y) {
                    s.features(out, loops, caps);
                }
            }
            Stmt::For { key, body, els, .. } => {
                out.insert(if key.is_some() { "for-kv" } else { "for" });
                if !els.is_empty() {
                    out.insert("for-else");
                }
                if loops >= 1 {
                    out.insert("nested-for");
                }
                if caps >= 1 {
                    out.insert("for-in-capture");
                }
                for s in body {
                    s.features(out, loops + 1, 0);
                }
                for s in els {
                    s.features(out, loops, caps);
                }
            }
            Stmt::SetBlock(_, _, x, _) | Stmt::Filter(_, _, x) => {
                out.insert(if matches!(self, Stmt::Filter(..)) { "filter-section" } else { "set-block" });
                if loops >= 1 {
                    out.insert("capture-in-loop");
                }
                for s in x {
                    s.features(out, loops, caps + 1);
                }
            }
            Stmt::Include(_) => {
                out.insert("include");
                if caps >= 1 && loops >= 1 {
                    out.insert("include-in-capture-in-loop");
                }
            }
            Stmt::Break | Stmt::Continue => {
                out.insert(if matches!(self, Stmt::Break) { "break" } else { "continue" });
                if loops >= 2 {
                    out.insert("break/continue-in-nested-loop");
                }
            }
            Stmt::Assign(g, ..) => {
                out.insert(if *g { "set_global" } else if loops >= 1 { "set-in-loop" } else { "set" });
            }
            _ => {}
        }
    }
}

// ------------------------------------------------------------------ data

fn m(entries: Vec<(&str, Value)>) -> Value {
    let mut mm = Map::new();
    for (k, v) in entries {
        mm.insert(k.to_string().into(), v);
    }
    Value::from(mm)
}

/// (render context, global context). `v w` are bound in both with layer-tagged strings, so the
/// output shows which scope answered; `gl` only in the global context; `u` nowhere.
pub fn contexts(rng: &mut Rng) -> (Vec<(String, Value)>, Vec<(String, Value)>) {
    let mut ctx: Vec<(String, Value)> = vec![
        ("t".into(), Value::from(true)),
        ("acc".into(), Value::from("ca")),
        ("flag".into(), Value::from(false)),
        ("f".into(), Value::from(false)),
        ("z".into(), Value::from(0u64)),
        ("es".into(), Value::from("")),
        ("arr".into(), Value::from(vec![Value::from("a"), Value::from("<b>"), Value::from("c")])),
        ("one".into(), Value::from(vec![Value::from(7u64)])),
        ("e".into(), Value::from(Vec::<Value>::new())),
        ("s".into(), Value::from("x\u{65e5}\u{1F600}&")),
        ("m1".into(), m(vec![("k", Value::from("mv"))])),
        ("em".into(), Value::from(Map::new())),
        (
            "rows".into(),
            Value::from(vec![
                m(vec![("x", Value::from(1u64)), ("y", Value::from(true))]),
                m(vec![("x", Value::from("<2>")), ("y", Value::from(false))]),
                m(vec![("x", Value::from(3u64)), ("y", Value::from(true))]),
            ]),
        ),
        (
            "nest".into(),
            Value::from(vec![
                Value::from(vec![Value::from(1u64), Value::from(2u64)]),
                Value::from(Vec::<Value>::new()),
                Value::from(vec![Value::from(3u64), Value::from(4u64), Value::from(5u64)]),
            ]),
        ),
    ];
    let mut glob: Vec<(String, Value)> = vec![("gl".into(), Value::from("G"))];
    // shadowing candidates: each of v, w bound in context and/or global
    for n in ["v", "w"] {
        match rng.below(8) {
            0..=2 => ctx.push((n.into(), Value::from(format!("c{n}")))),
            3..=4 => glob.push((n.into(), Value::from(format!("g{n}")))),
            5..=6 => {
                ctx.push((n.into(), Value::from(format!("c{n}"))));
                glob.push((n.into(), Value::from(format!("g{n}"))));
            }
            _ => {}
        }
    }
    // sometimes shadow a falsy/truthy flag from the global side
    if rng.chance(1, 3) {
        glob.push(("f".into(), Value::from(true)));
    }
    (ctx, glob)
}

// ------------------------------------------------------------------ generator

#[derive(Clone, Copy, PartialEq)]
enum Kind {
    Scalar,
    Row,
    List,
}

#[derive(Clone)]
pub struct Scope {
    vars: Vec<(String, Kind)>, // loop variables in scope
    in_loop: bool,             // break/continue allowed (not across a capture)
    loop_lexical: bool,        // loop.* rewritten (any enclosing for)
    includes: Vec<String>,     // templates this one may include
    ext: u8,                   // 0: the language of family `ref`; >0: also the extended expression forms
}

impl Scope {
    pub fn top(includes: Vec<String>) -> Scope {
        Scope { vars: vec![], in_loop: false, loop_lexical: false, includes, ext: 0 }
    }
    /// family `compile` only: expressions also use the forms Model/Compile.v covers beyond Spec `ref`
    pub fn top_ext(includes: Vec<String>, ext: u8) -> Scope {
        Scope { vars: vec![], in_loop: false, loop_lexical: false, includes, ext }
    }
}

fn cstr(s: &str) -> Expr {
    Expr::Const(Value::from(s), format!("\"{s}\""))
}
fn cint(i: i64) -> Expr {
    Expr::Const(Value::from(i), format!("{i}"))
}
fn cbool(b: bool) -> Expr {
    Expr::Const(Value::from(b), format!("{b}"))
}
fn var(n: &str) -> Expr {
    Expr::Var(n.to_string())
}

/// one of the extended forms (arithmetic, comparisons, `~`, `in` / `not in`, unary minus, ternary)
/// over sub-expressions of the ordinary generator; only reached when `sc.ext > 0`
fn ext_expr(rng: &mut Rng, sc: &Scope, depth: u32, want_cond: bool) -> Expr {
    let d = depth.saturating_sub(1);
    let num = |rng: &mut Rng| -> Expr {
        match rng.below(5) {
            0 => cint(rng.range(0, 9)),
            1 => var(*rng.pick(&["z", "n1", "n2"])),
            2 if sc.loop_lexical => Expr::Loop(*rng.pick(&["index", "index0", "length"])),
            3 if depth > 0 => scalar(rng, sc, d),
            _ => Expr::Filter(Box::new(var(*rng.pick(&["arr", "s", "one"]))), "length", vec![]),
        }
    };
    if sc.ext >= 2 && rng.chance(1, 2) {
        return ext2_expr(rng, sc, depth);
    }
    let k = if want_cond { 3 + rng.below(5) } else { rng.below(8) };
    match k {
        0 | 1 => {
            let op = *rng.pick(&["+", "-", "*", "/", "//", "%", "**", "+", "-", "*"]);
            Expr::Bin(op, Box::new(num(rng)), Box::new(num(rng)))
        }
        2 => {
            // `~`: a unary operator is a syntax error directly after it (parser.rs 889-897)
            let a = scalar(rng, sc, d);
            let mut b = scalar(rng, sc, d);
            if matches!(b, Expr::Neg(_) | Expr::Not(_) | Expr::NotIn(..)) {
                b = var("w");
            }
            Expr::Bin("~", Box::new(a), Box::new(b))
        }
        3 | 4 => {
            let op = *rng.pick(&["<", "<=", ">", ">=", "!="]);
            Expr::Bin(op, Box::new(num(rng)), Box::new(num(rng)))
        }
        5 => {
            let a = Box::new(if rng.chance(1, 2) { cstr(*rng.pick(&["a", "k", "zz"])) } else { scalar(rng, sc, d) });
            let b = Box::new(var(*rng.pick(&["arr", "s", "m1", "e", "one"])));
            if rng.chance(1, 2) { Expr::Bin("in", a, b) } else { Expr::NotIn(a, b) }
        }
        6 => Expr::Ternary(
            Box::new(cond(rng, sc, d)),
            Box::new(if want_cond { cond(rng, sc, d) } else { scalar(rng, sc, d) }),
            Box::new(if want_cond { cond(rng, sc, d) } else { scalar(rng, sc, d) }),
        ),
        // `-` and `not` cannot be used consecutively (parser.rs 748-759): fine under parentheses
        _ => Expr::Neg(Box::new(num(rng))),
    }
}

/// subscripts, slices, optional chaining, function calls, array / map literals (never literal-only:
/// the parser folds those into constants, parser.rs 636-651 / 707-712)
fn ext2_expr(rng: &mut Rng, sc: &Scope, depth: u32) -> Expr {
    let d = depth.saturating_sub(1);
    let base = |rng: &mut Rng| -> Expr {
        match rng.below(4) {
            0 => var(*rng.pick(&["arr", "s", "rows", "nest", "m1", "u"])),
            1 if depth > 0 => scalar(rng, sc, d),
            2 => Expr::Attr(Box::new(var("m1")), "k".into()),
            _ => var(*rng.pick(&["arr", "nest", "one"])),
        }
    };
    let idx = |rng: &mut Rng| -> Expr {
        match rng.below(4) {
            0 => cint(rng.range(0, 3)),
            1 => cstr(*rng.pick(&["k", "x"])),
            2 if sc.loop_lexical => Expr::Loop("index0"),
            _ => {
                if depth > 0 { scalar(rng, sc, d) } else { var("z") }
            }
        }
    };
    let nonlit = |rng: &mut Rng| -> Expr {
        match rng.below(3) {
            0 => var(*rng.pick(&["v", "w", "arr", "z"])),
            1 if depth > 0 => match scalar(rng, sc, d) {
                Expr::Const(..) => var("v"),
                e => e,
            },
            _ => Expr::Attr(Box::new(var("m1")), "k".into()),
        }
    };
    // `?.` and `?[` are only parsed after an identifier path (parser.rs parse_ident), not after `)`
    let is_path = |e: &Expr| {
        let mut e = e;
        loop {
            match e {
                Expr::Var(_) => return true,
                Expr::Attr(x, _) | Expr::AttrOpt(x, _) => e = x,
                _ => return false,
            }
        }
    };
    let path = |rng: &mut Rng| -> Expr {
        match rng.below(3) {
            0 => Expr::Attr(Box::new(var("m1")), rng.pick(&["k", "nokey"]).to_string()),
            1 => Expr::AttrOpt(Box::new(var(*rng.pick(&["u", "m1", "rows"]))), "k".into()),
            _ => var(*rng.pick(&["arr", "s", "rows", "nest", "m1", "u"])),
        }
    };
    match rng.below(9) {
        0 => Expr::AttrOpt(Box::new(path(rng)), rng.pick(&["x", "k", "nope"]).to_string()),
        1 | 2 => {
            let b = base(rng);
            Expr::Sub(is_path(&b) && rng.chance(1, 2), Box::new(b), Box::new(idx(rng)))
        }
        3 | 4 => {
            let mut part = |rng: &mut Rng| if rng.chance(1, 2) { Some(Box::new(idx(rng))) } else { None };
            let a = part(rng);
            let b = part(rng);
            let c = if rng.chance(1, 3) { Some(Box::new(if rng.chance(1, 2) { Expr::Neg(Box::new(cint(1))) } else { cint(rng.range(1, 3)) })) } else { None };
            let e = base(rng);
            Expr::Slice(is_path(&e) && rng.chance(1, 2), Box::new(e), a, b, c)
        }
        5 => match rng.below(3) {
            0 => Expr::Call("now", vec![]),
            1 => Expr::Call("range", vec![("end".into(), idx(rng))]),
            _ => Expr::Call("throw", vec![("message".into(), nonlit(rng))]),
        },
        6 | 7 => {
            let n = 1 + rng.below(3);
            let mut items: Vec<(bool, Expr)> = (0..n)
                .map(|_| match rng.below(4) {
                    0 => (true, var(*rng.pick(&["arr", "one", "e"]))),
                    1 => (false, cint(rng.range(0, 5))),
                    _ => (false, nonlit(rng)),
                })
                .collect();
            if items.iter().all(|(sp, e)| !*sp && matches!(e, Expr::Const(..))) {
                items.push((false, var("v")));
            }
            Expr::Arr(items)
        }
        _ => {
            let n = 1 + rng.below(3);
            let mut entries: Vec<(Option<(Value, String)>, Expr)> = (0..n)
                .map(|i| match rng.below(5) {
                    0 => (None, var(*rng.pick(&["m1", "em"]))),
                    1 => (Some((Value::from(i as i64), format!("{i}"))), nonlit(rng)),
                    2 => (Some((Value::from(true), "true".to_string())), cint(1)),
                    _ => {
                        let k = *rng.pick(&["a", "k", "zz"]);
                        (Some((Value::from(k), format!("\"{k}\""))), nonlit(rng))
                    }
                })
                .collect();
            if entries.iter().all(|(k, e)| k.is_some() && matches!(e, Expr::Const(..))) {
                entries.push((None, var("m1")));
            }
            Expr::Map(entries)
        }
    }
}

/// an expression that prints (a scalar) most of the time
fn scalar(rng: &mut Rng, sc: &Scope, depth: u32) -> Expr {
    if sc.ext > 0 && depth > 0 && rng.chance(2, 5) {
        return ext_expr(rng, sc, depth, false);
    }
    let scalars: Vec<&(String, Kind)> = sc.vars.iter().filter(|v| v.1 == Kind::Scalar).collect();
    let rows: Vec<&(String, Kind)> = sc.vars.iter().filter(|v| v.1 == Kind::Row).collect();
    match rng.below(if depth == 0 { 9 } else { 16 }) {
        0 | 1 => var(*rng.pick(&["v", "w", "v", "w", "gl", "acc"])),
        2 if !scalars.is_empty() => var(&rng.pick(&scalars).0),
        3 if !rows.is_empty() => Expr::Attr(Box::new(var(&rng.pick(&rows).0)), rng.pick(&["x", "y"]).to_string()),
        4 if sc.loop_lexical => Expr::Loop(*rng.pick(&["index", "index0", "first", "last", "length"])),
        5 => match rng.below(3) {
            0 => cstr(*rng.pick(&["k", "lit"])),
            1 => cint(rng.range(0, 3)),
            _ => cbool(rng.chance(1, 2)),
        },
        6 => Expr::Filter(Box::new(var(*rng.pick(&["v", "w", "u", "acc"]))), "default", vec![("value".into(), cstr("d"))]),
        7 => var(*rng.pick(&["t", "f", "z", "es", "m1", "one"])),
        8 => {
            if rng.chance(1, 4) {
                var("u") // unbound: an error when printed
            } else {
                var("v")
            }
        }
        9 => Expr::And(Box::new(cond(rng, sc, depth - 1)), Box::new(scalar(rng, sc, depth - 1))),
        10 => Expr::Or(Box::new(cond(rng, sc, depth - 1)), Box::new(scalar(rng, sc, depth - 1))),
        11 => Expr::Filter(Box::new(scalar(rng, sc, depth - 1)), "upper", vec![]),
        12 => Expr::Filter(Box::new(var(*rng.pick(&["arr", "s", "e", "m1", "nest"]))), "length", vec![]),
        13 => Expr::Eq(Box::new(scalar(rng, sc, depth - 1)), Box::new(scalar(rng, sc, depth - 1))),
        14 => Expr::Filter(
            Box::new(var(*rng.pick(&["u", "v"]))),
            "default",
            vec![("value".into(), scalar(rng, sc, depth - 1))],
        ),
        _ => Expr::Attr(Box::new(var("m1")), "k".into()),
    }
}

/// a condition with a truthy/falsy mix
fn cond(rng: &mut Rng, sc: &Scope, depth: u32) -> Expr {
    if sc.ext > 0 && depth > 0 && rng.chance(2, 5) {
        return ext_expr(rng, sc, depth, true);
    }
    let rows: Vec<&(String, Kind)> = sc.vars.iter().filter(|v| v.1 == Kind::Row).collect();
    let scalars: Vec<&(String, Kind)> = sc.vars.iter().filter(|v| v.1 == Kind::Scalar).collect();
    match rng.below(if depth == 0 { 9 } else { 14 }) {
        0 => var(*rng.pick(&["t", "f", "z", "es", "e", "arr", "em", "m1"])),
        1 => var(*rng.pick(&["v", "w", "u", "acc", "flag"])),
        2 if sc.loop_lexical => Expr::Loop(*rng.pick(&["first", "last", "index0"])),
        3 if sc.loop_lexical => Expr::Eq(Box::new(Expr::Loop(*rng.pick(&["index", "index0"]))), Box::new(cint(rng.range(0, 2)))),
        4 if !rows.is_empty() => Expr::Attr(Box::new(var(&rng.pick(&rows).0)), "y".into()),
        5 if !scalars.is_empty() => Expr::Eq(
            Box::new(var(&rng.pick(&scalars).0)),
            Box::new(match rng.below(3) {
                0 => cstr("a"),
                1 => cint(rng.range(1, 3)),
                _ => cstr("c"),
            }),
        ),
        6 => Expr::Test(Box::new(var(*rng.pick(&["v", "w", "u", "acc", "flag"]))), *rng.pick(&["defined", "undefined"])),
        7 => Expr::Eq(Box::new(var(*rng.pick(&["v", "w"]))), Box::new(cstr(*rng.pick(&["cv", "gv", "cw", "sv"])))),
        8 => cbool(rng.chance(1, 2)),
        9 => Expr::Not(Box::new(cond(rng, sc, depth - 1))),
        10 => Expr::And(Box::new(cond(rng, sc, depth - 1)), Box::new(cond(rng, sc, depth - 1))),
        11 => Expr::Or(Box::new(cond(rng, sc, depth - 1)), Box::new(cond(rng, sc, depth - 1))),
        12 => Expr::Test(Box::new(Expr::Attr(Box::new(var("m1")), rng.pick(&["k", "nokey"]).to_string())), "defined"),
        _ => var("t"),
    }
}

fn text(rng: &mut Rng) -> Stmt {
    Stmt::Text(rng.pick(&["A", "b ", "<i>", " & ", "-", "xy", ". "]).to_string())
}

/// (target expression, kind of the loop variable, key/value form possible)
fn loop_target(rng: &mut Rng, sc: &Scope) -> (Expr, Kind, bool) {
    let lists: Vec<&(String, Kind)> = sc.vars.iter().filter(|v| v.1 == Kind::List).collect();
    match rng.below(12) {
        0 | 1 => (var("arr"), Kind::Scalar, false),
        2 => (var("rows"), Kind::Row, false),
        3 => (var("s"), Kind::Scalar, false),
        4 => (var("m1"), Kind::Scalar, true),
        5 => (var(*rng.pick(&["e", "es", "em"])), Kind::Scalar, false),
        6 => (var("nest"), Kind::List, false),
        7 if !lists.is_empty() => (var(&rng.pick(&lists).0), Kind::Scalar, false),
        8 => (var("one"), Kind::Scalar, false),
        9 if rng.chance(1, 3) => (var(*rng.pick(&["z", "u", "t"])), Kind::Scalar, false), // not iterable / undefined: error
        10 => (Expr::Filter(Box::new(var(*rng.pick(&["u", "arr"]))), "default", vec![("value".into(), var("one"))]), Kind::Scalar, false),
        _ => (var("arr"), Kind::Scalar, false),
    }
}

pub fn stmt(rng: &mut Rng, depth: u32, sc: &Scope) -> Stmt {
    let d = depth.saturating_sub(1);
    let top = if depth == 0 { 6 } else { 20 };
    match rng.below(top) {
        0 => text(rng),
        1 | 2 => Stmt::Print(scalar(rng, sc, 2)),
        3 => Stmt::Assign(rng.chance(1, 3), rng.pick(&["v", "w", "acc", "flag"]).to_string(), if rng.chance(1, 2) { cstr(*rng.pick(&["sv", "sw"])) } else { scalar(rng, sc, 1) }),
        4 if sc.in_loop => {
            // break/continue under if
            let c = cond(rng, sc, 1);
            let bc = if rng.chance(1, 2) { Stmt::Break } else { Stmt::Continue };
            let mut b = vec![];
            if rng.chance(1, 3) {
                b.push(text(rng));
            }
            b.push(bc);
            Stmt::If(c, b, if rng.chance(1, 3) { body(rng, d, sc) } else { vec![] })
        }
        5 if !sc.includes.is_empty() => Stmt::Include(rng.pick(&sc.includes).clone()),
        4 | 5 => Stmt::Print(scalar(rng, sc, 1)),
        6 | 7 => {
            // if / elif / else
            let c = cond(rng, sc, 2);
            let b = body(rng, d, sc);
            let els = match rng.below(4) {
                0 => vec![],
                1 => body(rng, d, sc),
                2 => vec![Stmt::If(cond(rng, sc, 1), body(rng, d, sc), if rng.chance(1, 2) { body(rng, d, sc) } else { vec![] })],
                _ => vec![Stmt::If(
                    cond(rng, sc, 1),
                    body(rng, d, sc),
                    vec![Stmt::If(cond(rng, sc, 1), body(rng, d, sc), body(rng, d, sc))],
                )],
            };
            Stmt::If(c, b, els)
        }
        8..=11 => {
            let (target, kind, kv) = loop_target(rng, sc);
            let val = rng.pick(&["i", "j", "v", "w"]).to_string(); // v/w: the loop variable shadows
            let key = if kv && rng.chance(2, 3) { Some("k".to_string()) } else if rng.chance(1, 25) { Some("k".to_string()) } else { None };
            let mut inner = sc.clone();
            inner.vars.retain(|x| x.0 != val);
            inner.vars.push((val.clone(), kind));
            if key.is_some() {
                inner.vars.push(("k".into(), Kind::Scalar));
            }
            inner.in_loop = true;
            inner.loop_lexical = true;
            let mut b = vec![];
            if rng.chance(1, 2) {
                b.push(Stmt::Print(match kind {
                    Kind::Row => Expr::Attr(Box::new(var(&val)), "x".into()),
                    Kind::List => Expr::Filter(Box::new(var(&val)), "length", vec![]),
                    Kind::Scalar => var(&val),
                }));
            }
            if key.is_some() && rng.chance(2, 3) {
                b.push(Stmt::Print(var("k")));
            }
            b.extend(body(rng, d, &inner));
            let els = if rng.chance(1, 3) { body(rng, d, sc) } else { vec![] };
            Stmt::For { key, val, target, body: b, els }
        }
        12 | 13 => {
            let mut inner = sc.clone();
            inner.in_loop = false;
            let fs: Vec<(&'static str, Kw)> = match rng.below(4) {
                0 => vec![],
                1 => vec![("upper", vec![])],
                2 => vec![("default", vec![("value".into(), cstr("dflt"))])],
                _ => vec![("upper", vec![]), ("safe", vec![])],
            };
            let name = rng.pick(&["v", "acc", "w"]).to_string();
            Stmt::SetBlock(rng.chance(1, 4), name, body(rng, d, &inner), fs)
        }
        14 | 15 => {
            let mut inner = sc.clone();
            inner.in_loop = false;
            let (name, kw): (&'static str, Kw) = match rng.below(4) {
                0 | 1 => ("upper", vec![]),
                2 => ("safe", vec![]),
                _ => ("default", vec![("value".into(), scalar(rng, sc, 0))]),
            };
            Stmt::Filter(name, kw, body(rng, d, &inner))
        }
        16 => Stmt::Assign(true, rng.pick(&["v", "acc", "flag"]).to_string(), scalar(rng, sc, 1)),
        17 if !sc.includes.is_empty() => {
            // include inside a capture (inside whatever loop we are in)
            let mut b = vec![Stmt::Include(rng.pick(&sc.includes).clone())];
            if rng.chance(1, 2) {
                b.push(text(rng));
            }
            if rng.chance(1, 2) {
                Stmt::Filter("upper", vec![], b)
            } else {
                Stmt::SetBlock(false, "acc".into(), b, vec![])
            }
        }
        18 => Stmt::Print(var(*rng.pick(&["v", "w", "acc", "gl"]))),
        _ => text(rng),
    }
}

pub fn body(rng: &mut Rng, depth: u32, sc: &Scope) -> Vec<Stmt> {
    let n = 1 + rng.below(3);
    let mut out: Vec<Stmt> = Vec::new();
    for _ in 0..n {
        let s = stmt(rng, depth, sc);
        // adjacent texts would be one Content node for the parser
        if let (Some(Stmt::Text(prev)), Stmt::Text(t)) = (out.last_mut(), &s) {
            prev.push_str(t);
            continue;
        }
        out.push(s);
    }
    out
}

/// a library: entry first; template k may include templates k+1..
pub fn library(rng: &mut Rng, depth: u32) -> Vec<(String, Vec<Stmt>)> {
    let n_inc = match rng.below(4) {
        0 => 0,
        1 | 2 => 1,
        _ => 2,
    };
    let mut names: Vec<String> = vec![if rng.chance(1, 2) { "t0.html".into() } else { "t0.txt".into() }];
    for k in 0..n_inc {
        names.push(if rng.chance(1, 2) { format!("inc{k}.html") } else { format!("inc{k}.txt") });
    }
    let mut lib = Vec::new();
    for (k, name) in names.iter().enumerate() {
        let sc = Scope::top(names[k + 1..].to_vec());
        let mut b = body(rng, if k == 0 { depth } else { depth.min(2) }, &sc);
        if k > 0 {
            // an included template reads what its includer has (loop variable i, v, acc) and
            // assigns v: the assignment must not reach the includer
            let mut pre = vec![Stmt::Print(Expr::Filter(
                Box::new(var(*rng.pick(&["i", "v", "acc", "j"]))),
                "default",
                vec![("value".into(), cstr("none"))],
            ))];
            if rng.chance(1, 2) {
                pre.push(Stmt::Assign(rng.chance(1, 2), "v".into(), cstr("iv")));
                pre.push(Stmt::Print(var("v")));
            }
            pre.extend(b);
            b = pre;
            // merge adjacent texts
            let mut merged: Vec<Stmt> = Vec::new();
            for s in b {
                if let (Some(Stmt::Text(prev)), Stmt::Text(t)) = (merged.last_mut(), &s) {
                    prev.push_str(t);
                    continue;
                }
                merged.push(s);
            }
            b = merged;
        }
        lib.push((name.clone(), b));
    }
    lib
}

/// Include CHAINS of depth 2-4 (c0 includes c1 includes ... cd).  Every includer may define a
/// loop variable (own name n<k> or the shared name `n`: shadowing at intermediate levels), a
/// per-iteration `set li<k> = loop.index`, `set` variables (s<k>, and the shared `lab`, always
/// set by c0, re-set by some intermediate levels inside or outside their loop), `set_global`
/// variables (g<k>, shared `gg`); the include sits directly in the body, in a filter section
/// or in a set block, inside the loop.  Every included template reads ALL names any includer
/// at any distance may have defined (through `default`, and `lab` bare: it is always defined
/// by the non-adjacent includer c0).
pub fn chain_library(rng: &mut Rng) -> Vec<(String, Vec<Stmt>)> {
    let d = 2 + rng.below(3);
    let names: Vec<String> = (0..=d).map(|k| format!("c{k}.{}", if rng.chance(1, 2) { "html" } else { "txt" })).collect();
    let dflt = |n: &str| Stmt::Print(Expr::Filter(Box::new(var(n)), "default", vec![("value".into(), cstr("-"))]));
    let multi_level = rng.below(d); // the one level allowed to iterate several items
    let mut lib = Vec::new();
    for k in 0..=d {
        let mut b: Vec<Stmt> = Vec::new();
        if k > 0 {
            b.push(Stmt::Text("<".into()));
            b.push(Stmt::Print(var("lab")));
            for j in 0..k {
                for n in [format!("n{j}"), format!("li{j}"), format!("s{j}"), format!("g{j}")] {
                    if rng.chance(3, 4) {
                        b.push(dflt(&n));
                    }
                }
            }
            b.push(dflt("n"));
            b.push(dflt("gg"));
            b.push(Stmt::Text(">".into()));
        }
        if k < d {
            if k == 0 || rng.chance(1, 3) {
                b.push(Stmt::Assign(false, "lab".into(), cstr(&format!("L{k}"))));
            }
            if rng.chance(1, 2) {
                b.push(Stmt::Assign(false, format!("s{k}"), cstr(&format!("S{k}"))));
            }
            if rng.chance(1, 2) {
                b.push(Stmt::Assign(true, format!("g{k}"), cstr(&format!("G{k}"))));
            }
            let inc = Stmt::Include(names[k + 1].clone());
            let inc = match rng.below(4) {
                0 => vec![Stmt::Filter("upper", vec![], vec![inc])],
                1 => vec![Stmt::SetBlock(false, "acc".into(), vec![inc], vec![]), Stmt::Print(var("acc"))],
                _ => vec![inc],
            };
            if rng.chance(3, 4) {
                let val = if rng.chance(1, 3) { "n".to_string() } else { format!("n{k}") };
                let target = if k == multi_level { *rng.pick(&["arr", "s", "rows"]) } else { *rng.pick(&["one", "m1"]) };
                let target = if target == "rows" { var("nest") } else { var(target) };
                let mut lb = vec![Stmt::Assign(false, format!("li{k}"), Expr::Loop("index"))];
                if rng.chance(1, 3) {
                    lb.push(Stmt::Assign(false, "lab".into(), cstr(&format!("l{k}"))));
                }
                if rng.chance(1, 3) {
                    lb.push(Stmt::Assign(true, "gg".into(), Expr::Loop("index0")));
                }
                lb.push(Stmt::Text("[".into()));
                lb.extend(inc);
                lb.push(Stmt::Text("]".into()));
                b.push(Stmt::For { key: None, val, target, body: lb, els: vec![] });
            } else {
                b.extend(inc);
            }
            if k > 0 && rng.chance(1, 2) {
                // what the nested include assigned is not visible here
                b.push(dflt(&format!("s{}", k + 1)));
            }
        }
        lib.push((names[k].clone(), b));
    }
    lib
}
