//! Printing of real instruction listings / finalized templates as Gallina terms of
//! TeraV.Model.Instr / Model.VM, and the "modelled subset" test used by the VM families.
use crate::*;
use tera::verif::{Listing, TemplateListing, VInstr};

pub fn gal_instr(i: &VInstr) -> String {
    let s0 = || gal_str(&i.strs[0]);
    let n = || i.num.unwrap();
    let bits = || {
        format!(
            "[{}]",
            i.bits.as_ref().unwrap().iter().map(|b| gal_bool(*b)).collect::<Vec<_>>().join("; ")
        )
    };
    match i.op {
        "LoadConst" => format!("(LoadConst {})", gal_value_ord(i.konst.as_ref().unwrap())),
        "Set" => format!("(SetI {})", s0()),
        "LoadName" | "LoadAttr" | "LoadAttrOpt" | "WriteText" | "SetGlobal" | "Include"
        | "CallFunction" | "RenderInlineComponent" | "RenderBodyComponent" | "ApplyFilter"
        | "RunTest" | "RenderBlock" | "StoreLocal" => format!("({} {})", i.op, s0()),
        "BuildMap" | "BuildList" | "Jump" | "PopJumpIfFalse" | "JumpIfFalseOrPop"
        | "JumpIfTrueOrPop" | "Iterate" => format!("({} {}%nat)", i.op, n()),
        "StartIterate" | "StartIterateComprehension" => format!("({} {})", i.op, gal_bool(n() == 1)),
        "BuildMapWithSpreads" | "BuildListWithSpreads" => format!("({} {})", i.op, bits()),
        "LoadPath" | "WritePath" => format!(
            "({} [{}])",
            i.op,
            i.strs.iter().map(|s| gal_str(s)).collect::<Vec<_>>().join("; ")
        ),
        "In" => "InOp".to_string(),
        other => other.to_string(),
    }
}

/// instructions only (no spans)
pub fn gal_code(l: &Listing) -> String {
    format!("[{}]", l.iter().map(|(i, _)| gal_instr(i)).collect::<Vec<_>>().join("; "))
}

/// Like gal_value but map entries in the map's real iteration order (what a for loop sees).
pub fn gal_value_ord(v: &tera::Value) -> String {
    use tera::value::ValueKind as K;
    match v.kind() {
        K::Array => {
            let parts: Vec<String> = v.as_array().unwrap().iter().map(gal_value_ord).collect();
            format!("(VArr [{}])", parts.join("; "))
        }
        K::Map => {
            let parts: Vec<String> = v
                .as_map()
                .unwrap()
                .iter()
                .map(|(k, x)| format!("({}, {})", gal_key(k), gal_value_ord(x)))
                .collect();
            format!("(VMap [{}])", parts.join("; "))
        }
        _ => gal_value(v),
    }
}

pub fn gal_template(t: &TemplateListing, root_chunk: &Listing) -> String {
    let lin: Vec<String> = t
        .lineage
        .iter()
        .map(|(b, chunks)| {
            format!(
                "({}, [{}])",
                gal_str(b),
                chunks.iter().map(gal_code).collect::<Vec<_>>().join("; ")
            )
        })
        .collect();
    format!(
        "{{| t_name := {}; t_chunk := {}; t_root_chunk := {}; t_lineage := [{}]; t_autoescape := {} |}}",
        gal_str(&t.name),
        gal_code(&t.chunk),
        gal_code(root_chunk),
        lin.join("; "),
        gal_bool(t.autoescape)
    )
}

pub fn gal_ctx(c: &[(String, tera::Value)]) -> String {
    format!(
        "[{}]",
        c.iter().map(|(k, v)| format!("({}, {})", gal_str(k), gal_value_ord(v))).collect::<Vec<_>>().join("; ")
    )
}

/// Names of the built-ins Model/World0.v knows.
pub const W0_FILTERS: [&str; 4] = ["default", "upper", "safe", "length"];
pub const W0_TESTS: [&str; 2] = ["defined", "undefined"];

fn value_in_subset(v: &tera::Value) -> bool {
    use tera::value::ValueKind as K;
    match v.kind() {
        K::F64 | K::Bytes => false,
        K::Array => v.as_array().unwrap().iter().all(value_in_subset),
        K::Map => v.as_map().unwrap().iter().all(|(_, x)| value_in_subset(x)),
        K::String => v.as_str().unwrap().chars().all(|c| c == '\n' || c == '\t' || (c >= ' ' && c != '\u{7f}' && (c as u32) < 0x300)),
        _ => true,
    }
}

/// Does the chunk stay inside what Model/World0.v models (no arithmetic, no components, only
/// the known filters/tests, no functions except super, printable constants)?
pub fn in_w0_subset(l: &Listing) -> bool {
    l.iter().all(|(i, _)| match i.op {
        "Mul" | "Div" | "FloorDiv" | "Mod" | "Plus" | "Minus" | "Power" | "Negative"
        | "RenderInlineComponent" | "RenderBodyComponent" => false,
        "ApplyFilter" => W0_FILTERS.contains(&i.strs[0].as_str()),
        "RunTest" => W0_TESTS.contains(&i.strs[0].as_str()),
        "CallFunction" => i.strs[0] == "super",
        "LoadConst" => value_in_subset(i.konst.as_ref().unwrap()),
        "WriteText" => true,
        _ => true,
    })
}

pub fn ctx_in_subset(c: &[(String, tera::Value)]) -> bool {
    c.iter().all(|(_, v)| value_in_subset(v))
}
