from props import TB_COMMON

HDR08 = "From TeraV Require Import Model.Value Model.Lexer Spec.Doc Corr.CorrC08."

CFG = {
    "bin": "c08",
    "corr": ["CorrC08"],
    "families": {
        "lex": {"header": HDR08, "model_fn": "model_lex", "rule": "F"},
        "render": {"header": HDR08, "model_fn": "model_render", "rule": "F"},
        "delims": {"header": HDR08, "model_fn": "model_delims", "rule": "F"},
    },
    "exhaustive_when": "exhaustive_le3",
    "rule_text": "cases = (delimiter set, source bytes, filtered?) with the real token list and spans / (delimiter set, document, "
                 "what its expressions print) with the real rendering / a delimiter set with the result of set_delimiters; distinct by "
                 "the Gallina term of the case; non-trivial = a token list of >= 3 tokens containing a delimiter/comment/raw token (lex), "
                 "a document of >= 2 items with at least one `-` marker (render), a set that is not one of the accepted base sets "
                 "(delims). Exhaustive sub-space (thorough): every document of <= 3 items over the item alphabet named in "
                 "extra.exhaustive_space; the rest random documents of up to 14 items under 15 delimiter sets, their prefixes and "
                 "single-character deletions, and a hand-written corpus of edge cases.",
    "trusted_base": TB_COMMON + [
        "axioms: none (every C08 theorem is 'Closed under the global context')",
        "modelled, not verified: Rust std's char::is_whitespace / str::trim_start / trim_end (Unicode White_Space, modelled in "
        "Model/Utf8.v as the 25 code points U+0009-000D, 0020, 0085, 00A0, 1680, 2000-200A, 2028, 2029, 202F, 205F, 3000 and their "
        "UTF-8 byte patterns), str::get / split_at character-boundary tests (the model works on bytes; delimiters accepted by "
        "validate are valid 2-byte strings so byte equality implies the boundary test), str::parse::<i64>/<f64> for number tokens "
        "(i64 range test on the digit value; float values are compared by source text), the Tera::render_str path from the "
        "parser's node list to the output for inert expressions (`{{ 1 }}` prints 1, `{% set %}` nothing)",
        "the harness decides which generated documents are inside the property's side condition (delimiters do not occur in the "
        "text) by asking the real lexer whether it cuts the printed source at the item boundaries; documents that do not read "
        "back are still compared token by token through the lex family",
    ],
    "modelled": ["parsing/lexer.rs memstr, skip_tag, find_start_marker, basic_tokenize (all three states, every token kind, "
                 "span bookkeeping of advance!), whitespace_filter", "delimiters.rs Delimiters::validate",
                 "parsing/parser.rs 1661-1666 (empty Content dropped)"],
    "assumptions": ["the model describes lexer.rs WITH fixes/D6-comment-resets-trim.patch applied (Model/Lexer.v comment_flag_fixed = true); "
                    "on a tree without the patch the check reports the D6 cases (A {{ 1 -}}{# c #}  B) as violations, which is what they are",
                    "lex_print is stated for documents whose raw tags are spelled with single spaces (`{% raw %}`, `{% endraw %}`); "
                    "other spellings are covered by the correspondence run only",
                    "expressions and tags are opaque: their interior is whatever the lexer model's scan_inside accepts; what they "
                    "evaluate to is outside this property",
                    "implementation == model only on the cases enumerated by the harness"],
}

MANIFEST = (
    "Rocq proof: byte-level lexer model reads every well-formed printed document back as itself under every accepted delimiter set, and the whitespace filter + drop-empty rule equals the adjacency specification for all documents; correspondence run ties the model (all tokens, spans) and the specification (render_str) to the code",
    "Theorems (Props/C08.v, closed under the global context) are proved by induction over documents of any length with any byte strings as texts and any accepted 2-byte delimiter set: the Gallina port of basic_tokenize cuts `print dl doc` exactly at the item boundaries (lex_print), the port of whitespace_filter followed by the parser's drop-empty rule yields exactly 'trim the facing end of the directly adjacent text' (ws_filter_spec; refuted with a witness for the pinned code, D6), and the corollaries (no start delimiter => renders itself; re-spelling invariance; validate accepts iff six 2-byte strings with distinct starts). The port is tied to the Rust code by running both on generated sources (every token and span before and after the filter) and documents (render_str vs the specification), exhaustively for all documents of <= 3 items. A universal theorem is the right level because the property quantifies over all texts, all marker placements and all delimiter sets; tests can only sample them.",
    "§6 C08",
)
