from props import TB_COMMON

HDR18 = "From TeraV Require Import Model.Value Model.Instr Model.VM Corr.CorrC18."
CFG = {
    "bin": "c18",
    "corr": ["CorrC18"],
    "families": {
        "wfail": {"header": HDR18, "model_fn": "model_wfail", "rule": "F"},
        "wcalls": {"header": HDR18, "model_fn": "model_wcalls", "rule": "F"},
        "audit": {"header": HDR18, "model_fn": "model_audit", "rule": "O"},
    },
    "rule_text": "wfail: one case per (finalized real template set from the tera_verif hook template_listing, entry, optional block, context, "
                 "character budget n): the real render_to/render_block_to is run against a writer that accepts n bytes and then errors; Model/VM.v is run "
                 "under wr_of budget_writer (outcome class) and sticky budget_writer (text the writer is left holding); both must agree. Budgets are "
                 "drawn from the engine's own write-call boundaries (= a writer failing at its k-th call) and from arbitrary offsets inside a call, "
                 "on character boundaries; non-trivial = 0 < n < output length. wcalls: per successful render, the model's write_all log must "
                 "concatenate to the engine output, every model call boundary must be an engine call boundary, and failing_at_call k on the model "
                 "must be left holding the first k model calls; non-trivial = at least 3 engine write calls. audit: one case per (file, kind) of "
                 "interior-mutability token found in tera/src outside verif.rs, checked against the allow-list in Corr/CorrC18.v (rule O: a new kind "
                 "is an open obligation, not by itself a failing input). Implementation-side oracles (counted in evaluations, rule O): for every job "
                 "(render, render_block, render_component, render_str, one_off) x context over hand-written, grammar-generated, inheritance/include sets, "
                 "components, the engine's snapshot corpus and a recursion-depth boundary suite (self-recursive, mutually recursive, body-carrying and include-routed "
                 "components driven to nesting depths around MAX_COMPONENT_RECURSION_DEPTH — the limit is found by probing — through render of a calling page, "
                 "render_component and render_str): String variant vs _to(Vec) vs _to(recording writer) byte-identical / same error class; a "
                 "writer failing once at its k-th write call for every k (stride above a cap), byte-budget writers for every n (stride above a cap) "
                 "with whole, 1-byte and 3-byte short writes and with Ok(0), a writer interrupting every other call, a writer whose flush fails: "
                 "Err(Io), never Ok, never a panic, accepted bytes = the exact prefix, no write after the failure; repeated renders identical; "
                 "engine snapshot (Debug + all finalized chunks, lineages, components) and contexts unchanged; 16 threads x N renders on one Arc<Tera> "
                 "identical to the sequential results; distinct_nontrivial counts distinct (outcome, output, call-boundary) behaviours. "
                 "Purity over histories (harness/src/c18_history.rs): random histories of engine operations — add/replace templates one by one or in "
                 "batches (every position of a base/mid/child chain, include target, component source, pages using them; replacements keep names, parents, "
                 "blocks and shapes and change only bodies), autoescape suffixes, delimiters, fallback prefixes, escape fn, filter/test/function "
                 "registration, global context, clone — interleaved with renders through every entry point and channel, run on engine A; after EVERY step "
                 "A is observed (names, every template and block through both channels on two contexts, every component and its definition, five one-off "
                 "sources under both autoescape flags, led by the one-off rendered most recently) and compared with an engine B rebuilt from the "
                 "non-render operations alone that has never rendered before; a divergence is shrunk by single-op removal and reported with the history. "
                 "One-off concurrency stress: 16 threads, each with its own (source, autoescape) pair (some sharing a source and differing in the flag), "
                 "fixed rounds, on one shared Arc<Tera> and on per-thread clones of one engine, render_str and render_str_to alternating, every result "
                 "compared with the sequential answer of a fresh engine.",
    "trusted_base": TB_COMMON + [
        "axioms: none",
        "Model/VM.v is a hand port of interpret()/render_to; Model/Writer.v ports the public render* entry points of tera.rs and models a "
        "std::io::Write seen through write_all as a total step function (state after the call, whole text accepted?)",
        "Model/World0.v restricts the model-side correspondence to the built-ins it models (default/upper/safe/length, defined/undefined, no "
        "arithmetic, no components); the implementation-side oracles are not restricted",
        "granularity: one model-level write_all call (a whole formatted/escaped value) is a batch of engine write_all calls (Value::format and "
        "escape_html write piecewise); the wcalls family checks that model call boundaries are engine call boundaries",
        "PARTIAL: thread interleavings are sampled by the OS scheduler (16 threads), Send/Sync is checked by rustc when the harness is built, "
        "interior mutability is a textual audit — none of these is a theorem",
    ],
    "modelled": ["vm/interpreter.rs interpret (all 56 instructions incl. every write site), render_include, render_component, render_to (both shapes), render, render_block",
                 "tera.rs render/render_to/render_block(_to)/render_component(_to)/render_str(_to)/one_off (lookup, lineage check, build_context, then the VM entry)",
                 "errors.rs From<io::Error> => ErrorKind::Io as the class ErrIo; String::from_utf8 is the identity on model strings"],
    "assumptions": ["fuel 6000 steps per render in the model-side cases",
                    "escape_fn and custom filters write valid UTF-8 and fail only when the writer fails (the default escape_html does)",
                    "model-side budgets are on character boundaries (a model string is a list of code points); byte offsets inside a character are covered by the implementation-side oracle only",
                    "when the template fails by itself the model cannot show the text written before that failure (RFail carries no sink): class compared on the model, prefix checked on the implementation"],
    "harness_timeout": 1500,
}

MANIFEST = (
    "Rocq proof (two-writer lockstep simulation of the VM model over all instructions) for the writer half and purity; real chunks run on the model under failing writers; failing-writer, repeat, snapshot and 16-thread oracles on the engine; compile-time Send+Sync; interior-mutability audit",
    "Proved for every world, program, state, context, fuel, writer and failure point of the Gallina port of the VM: any writer receives exactly the "
    "write_all calls of the infallible run, in order, up to its first failure; render_to then returns ErrIo (never success) and the writer is left "
    "holding a prefix of the full output; with no failed call the state and text equal the infallible run's; the String-returning variants of "
    "render/render_block/render_component/render_str/one_off equal their _to variants on any accepting writer; the block variant delivers exactly "
    "block_buffer; results do not depend on earlier buffer contents and sequential renders equal independent ones. The port is tied to the engine "
    "every run by executing real finalized chunks on it under budget/failing-at-call writers. PARTIAL by nature: concurrent renders on a shared "
    "instance, Send/Sync and absence of interior mutability are observed (16 threads), compile-checked and audited, not proved; for templates that "
    "fail by themselves the prefix claim is checked on the engine only.",
    "§6 C18, §10",
)
