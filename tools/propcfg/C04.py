from props import TB_COMMON

HDR4 = ("From Coq Require Import List NArith.\nFrom TeraV Require Import Model.Value Model.Lineage Corr.CorrC04.\n"
        "Import ListNotations.")
CFG = {
    "bin": "c04",
    "corr": ["CorrC04"],
    "harness_timeout": 2400,
    "families": {
        "set": {"header": HDR4, "model_fn": "model_set", "rule": "F"},
    },
    "rule_text": "set: one case per generated template SET (real sources): class of add_raw_templates, render(T) for every T, "
                 "render_block(T, b) for every T and every block name of the set plus one undefined name; distinct by term; non-trivial = "
                 "accepted, >= 2 templates, at least one super() and block/capture nesting depth >= 2. Exhaustive sub-space: every chain of "
                 "length 1..3 over two block names with one layout per level from a fixed menu (see extra.exhaustive_space). Oracles on the "
                 "implementation, every set: same outcome for every batch order (all permutations up to 4 templates), for fresh instances "
                 "(new HashMap seeds) and for every parent-before-child incremental order; no panic; output made of marker tokens only. "
                 "`{% include \"T\" %}` renders what render(T) renders (D9). Sets whose block nesting is cyclic through the chain (D13 class) are "
                 "rejected by finalize's find_block_cycle, which the model ports; should one be accepted it renders in a child process and "
                 "is compared as CDiverge with the model's out-of-fuel outcome.",
    "trusted_base": TB_COMMON + [
        "axioms: none (every C04 theorem is 'Closed under the global context')",
        "abstraction: templates are trees of Text / BlockDef / Super / FilterSection; `{{ super() }}` is the only use of super(); "
        "Capture..EndCapture pairs are balanced because the compiler emits them around a body (stack discipline is C07's subject)",
        "modelled, not verified: HashMap (association lists; every iteration finalize_templates performs takes an explicit order "
        "parameter and the theorems hold for all of them), Vec<(name, lineage, level)> as a list with the top first",
    ],
    "modelled": ["parsing/parser.rs 1513-1548 duplicate block names; parsing/compiler.rs 421-441 compile_block, 487-520 block set, 613-630 filter section",
                 "template.rs 184-210 find_parents",
                 "tera.rs 579-745 finalize_templates: parents, orphan-block check, own lineage, inherit pass, block-cycle check; template.rs 186-245 find_block_cycle; tera.rs render_block",
                 "vm/interpreter.rs WriteText, Capture/EndCapture, RenderBlock (capture_block/block_buffer), CallFunction super, render_to"],
    "assumptions": ["template names resolve to themselves (no prefix configuration)",
                    "render theorems exclude the out-of-fuel outcome by carrying the same fuel on both sides (model fuel = spec fuel); "
                    "accepted => the render terminates is not proved (finalize's block-cycle check is ported and its verdict proved order-independent, its completeness as a termination criterion is not); "
                    "the ported find_block_cycle walk is fuelled with (number of (block, level) nodes + 2); out-of-fuel / bad-index outcomes are explicit and never met by the correspondence run",
                    "implementation == model only on the sets enumerated by the harness"],
}

MANIFEST = (
    "Rocq proof: ported finalize_templates lineage passes = most-derived/nearest-ancestor specification for every chain and every map iteration order; "
    "VM block/super/capture model = recursive specification for every fuel; correspondence on generated template sets",
    "Theorems (Props/C04.v) over the Gallina port of find_parents, the two lineage passes and the VM's RenderBlock/super()/capture_block logic: lineage "
    "equals the specified one for every chain and every iteration order of the maps involved, the model render equals the recursive specification "
    "for chains of any length and any nesting (same fuel on both sides, so also for divergent sets), finalize rejects exactly orphan top-level child "
    "blocks (finalize's later block-cycle check is ported, and its verdict proved independent of the iteration orders), a finite render never activates a block inside itself, and single-block rendering returns exactly the text the block writes in the full render ("" if never reached, same error if the render fails). The port is tied to the code by running "
    "both on generated template sets (exhaustive small chains, sampled longer ones, random forests) inside coqc.",
    "§6 C04",
)
