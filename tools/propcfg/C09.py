from props import TB_COMMON

HDR9 = "From TeraV Require Import Model.Value Model.Instr Corr.CorrC09."
CFG = {
    "bin": "c09",
    "corr": ["CorrC09"],
    "families": {
        "opt": {"header": HDR9, "model_fn": "model_opt", "rule": "F"},
        "optworld": {"header": "From TeraV Require Import Model.Value Model.Instr Model.VM Corr.CorrC09.",
                     "model_fn": "model_optworld", "rule": "F"},
    },
    "rule_text": "opt: one case per compiled chunk (main, block, component) of every snapshot-corpus template and every generated template: "
                 "(listing before, listing after Chunk::optimize) obtained through the tera_verif hook; distinct by term; non-trivial = at least "
                 "one fused group and a jump target on or next to a LoadName/LoadAttr/WriteTop. Oracle: render_str with the pass on and off "
                 "(process-wide hook switch) over 10 contexts x autoescape on/off must give the same text or fail together. "
                 "optworld: one case per template SET (3 hand-written incl. components/arithmetic, 30 generated inheritance+include+loop sets; 120 in thorough) "
                 "registered twice, pass off and pass on: inside Coq world_ok (the hypotheses of C09_optimize_world_correct) on the real unoptimised "
                 "finalized world, opt_world of it = the real optimised finalized world (own chunk, root chunk, every lineage chunk, component table), "
                 "and for sets in the World0 subset the model VM renders both worlds like the engine (render and render_block, 2 contexts; 4 in thorough); "
                 "non-trivial = at least 3 fused instructions and a block lineage. Oracle: the real renders of the two registrations agree.",
    "trusted_base": TB_COMMON + [
        "axioms: none",
        "hook H2 (tera::verif::chunk_listings, set_optimize) reports the chunks the real compiler and the real optimize produce",
        "optimize_correct is proved over an abstract machine whose non-fused instructions have arbitrary deterministic semantics; "
        "the semantics given to LoadName/LoadAttr/WriteTop/LoadPath/WritePath/jumps/Iterate/Break are ported by hand from vm/interpreter.rs",
        "optimize_world_correct is proved over Model/VM.v (hand port of interpret(), tied to the engine by the C03/C01/C07 VM correspondence "
        "runs and by the optworld renders here); its world-side hypotheses are get_attr(Undefined)=None and scope_blind (filters/functions "
        "cannot observe ForLoop.end_ip, a private field), both proved for World0",
        "hook template_listing / component_listings report the finalized chunks (block lineage, component table) the VM runs",
    ],
    "modelled": ["parsing/instructions.rs Chunk::optimize (whole function)",
                 "vm/interpreter.rs: LoadName, LoadAttr, WriteTop, LoadPath, WritePath, Jump*, Iterate/Break control flow",
                 "Tera::finalize_templates + Chunk::optimize on every chunk of a world (Model/OptWorld.v opt_world) over the full concrete VM (Model/VM.v)"],
    "assumptions": ["jump targets of compiled chunks are <= chunk length (checked on every real listing by the model returning Some)",
                    "whole-world theorem: every chunk passes chunk_ok (unfused, targets in range, Iterate forward, C07 check_chunk) - evaluated in Coq on every real "
                    "world of the optworld family; without the loop discipline of check_chunk the statement is false (C09_needs_loop_discipline_example)"],
}

MANIFEST = (
    "Rocq proof: structure theorem + per-chunk simulation (abstract VM) + whole-world simulation on the concrete VM (nested chunks optimised too); translation validation of every real chunk and of real finalized worlds against the ported pass; on/off render oracle",
    "Theorems over the Gallina port of Chunk::optimize: the optimised code expands back to the original, no fused group swallows a jump target, "
    "every jump lands on the group start of the instruction it pointed to, and (simulation) running the optimised chunk on the abstract VM "
    "yields the same output, stacks and failure as the original for every chunk with in-range targets and every state; and (optimize_world_correct) "
    "on the concrete VM model, for every world whose chunks pass four decidable checks, every template, writer, block option and context, rendering "
    "with every chunk optimised gives the same bytes or the same error class, in both directions with explicit fuel, includes/blocks/super()/components "
    "included. The port is tied to the "
    "code by recomputing optimize inside Coq on the real before-listings of all corpus and generated templates and comparing with the real "
    "after-listings, every run; the hook's on/off switch gives a direct behavioural oracle.",
    "§6 C09",
)
