from props import TB_COMMON

HDR9 = "From TeraV Require Import Model.Value Model.Instr Corr.CorrC09."
CFG = {
    "bin": "c09",
    "corr": ["CorrC09"],
    "families": {
        "opt": {"header": HDR9, "model_fn": "model_opt", "rule": "F"},
    },
    "rule_text": "opt: one case per compiled chunk (main, block, component) of every snapshot-corpus template and every generated template: "
                 "(listing before, listing after Chunk::optimize) obtained through the tera_verif hook; distinct by term; non-trivial = at least "
                 "one fused group and a jump target on or next to a LoadName/LoadAttr/WriteTop. Oracle: render_str with the pass on and off "
                 "(process-wide hook switch) over 10 contexts x autoescape on/off must give the same text or fail together.",
    "trusted_base": TB_COMMON + [
        "axioms: none",
        "hook H2 (tera::verif::chunk_listings, set_optimize) reports the chunks the real compiler and the real optimize produce",
        "optimize_correct is proved over an abstract machine whose non-fused instructions have arbitrary deterministic semantics; "
        "the semantics given to LoadName/LoadAttr/WriteTop/LoadPath/WritePath/jumps/Iterate/Break are ported by hand from vm/interpreter.rs",
    ],
    "modelled": ["parsing/instructions.rs Chunk::optimize (whole function)",
                 "vm/interpreter.rs: LoadName, LoadAttr, WriteTop, LoadPath, WritePath, Jump*, Iterate/Break control flow"],
    "assumptions": ["jump targets of compiled chunks are <= chunk length (checked on every real listing by the model returning Some)"],
}

MANIFEST = (
    "Rocq proof: structure theorem + simulation for the ported fusion pass; translation validation of every real chunk against the ported pass; on/off render oracle",
    "Theorems over the Gallina port of Chunk::optimize: the optimised code expands back to the original, no fused group swallows a jump target, "
    "every jump lands on the group start of the instruction it pointed to, and (simulation) running the optimised chunk on the abstract VM "
    "yields the same output, stacks and failure as the original for every chunk with in-range targets and every state. The port is tied to the "
    "code by recomputing optimize inside Coq on the real before-listings of all corpus and generated templates and comparing with the real "
    "after-listings, every run; the hook's on/off switch gives a direct behavioural oracle.",
    "§6 C09",
)
