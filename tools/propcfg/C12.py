from props import TB_COMMON

_H = "From TeraV Require Import Model.Value Model.Report Corr.CorrC12."

CFG = {
    "bin": "c12",
    "corr": ["CorrC12"],
    "families": {
        # F: the property fixes the answer on these (a span either is well-formed for its source or it
        # is not; Display is the text of reporting.rs for well-formed spans): a mismatch is a failing input
        "tokens": {"header": _H, "model_fn": "model_tokens", "rule": "F"},
        "spans": {"header": _H, "model_fn": "model_spans", "rule": "F"},
        "report": {"header": _H, "model_fn": "model_report", "rule": "F"},
        "eoi": {"header": _H, "model_fn": "model_eoi", "rule": "F"},
        # O: which instructions the VM combines for an operator error is decided by the oracle on the
        # error itself (span well-formed, covers the expression); the model only replays combine+expand
        "hull": {"header": _H, "model_fn": "model_hull", "rule": "O"},
    },
    "rule_text": "Every family draws its sources from an alphabet with every line-ending flavour (\\n, \\r\\n, lone \\r, \\n\\r, \\r\\r\\n, U+2028, U+0085, VT, FF, "
                 "no final terminator) before tags, inside tags, inside string literals, comments and raw blocks, and as the first/last byte. "
                 "tokens/spans: case = (source, spans the implementation attached to it: raw token stream / instruction span lists "
                 "before and after fusion + expression spans + filtered tokens + lexer-error spans); distinct by source+spans; non-trivial = the "
                 "source has a line break AND a multi-byte character and at least 3 spans. report: case = one syntax/rendering error (message, "
                 "file name, source, span, expected notes, Display text); non-trivial = the source is multi-line or non-ASCII and the span is not on "
                 "line 1 / its column differs from its byte offset / the error has call-site notes. eoi: non-trivial = the last token is not empty. "
                 "hull: non-trivial = both operands contribute to the span. Oracle-only evaluations: every planted fault (fault kind x placement x "
                 "prefix x suffix x wrapper x caller prefix), every truncation of the sweep templates, every token/instruction span; non-trivial = "
                 "an error with a span was obtained and all of (a)-(f) were evaluated on it. Rule (d): the span intersects the planted token (an "
                 "empty span lies within it, ends included) and stays inside the planted statement; when the surrounding construct makes a different "
                 "error fire first (message differs from the fault planted alone) the span must stay inside the statement and its wrapper tags.",
    "trusted_base": TB_COMMON + [
        "axioms: none (every C12 theorem is 'Closed under the global context')",
        "modelled, not verified: Rust str primitives (is_char_boundary, chars, split_at, slicing, match_indices('\\n') as byte search, "
        "trim_end_matches, usize::to_string, format!) as the byte-level functions of Model/Report.v; sources are assumed to be structurally valid "
        "UTF-8 (lead byte + announced continuation bytes), which every Rust str is",
        "the harness's own reference line/column (1 + count of '\\n' bytes; chars().count() since the last '\\n') and the planted-fault bookkeeping",
    ],
    "modelled": ["utils.rs Span, Span::expand", "parsing/lexer.rs loc!/make_span!/advance! (the only writers of current_line/col/byte)",
                 "parsing/parser.rs Parser::eoi (as repaired by fixes/D12-eoi-range.patch; the pinned version is eoi_unpatched)",
                 "parsing/instructions.rs Chunk::get_span/get_span_at/expand_span, span lists of fused instructions",
                 "vm/stack.rs combine_spans", "vm/interpreter.rs report_target",
                 "reporting.rs get_line_starts, SourceLocation::new, generate_report (complete text, notes included)"],
    "assumptions": ["implementation == model only on the cases enumerated by the harness",
                    "that the compiler emits the operands of an operator in source order (hypothesis `ordered_at` of C12_combine_hull_partial) is observed "
                    "on real errors (oracle b/c/d, family hull), not proved: the compiler is not modelled in this development",
                    "which span the parser/VM chooses for each kind of error (\"covers the offending token\") is checked by the planted-fault oracle only",
                    "custom delimiters are exercised by other properties' harnesses; here the default set"],
}

MANIFEST = (
    "Rocq proof: lexer span bookkeeping invariant, Span::expand / eoi / expand_span well-formedness, report printer total and quoting the right line for all sources and well-formed spans; planted-fault oracle + correspondence run tie model to code",
    "Theorems (Props/C12.v, closed under the global context) prove over all UTF-8 byte strings that the tokenizer's (line, column, byte) bookkeeping always equals the reference line/column of the byte offset (columns in characters), that spans built, expanded, fused and combined from well-formed spans stay well-formed, and that SourceLocation::new/generate_report index in bounds, never split a character and quote exactly the line containing the span start for every span with an existing line number (and panic otherwise) - statements over all sources, spans and notes that no finite set of snapshots can make. The hand-ported model is tied to the Rust code by replaying it inside coqc on the real token streams, instruction span tables and error texts, and an implementation-side oracle checks template name, span, coverage, Display and call-site notes on every error provoked by faults planted at known byte ranges of multi-template sets.",
    "§6 C12",
)
