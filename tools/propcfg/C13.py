from props import TB_COMMON

H = "From TeraV Require Import Model.Value Model.Number Corr.CorrC13."

CFG = {
    "bin": "c13",
    "corr": ["CorrC13"],
    "families": {
        "arith": {"header": H, "model_fn": "model_arith", "rule": "F"},
        "neg": {"header": H, "model_fn": "model_neg", "rule": "F"},
        "cmp": {"header": H, "model_fn": "model_cmp", "rule": "F"},
        "prim": {"header": H, "model_fn": "model_prim", "rule": "F"},
        "cmpx": {"header": H, "model_fn": "model_cmpx", "rule": "F"},
    },
    "rule_text": "arith: one case = an operand pair (a, b) with the implementation's result of `{{ a OP b }}` for every OP in + - * / // % ** "
                 "that the model computes on that pair (integer results with their representation tag, float results by bit pattern, errors by class); "
                 "cmp: one case = a pair with the six results of == != < <= > >= through the template operators AND, for two numbers, of Value::partial_cmp / Ord::cmp / == through the Rust API; every tier runs ALL ordered pairs of the core float pool (+-0.0, +-min subnormal, +-MIN_POSITIVE, +-1, +-(2^53-1), +-2^53, +-(2^53+2), +-2^63, +-2^64, +-2^127, +-2^128, +-MAX, +-inf, eight NaN bit patterns of both signs, quiet and signalling) and that pool against the width-boundary integers in both operand orders; cmpx: the same six operators with one operand computed inside the template (`0.0 * -1` = -0.0, `inf - inf` = the hardware NaN, ...); neg: one operand; prim: Rust's own `as f64` / floor / trunc / `as i128` / `as u128` / `%` / rem_euclid / div_euclid "
                 "against the model's f64 primitives. Distinct by the Gallina term of the case. Non-trivial = both operands usable numbers and not both zero (arith), "
                 "operands of different representation, a NaN operand or two float zeros (cmp), every case (cmpx), non-zero number (neg), non-integral or finite float / any integer (prim). "
                 "NOT compared with the model, only run for the no-panic oracle (counted in extra.oracle_only_evaluations): `**` with a float operand or a negative "
                 "integer exponent (f64::powf). Float `//` and `%` ARE compared (f64::div_euclid / rem_euclid modelled over an exact fmod). "
                 "Thorough tier: every ordered pair of boundary values (arith, one random representation per integer) and every pool float against every boundary integer in every representation in both orders, every ordered pair of pool floats, every ordered pair of boundary integer values and "
                 "of all representations of the width-boundary integers (cmp); quick tier: random pairs over the same pools + random integers of every bit length + floats next to integers.",
    "trusted_base": TB_COMMON + [
        "axioms: none (every C13 theorem is 'Closed under the global context')",
        "modelled, not verified: i128::checked_add/sub/mul/neg/pow, div_euclid/rem_euclid, wrapping_rem_euclid (modelled on Z with explicit range tests, "
        "div/rem_euclid from their std source text over truncating Z.quot/Z.rem, checked_pow from its std source text (square-and-multiply over checked_mul, 32 units of fuel, proved equal to `exact power iff representable`)); IEEE-754 binary64 "
        "+ - * / and comparisons as Coq.Floats.SpecFloat (prec 53, emax 1024), `as f64` as SpecFloat.binary_normalize (round to nearest even), f64::floor, f64::trunc, `%` on f64 (exact fmod), f64::rem_euclid, f64::div_euclid and the "
        "saturating `as i128`/`as u128` casts as hand-written functions on spec_float — all cross-checked against Rust's own results by the `prim` family; "
        "NaN payloads and the sign of NaN are not represented (spec_float has one NaN)",
        "the implementation is observed through render_str(\"{{ (a OP b) | probe }}\") with operands inserted into the Context (LoadName, LoadName, OP, ApplyFilter), "
        "i.e. through the VM instructions Plus/Minus/Mul/Div/FloorDiv/Mod/Power/Negative/Equal/NotEqual/LessThan/...; constant folding of literals is not on this path",
    ],
    "modelled": ["value/number.rs add sub mul div floor_div rem pow negate, Number::{into_float,as_float,is_zero}",
                 "value/mod.rs as_number, cmp_f64_to_number, cmp_f64_to_i128, cmp_f64_to_u128, numeric arms of PartialEq/PartialOrd for Value",
                 "vm/interpreter.rs math_binop!, ordering_binop!, op_binop!(==, !=), Plus, Negative (operand checks and error mapping)"],
    "assumptions": ["floats are valid binary64 values (SpecFloat.valid_binary 53 1024), integers satisfy the range of their representation tag",
                    "implementation == model only on the cases enumerated by the harness",
                    "f64::powf is outside the model: the property only says such operations are 'carried out in floating point'; the harness checks that it does not panic",
                    "`**` with an exponent above u32::MAX is excluded from the pow theorem (known finding pow:exponent>u32::MAX)"],
}

MANIFEST = (
    "Rocq proof: Gallina port of number.rs and of the numeric comparison code = exact integer arithmetic (or error) and exact comparison of the mathematical values for all i64/u64/i128/u128/f64 operands; correspondence run ties the port to the code",
    "Theorems (Props/C13.v, closed under the global context) prove for every pair of operands in every representation that + - * // % ** and negation return the exact integer iff operands and result fit i128 and an error otherwise, that // and % are the Euclidean quotient and remainder, that / is the float quotient, and that == and the ordering computed by cmp_f64_to_i128/u128 (guards at 2^127/2^128, floor, saturating cast, tie-break) coincide with comparison of the exact dyadic values, NaN equal to itself and above everything. The port is tied to the Rust code by running both on all pairs of boundary values in all representations inside coqc. A universal theorem is the right level: the claim is over all pairs of 128-bit integers and doubles, of which tests sample about twenty.",
    "§6 C13",
)
