from props import TB_COMMON

HDR01 = "From TeraV Require Import Model.Value Model.Instr Model.VM Model.Taint Model.WorldC01 Corr.CorrC01."
CFG = {
    "bin": "c01",
    "corr": ["CorrC01"],
    "families": {
        # the property fixes WHICH characters may appear, not the whole text: decided by the oracle
        "c01vm": {"header": HDR01, "model_fn": "model_c01", "rule": "O"},
    },
    "rule_text": "One POISON context string (all of & < > \" ' plus 3- and 4-byte characters, and an embedded `&amp;`) in a string, an array, "
                 "a map (also as a key) and a nested map is routed by generated programs through variables, attribute paths, loops (arrays, "
                 "characters, map entries), set, set-blocks with and without filter chains, filter sections, includes, blocks/super(), components "
                 "(arguments, defaults, rest maps, bodies, nested, recursive to the depth limit), ternaries, and/or, default, ~, index/slice of "
                 "captured text, containers printed whole, __tera_context; template names .html/.txt with the default and a custom suffix list "
                 "(set before and after registration), render, render_block, render_str(autoescape), render_component(autoescape, body). "
                 "Every render is repeated under three CUSTOM escape functions installed with Tera::set_escape_fn: a marker that wraps each call in \u27e6..\u27e7 "
                 "(outside the marked regions and the literal tokens no data character may appear: the escaper ran on every unsafe write, whatever "
                 "the characters), an xNN-style JS-string escaper (no bare / \" ' newline, every backslash starts one of its sequences) and the identity "
                 "(poison verbatim); string literals of the template itself (with characters only non-HTML escapers rewrite) are printed directly and "
                 "through ternary/or/and/~/set/capture/default/array forms; under every escaper the render with Chunk::optimize switched off (hook H2) "
                 "must write the same text; safe strings of every length 0..40 from every mint point are concatenated with short unsafe ones in both "
                 "orders (768 programs, a third per quick run); an opcode the model VM does not know is an oracle failure. "
                 "ORACLE on every render: autoescape on everywhere and no safe => after erasing the generator's literal tokens the output has none "
                 "of < > \" ' and (unless the program cuts captured text) every & starts one of the five entities, and the escaped poison is "
                 "present; autoescape off or `| safe` => the poison appears verbatim; the engine's per-template flag equals 'name ends with a "
                 "configured suffix'; all 128 ASCII code points through the real escaper equal the generated table. c01vm: the REAL finalized chunks "
                 "and component table run on Model/VM.v in the world of Model/WorldC01.v; output/error class compared with the engine under the same escape function (a world parameter); for custom-escaper cases the "
                 "unoptimised chunks of the same program are run on the model too and must write the same; on every case every chunk that can run must pass the "
                 "decidable side condition of the theorems (Model/CapCheck.v bodies_from_capture: the body of every RenderBodyComponent was pushed by "
                 "EndCapture); for special-free literal text (strict cases) the theorem's hypotheses are re-checked and the model output must be clean. Non-trivial = more than 20 output characters from a program using at least "
                 "one routing construct (all sweep and hand-written programs count). The sweep (5 mint points x 6 flag-preserving operations x "
                 "2 sinks x 7 routings = 420 programs) is exhaustive in the thorough tier, 1/7 of it in the quick tier.",
    "trusted_base": TB_COMMON + [
        "axioms: none (every C01 theorem is 'Closed under the global context')",
        "tools/gen/safe.py (T-gen): arms of Value::is_safe, which built-ins override is_safe()/mint safe strings, default autoescape suffixes",
        "hooks tera::verif::template_listing / component_listings report the chunks the VM runs; component signatures (parameter names, "
        "defaults, rest) are the generator's own, the engine's ComponentDefinition is not read back",
        "Model/WorldC01.v models only default/upper(ASCII)/length/escape_html/safe, defined/undefined, ==, <, in, component binding; no "
        "arithmetic, no functions except super(): the c01vm correspondence is restricted to that subset (the oracle is not)",
        "the f64 printer is an oracle assumed to print no special character (floats are not generated)",
    ],
    "modelled": ["vm/interpreter.rs interpret (WriteTop/WritePath sinks, EndCapture, component!, super(), Include, all 56 instructions)",
                 "value/mod.rs is_safe, mark_safe, get_item/slice keeping the string kind; utils.rs escape_html (generated map)",
                 "parsing/ast.rs ComponentDefinition::build_context, Type::matches_value; tera.rs set_templates_auto_escape/autoescape_on"],
    "assumptions": ["theorems (A) cover the special case 'literal text and constants contain no special character'; literal text with specials "
                    "is covered by the oracle and the sink-level theorems",
                    "the theorems carry the decidable chunk-level side condition bodies_from_capture (abstract interpretation of value and loop stack, "
                    "proved sound inside the invariant); it is evaluated on every real chunk of every correspondence case; "
                    "C01_body_mint_needs_capture shows the unconditional claim is false",
                    "filters/functions hand out no dirty safe-flagged string when given none (no use of safe); fuel 8000 steps per model render",
                    "safe_flag_origin is not proved as a single reachability statement"],
    "exhaustive_when": "sweep_exhaustive",
    "harness_timeout": 1500,
}

MANIFEST = (
    "Rocq proof: safe-flag invariant through the concrete VM for all instruction sequences; routed-poison oracle on every render; real chunks run on the model",
    "Theorems over the Gallina port of the VM: in every reachable state every safe-flagged string, capture buffer and the output are free of the "
    "characters outside an arbitrary set `ok` whenever the escaper's output, the literal text and the formatted scalars are, whatever unflagged data "
    "the context holds and however it is routed (all 56 instructions, nested runs for include/block/super()/component by induction on fuel); "
    "instantiated with the generated escape_html table this is the property for special-free literal text. The three mint points, the flag-keeping "
    "index/slice, the two sinks, autoescape off / safe (verbatim) and the suffix rule have their own theorems. body.mark_safe() relies on the compiler "
    "(witness): the theorems carry a decidable chunk check (body pushed by EndCapture) that is run on every real chunk. Tied to the code by T-gen (is_safe arms, escape map, suffixes) and by running real finalized "
    "chunks on the model; the general case (specials in literal text) is decided per render by the oracle.",
    "§6 C01",
)
