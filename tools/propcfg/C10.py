from props import TB_COMMON

_H = "From TeraV Require Import Model.Value Model.Registry Corr.CorrC11 Corr.CorrC10."

CFG = {
    "bin": "c10",
    "corr": ["CorrC11", "CorrC10"],
    "harness_timeout": 2400,
    "families": {
        "history": {"header": _H, "model_fn": "model_history", "rule": "F"},
    },
    "rule_text": "case = one history of add_raw_templates / autoescape_on calls on one long-lived instance over a pool of 35 "
                 "(name, source) descriptors that contains every failure kind (syntax error, missing parent, extends cycle, "
                 "include cycle, unknown filter / test / function / component / include target, duplicate component, orphan "
                 "block, a replacement that breaks a dependent template, and replacements that keep name, byte length, parent chain and block names while changing content, with descendants at distance 1 and 2, and replacements that change the parent chain of a template with descendants at distance 2 and 3), with the implementation's accept/reject + ErrorKind "
                 "after each call. Distinct by the Gallina term; non-trivial = at least two calls with at least one success and "
                 "one failure. Exhaustive sub-space: every history of <= 2 single-template calls (thorough: plus a sampled half of the 3-call ones) and every "
                 "two-template batch; every pool descriptor as a replacement on top of an accepted core, pairs of same-name variants as successive replacements, failing batches that repeat a name (undo order); the rest random (length <= 12, batches of 1..3, autoescape_on interleaved). After a failing add that touched existing or repeated names the observation is taken in a child process, so that a never-validated template left behind by a broken rollback is reported with its history instead of killing the harness. "
                 "Implementation-side oracle on every call: a failing call leaves names / every render / every render_block / "
                 "every get_component_definition and render_component unchanged; after every call the instance is "
                 "observationally equal to a fresh instance given the resulting set in one sorted and one shuffled batch.",
    "trusted_base": TB_COMMON + [
        "axioms: none (every C10 theorem is 'Closed under the global context')",
        "modelled, not verified: HashMap<String,_> as a key-sorted association list (canonical representative of a finite map); "
        "the parser/compiler as the descriptor the harness derives from the same structured template it prints",
    ],
    "modelled": ["tera.rs add_raw_templates (insertion loop, undo list), finalize_templates (all passes, commit only on success), "
                 "set_templates_auto_escape / autoescape_on, resolve_template_name, get_template_priority",
                 "template.rs Template::new (fresh derived fields), find_parents, check_include_cycles (with the D10 repair), find_block_cycle (D13 repair)"],
    "assumptions": ["implementation == model only on the histories enumerated by the harness",
                    "add_template_files / load_from_glob share the same insert-then-finalize-with-undo shape but are not exercised",
                    "set_fallback_prefixes / set_delimiters / register_* are only legal or only meaningful before templates exist; "
                    "they are part of the fixed configuration `env`"],
}

MANIFEST = (
    "Rocq proof: undo list restores every map, a failing add is the identity, every reachable state is finalize(current set, configuration), so order and grouping cannot matter; correspondence run over histories + fresh-instance oracle",
    "Theorems (Props/C10.v, closed under the global context) prove for every map and every batch (duplicates, syntax errors in the middle) that replaying the undo list in reverse restores the map, that any failing add_raw_templates call leaves the instance exactly as it was, that after a successful call the instance equals a fresh instance given the resulting (name, source) set in one batch of any order, and by induction over arbitrary histories (adds, failing adds of every kind, autoescape_on) that the state is always a function of the current set, the configuration and the suffixes -- hence independent of order and grouping. The Gallina port is tied to the Rust code by running enumerated and random histories on one long-lived Tera and comparing accept/reject + ErrorKind inside coqc, and by the implementation-side oracle that compares observable behaviour with fresh instances. A universal theorem is the right level because the property quantifies over all histories; staleness or partial rollback shows only after particular ones.",
    "§6 C10",
)
