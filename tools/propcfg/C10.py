from props import TB_COMMON

_H = "From TeraV Require Import Model.Value Model.Registry Corr.CorrC11 Corr.CorrC10."

CFG = {
    "escalate": False,  # thorough generators take far longer than the second-pass budget (DESIGN 15.1)
    "bin": "c10",
    "corr": ["CorrC11", "CorrC10"],
    "harness_timeout": 2400,
    "families": {
        "history": {"header": _H, "model_fn": "model_history", "rule": "F"},
        "globhistory": {"header": _H, "model_fn": "model_ghistory", "rule": "F"},
    },
    "rule_text": "case = one history of add_raw_templates / add_template_file / add_template_files / autoescape_on calls on one long-lived instance over a pool of 35 "
                 "(name, source) descriptors that contains every failure kind (syntax error, missing parent, extends cycle, "
                 "include cycle, unknown filter / test / function / component / include target, duplicate component, orphan "
                 "block, a replacement that breaks a dependent template, and replacements that keep name, byte length, parent chain and block names while changing content, with descendants at distance 1 and 2, and replacements that change the parent chain of a template with descendants at distance 2 and 3), with the implementation's accept/reject + ErrorKind "
                 "after each call. Distinct by the Gallina term; non-trivial = at least two calls with at least one success and "
                 "one failure. Exhaustive sub-space: every history of <= 2 single-template calls (thorough: plus a sampled half of the 3-call ones) and every "
                 "two-template batch; every pool descriptor as a replacement on top of an accepted core, pairs of same-name variants as successive replacements, failing batches that repeat a name (undo order); the rest random (length <= 12, batches of 1..3, autoescape_on interleaved). After a failing add that touched existing or repeated names the observation is taken in a child process, so that a never-validated template left behind by a broken rollback is reported with its history instead of killing the harness. "
                 "File calls read real files written under <out>/files (the harness's working directory) at the moment the engine's loop asks for the entry: with an explicit name (own path) or with the path as the name, and with the failure kinds only files have (no file at the path, a directory, content that is not UTF-8, a path that is not UTF-8) first, in the middle and last in a batch, next to syntax errors and templates that do not finalize; the same key twice in one batch; single files go through add_template_file. Sub-space for file calls: every pool descriptor as one file under both namings, every 2-call history and every 2-file batch over the pool with at least one file call (thorough: every pair in one of the two shapes, alternating; quick: every 61st pair, so that the quick tier keeps its number of Coq shards), failing 3-file batches of same-name variants on top of an accepted core with the failing entry last or in the middle (thorough: all 169 pairs; quick: every 13th), random histories mixing all call kinds (25 / 1000); in a history with file calls the shuffled fresh instance is itself filled through add_template_files. "
                 "Family globhistory: histories over all call kinds including load_from_glob(<dir>/*) on two directories, full_reload, an invalid pattern, reload without a glob; the harness fills the directory before each glob call (good files, files that are not UTF-8, file names that are not UTF-8, sub-directories, syntax errors, sets that do not finalize) and records what the engine's own walk function returns; non-trivial = at least one successful glob call and one failing call. Extra oracles there: the second fresh instance is filled by a glob load of a directory holding exactly the set; after every failing call a copy taken before and a copy taken after the call must behave alike under full_reload() (remembered glob and from_glob marks). "
                 "Prefix histories (implementation-side oracle only, 500 quick / 4000 thorough): instances configured with two fallback prefixes, a pool in which one short name exists under the exact name and under both prefixes (some byte-identical) as template, parent, include target and component provider; same two oracles after every call. "
                 "Implementation-side oracle on every call: a failing call leaves names / every render / every render_block / "
                 "every get_component_definition and render_component unchanged; after every call the instance is "
                 "observationally equal to a fresh instance given the resulting set in one sorted and one shuffled batch.",
    "trusted_base": TB_COMMON + [
        "axioms: none (every C10 theorem is 'Closed under the global context')",
        "modelled, not verified: HashMap<String,_> as a key-sorted association list (canonical representative of a finite map); "
        "the parser/compiler as the descriptor the harness derives from the same structured template it prints",
    ],
    "modelled": ["tera.rs load_from_glob (keep manual templates, add every matched file collecting errors without early exit, mark from_glob, finalize, restore templates and glob on any error), full_reload",
                 "tera.rs add_file / add_template_file / add_template_files (the four error exits of add_file in order, key = name or path, insertion loop, undo list, early exit) -- proved equal to add_raw_templates on the batch of entries up to the first failing one, up to the kind of the error",
                 "tera.rs add_raw_templates (insertion loop, undo list), finalize_templates (all passes, commit only on success), "
                 "set_templates_auto_escape / autoescape_on, resolve_template_name, get_template_priority",
                 "template.rs Template::new (fresh derived fields), find_parents, check_include_cycles (with the D10 repair), find_block_cycle (D13 repair)"],
    "assumptions": ["implementation == model only on the histories enumerated by the harness",
                    "the file system is modelled by its answers: each (path, name) entry carries what reading the path yields (bad path / cannot open / cannot read / content); "
                    "the harness produces each answer with a real file and the engine's own std::fs calls",
                    "globbing::load_from_glob (walkdir + globset: which files a pattern matches, in which order) is modelled by its answer; "
                    "the harness obtains the answer by calling that public function on the same directory just before the engine does; "
                    "only patterns of the form <dir>/* and one invalid pattern are exercised",
                    "Template.from_glob is modelled as a set of names next to the instance (Model/RegistryGlob.v says why); Template.path is never read by the engine and is not modelled",
                    "the harness is built with the cargo feature glob_fs of tera enabled (harness/Cargo.toml)",
                    "set_fallback_prefixes / set_delimiters / register_* are only legal or only meaningful before templates exist; "
                    "they are part of the fixed configuration `env`"],
}

MANIFEST = (
    "Rocq proof: undo list restores every map, a failing add is the identity, every reachable state is finalize(current set, configuration), so order and grouping cannot matter; correspondence run over histories + fresh-instance oracle",
    "Theorems (Props/C10.v, closed under the global context) prove for every map and every batch (duplicates, syntax errors in the middle) that replaying the undo list in reverse restores the map, that any failing add_raw_templates or add_template_file(s) call (including files that cannot be opened or are not UTF-8, anywhere in the batch) leaves the instance exactly as it was, that the file loop is the raw loop on the batch of entries up to the first failing one, that after a successful call the instance equals a fresh instance given the resulting (name, source) set in one batch of any order, that a failing load_from_glob / full_reload restores templates, marks and the remembered glob while a successful one equals a fresh instance given the manual templates plus the matched files, and by induction over arbitrary histories (raw adds, file adds, glob loads, reloads, failing calls of every kind, autoescape_on) that the state is always a function of the current set, the configuration and the suffixes -- hence independent of order and grouping. The Gallina port is tied to the Rust code by running enumerated and random histories on one long-lived Tera and comparing accept/reject + ErrorKind inside coqc, and by the implementation-side oracle that compares observable behaviour with fresh instances. A universal theorem is the right level because the property quantifies over all histories; staleness or partial rollback shows only after particular ones.",
    "§6 C10",
)
