from props import TB_COMMON, HDR

CFG = {
    "bin": "c14",
    "corr": ["CorrC14"],
    "families": {
        "slice": {"header": HDR("CorrC14"), "model_fn": "model_slice", "rule": "F"},
        "index": {"header": HDR("CorrC14"), "model_fn": "model_index", "rule": "F"},
        "strops": {"header": HDR("CorrC14"), "model_fn": "model_strop", "rule": "F"},
    },
    "rule_text": "cases = (receiver, start, stop, step) / (receiver, index) / string op; distinct by the Gallina term of the case; "
                 "non-trivial = receiver is a sequence of >= 2 elements and at least one bound is given (slice), an integer index into a "
                 "non-empty sequence (index), a string with a multi-byte character and >= 2 characters (strops). Exhaustive sub-space: "
                 "every (absent | small int)^3 on short arrays; the rest random over boundary pools in all four integer representations.",
    "trusted_base": TB_COMMON + [
        "axioms: none (every C14 theorem is 'Closed under the global context')",
        "modelled, not verified: Rust's Vec indexing / clamp / saturating_add on i128 (modelled on Z with explicit range tests), "
        "str::chars / char_indices (strings are lists of scalar values in the model; UTF-8 encoding is below the model)",
    ],
    "modelled": ["value/mod.rs resolve_index, get_item (array/string arms), slice, slice_items, len, reverse",
                 "vm/interpreter.rs Slice/SliceOpt/BinarySubscript/BinarySubscriptOpt operand validation",
                 "filters.rs truncate; vm/for_loop.rs string iterator and loop.* counters"],
    "assumptions": ["list lengths below 2^127 (Rust: below 2^63)",
                    "implementation == model only on the cases enumerated by the harness",
                    "map receivers of x[i] are checked under C15, not here"],
}

# (technique, level text, design ref)
MANIFEST = (
    "Rocq proof: slice/index model = Python slice.indices+range for all lengths and all i128/u128 operands; correspondence run ties model to code",
    "Theorems (Props/C14.v, closed under the global context) prove that the Gallina port of resolve_index/slice_items/the VM operand validation returns exactly Python's selection, never indexes out of bounds and terminates within len steps, for every length and every 128-bit start/stop/step; the port is tied to the Rust code by running both on the same generated cases (exhaustive small space + boundary pools) inside coqc. A universal theorem is the right level because the property quantifies over all integers; tests can only sample them.",
    "§6 C14",
)
