from props import TB_COMMON

HDR7 = "From TeraV Require Import Model.Value Model.Instr Model.VM Model.StackCheck Corr.CorrC07."
CFG = {
    "bin": "c07",
    "corr": ["CorrC07"],
    "families": {
        # a real chunk that fails the proved validator = the real compiler emitted code that can
        # underflow / leave a stack unbalanced / call through a missing table entry
        "chk": {"header": HDR7, "model_fn": "model_chk", "rule": "F"},
        "wld": {"header": HDR7, "model_fn": "model_world", "rule": "F"},
    },
    "harness_timeout": 1500,
    "rule_text": "chk: one case per compiled chunk (main, every block, every component) of every snapshot-corpus template (248 files), every "
                 "hand-written break/continue/capture/comprehension/spread/component shape and every generated template, ONCE BEFORE AND ONCE AFTER "
                 "Chunk::optimize (tera_verif hook chunk_listings): the proved validator check_chunk must accept it; distinct by instruction list; "
                 "non-trivial = the chunk has a jump, loop, break, capture, spread, comprehension append or body-component call. "
                 "wld: one case per accepted template SET (corpus sets + generated sets of components / include / base / child with blocks, super(), "
                 "captures, loops): the finalized chunks, block lineage and component table (hooks template_listing / component_listings) with the "
                 "engine's registry names must satisfy world_checked, the hypothesis of C07_render_sound; non-trivial = at least 4 chunks. "
                 "Oracles (evaluations counted as oracle_only_*): H1 — built with --cfg tera_verif the engine asserts empty value/loop/capture stacks "
                 "after every render, include and component; every accepted set is rendered whole, by every block and by every component, and "
                 "operator / syntax-form / filter / filter-kwarg / test / function templates are rendered over the full product of a 38-value pool "
                 "(every kind, bytes incl. invalid UTF-8, i128/u128 extremes, NaN/+-inf, Undefined inside maps and arrays, depth-64 nesting): "
                 "outcome must be text that re-validates as UTF-8 or an error value, never a panic. REC — 14 programs that recurse without bound unless the "
                 "component depth guard stops them (self / mutual / component->include->component / body including the caller / through super(), blocks, "
                 "set-capture, filter section, kwargs) are rendered (every template, block and component) in a CHILD PROCESS with a 30 s limit: each must "
                 "end in an error value; death by signal (stack overflow) or timeout is a violation (the family also holds include cycles that pass through "
                 "inherited blocks, nested blocks and component bodies: rejected at registration or an error value). EPM — error-position matrix: ~110 "
                 "value-producing expression forms (literals, variables, paths, subscripts, slices with every combination of present/absent operands, "
                 "optional chaining, unary/binary/concat results, ternary, and/or results, filter/function/test results, comprehensions, spreads, "
                 "component calls, nestings of these) x ~170 consumers that can fail on the value with a span-carrying rendering error (either operand of "
                 "every arithmetic and ordering operator, in, negation, subscript base/index, every slice operand, input and kwargs of rejecting filters, "
                 "tests and functions, for/comprehension iterables, spreads, typed component arguments, printing, conditions) x 4 contexts binding the "
                 "names to different kinds x autoescape: render_str must return text or an error value, and Display / Debug / the source chain of the "
                 "error must not panic either. HIST — engines with a history: from an accepted base set (components, inheritance, include), every "
                 "rejection reason (unknown filter/test/function/component/include, missing/self parent, block not in parent, syntax, include cycle, "
                 "duplicate component, a needed component/block removed) x every batch shape (alone, replacing a used template, the component library "
                 "losing/changing/gaining components, a new library, repeated names in one batch, parent replaced), also repeated after a good update, "
                 "plus random histories; after EVERY add (accepted or rejected) every template, block and component is rendered through render, render_to, "
                 "render_block, render_component, render_str and get_component_definition, in a child process with call markers: a panic or a process "
                 "death is a violation with the history as replay. UNK — 570+ (reference kind x syntactic site) "
                 "templates with a name nobody registered must be rejected by add_raw_templates and render_str; an accepted one must not fail at "
                 "render time with a not-registered/not-found error or a panic.",
    "trusted_base": TB_COMMON + [
        "axioms: none",
        "hooks H2 (tera::verif::chunk_listings, template_listing, component_listings) report the chunks the real compiler/optimizer/finalizer "
        "produce; hook H1 (assert_state_clean under --cfg tera_verif) observes the three stacks after every successful interpret",
        "Model/VM.v (the hand port of vm/interpreter.rs interpret(), tied to the code by the C03 `vm` correspondence) is what the soundness "
        "theorem is about: ErrPanic marks every `expect`/`unwrap`/`unreachable!`/table index of interpret(); panics inside std or inside "
        "filters/tests/functions (e.g. D2: sort) are outside the model and are covered by the H1 oracle only",
        "the name lists FILTERS/TESTS/FUNCTIONS of harness/src/bin/c07.rs are confirmed against the engine on every run (each name accepted, "
        "fresh names rejected)",
    ],
    "modelled": ["NOT MODELLED: the VM's span bookkeeping (SpanRange per stack slot, combine_spans, Chunk::expand_span, the `expect(\"to have a span for error\")` "
                 "of rendering_error!) — Model/VM.v has error classes only; `spans_present` of DESIGN §6 is not stated. That every reachable error site finds a "
                 "span is covered by the EPM oracle only",
                 "NOT MODELLED: the registry history (add/replace/rollback in Tera::add_raw_templates / finalize_templates); world_checked is about one "
                 "finalized world. Rendering after rejected and accepted updates is covered by the HIST oracle (and by C10's atomicity model)",
                 "vm/interpreter.rs interpret(): per-instruction effect on State.stack / for_loops / capture_buffers (Model/VM.v, abstracted by Model/StackCheck.v astep)",
                 "vm/interpreter.rs Break: jump to ForLoop.end_ip, resolved statically to the enclosing Iterate target",
                 "value/mod.rs Value::format / format_map, utils.rs escape_html (Model/VFormat.v) at scalar level; float printing and lossy Bytes display are not modelled"],
    "assumptions": [
        "world_respects: a name listed in the registry record is never `not registered` for the model's lookup functions (the record is the engine's registry, confirmed by probing)",
        "format_is_utf8 is a code-point level statement about the model of Value::format; the byte level (UTF-8 encoding of each scalar) is Rust's String invariant",
        "compile_always_checks (C07_compile_always_checks, C07_compiled_code_sound) is proved for the whole language of the shared compiler "
        "port Model/Compile.v (tied to the real compiler by C03's `compile` family, incl. the extended expression forms): statements text, print, "
        "if/elif/else, for/else, set, set_global, set blocks, filter sections, include, break, continue; expressions constants, variables, loop.*, "
        "attributes and subscripts (plain and optional), slices, not/and/or, every binary operator, unary minus, ternary, tests, filters and function "
        "calls with kwargs, array and map literals with spreads. Only hypothesis: brk_body (break/continue only inside a for body and not across a "
        "capture: what the parser enforces; implied by C03's wf_body, C07_compile_always_checks_wf); the statement is `exists tbl, check_table "
        "(compile ss) a_empty tbl = true` (any accepted table is sound: C07_table_sound), not that the `infer` heuristic finds it. The former local-port "
        "theorem C07_compile_always_checks_partial is subsumed and removed. Constructs Model/Compile.v lacks (list comprehensions, component calls, "
        "blocks/inheritance) are validated per real chunk, every run. Stability of the validator under Chunk::optimize is not proved; both the "
        "before- and after-optimisation listing of every real chunk are validated instead",
    ],
}

MANIFEST = (
    "Rocq proof: verified bytecode validator (abstract interpretation of value/loop/capture stacks + reference resolution) with a soundness theorem over "
    "the concrete VM model for a whole validated world; translation validation of every real chunk before/after optimisation; H1 stack assertions and "
    "every-kind-at-every-position render matrix; unknown-name x site enumeration",
    "Theorems: in a world whose chunks all pass check_chunk and refs_resolved (decidable; evaluated on the real chunks every run) no run of the VM model "
    "(whole template, block, component; any context, writer, nesting of include/component/block/super, any fuel) reaches a panic site of interpret() "
    "or TemplateNotFound, and normal termination leaves the three stacks as on entry (empty at the entry points); get_item/slice never index out of "
    "bounds for any length/operand; Value::format and escape_html only emit input scalars or ASCII; for every well-formed statement list of the shared compiler port "
    "Model/Compile.v the compiled chunk has an accepted table (compile_always_checks), hence compiled code of that language never underflows and ends "
    "balanced (closed theorem about the compiler model; the port covers every expression form except comprehensions and component calls, listing-checked against the real compiler). Partial by nature: panics inside std / built-ins "
    "and native stack exhaustion are observed (catch_unwind over ~400k renders per quick run), not proved.",
    "§6 C07",
)
