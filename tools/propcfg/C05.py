from props import TB_COMMON

HDR5 = "From TeraV Require Import Model.Value Model.Instr Model.Component Gen.TypeTables Corr.CorrC05."
CFG = {
    "bin": "c05",
    "corr": ["CorrC05"],
    "families": {
        "bind": {"header": HDR5, "model_fn": "model_bind", "rule": "F"},
        "iso": {"header": HDR5, "model_fn": "model_iso", "rule": "F"},
        "prio": {"header": HDR5, "model_fn": "model_prio", "rule": "F"},
        "depth": {"header": HDR5, "model_fn": "model_depth", "rule": "F"},
        "apieq": {"header": HDR5, "model_fn": "model_apieq", "rule": "F"},
        "shape": {"header": HDR5, "model_fn": "model_shape", "rule": "F"},
    },
    "rule_text": "bind: (signature, attribute list, body, entry point) -> the component body's `__tera_context` (entries by key) or the error class, "
                 "plus the engine's declared-or-inferred parameter types; non-trivial = at least one parameter and one attribute. Exhaustive sub-space: one "
                 "parameter x (undeclared | 8 types) x (no default | 12 literals) x (absent | 16 value kinds) (a third of the supplied values per pair in the quick tier); "
                 "the rest random over 0-3 parameters, rest parameter, undeclared keys incl. `body`/the rest name, spreads (maps with string and non-string keys, non-maps, undefined), "
                 "shorthand and literal attributes, duplicate attributes, body / no body, call site vs render_component, call sites below 1/2/19/20 callers. "
                 "iso: caller states (context, set, loop, loop-set, global, includer set/loop, with shadowing) x probed names in the caller, the component body and a template it includes; "
                 "non-trivial = >= 3 names visible in the caller. prio: prefixes x templates x component names, four registration orders each; every template that defines a name also calls it and is rendered directly and through an include "
                 "(call site inside the defining template, at every priority), and a render_str template with its own definition of each name is rendered (local shadowed by global); non-trivial = a name defined by >= 2 templates under >= 1 prefix. "
                 "depth: nesting paths of calls/includes (distinct components, self-, mutually-, through-include- and body-call-recursive programs, both entry points); non-trivial = 18..23 calls. "
                 "apieq: same arguments through render_component and through a call site (one-off and registered caller, both escaping modes); non-trivial = arguments supplied and accepted. "
                 "shape: every compiled chunk (after fusion) of corpus and generated callers that contains a component call; non-trivial = has a body call. "
                 "Oracles (implementation only): caller-only names undefined in the callee; `{% <wrap> %}B{% </wrap> %}` renders as B in place and `{{ <show v={e}/> }}` as `{{ e }}` "
                 "(5 contexts x both escaping modes); registration-order independence; 12 unbounded-recursion programs in a child process end with an error value.",
    "trusted_base": TB_COMMON + [
        "axioms: none (every C05 theorem is 'Closed under the global context')",
        "tools/gen/types.py: transcribes enum Type, the arms of Type::matches_value / Type::from_value / Type::from_str and the Value::is_* predicates they call into coq/Gen/TypeTables.v",
        "hook H2 (tera::verif::chunk_listings) reports the chunks the real compiler produces (shape family only)",
        "modelled, not verified: HashMap/BTreeMap as association lists (theorems are about lookups, so hold for every iteration order); Key equality on string keys; "
        "the VM semantics of Capture/EndCapture and of safe strings (render-level oracle only); native stack use of nested interpret calls (child-process oracle)",
    ],
    "modelled": ["parsing/ast.rs Type::matches_value, Type::from_value (generated), ComponentArgument::type_matches, ComponentDefinition::build_context",
                 "parsing/parser.rs parse_component_definition: declared-or-inferred parameter type",
                 "vm/interpreter.rs component! macro (incl. the lookup order: global table first, the VM template's own components as fallback), BuildMap/BuildMapWithSpreads (attribute map), render_component (depth check, fresh state), render_include (depth carried)",
                 "vm/state.rs State::new, get_value, dump_context",
                 "tera.rs finalize_templates component table (priority, duplicates), get_template_priority, render_component_to"],
    "assumptions": ["definitions are well-formed as the parser guarantees (distinct parameter names, `body` reserved, rest name distinct from parameters): wf_def",
                    "implementation == model only on the cases enumerated by the harness",
                    "body-in-caller-scope / result-not-re-escaped: instruction shape proved about the decidable check, behaviour observed by the render-level oracle, not proved over a VM model",
                    "the component rendered through the API runs at recursion counter 0, so one more component frame can be live than from a template (stated in C05_depth_bounded)"],
}

MANIFEST = (
    "Rocq proof: ported build_context = documented binding rule (accept iff, exact domain), isolation of the fresh state, priority table (order-independent), depth counter as a transition system, API = call site; generated type tables; correspondence run on real calls",
    "Theorems over the Gallina port of ComponentDefinition::build_context, State::get_value, the priority loop of finalize_templates and the recursion counter prove, for every signature, "
    "argument map, definition list (every order) and call/include/return sequence, that a call is accepted exactly under the documented conditions, that the callee context has exactly the "
    "stated domain and values, that the callee state resolves nothing else, that the kept definition is the unique best-priority one independently of the visiting order, that live calls never "
    "exceed the limit and the next call is an error, and that render_component builds the same frame as a call site (differences stated). The arms of Type::matches_value/from_value are re-extracted "
    "from the Rust source on every run; the ports are tied to the code by running real component calls (product space of signatures x attributes x body x entry point), isolation probes, "
    "fallback-prefix configurations, recursion shapes (child process for unbounded ones) and API-vs-call-site renders inside coqc. A universal theorem is the right level because the binding rule is a "
    "product space and the depth bound must hold for every call cycle; snapshots fix one point each.",
    "§6 C05",
)
