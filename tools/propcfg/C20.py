from props import TB_COMMON

_H = "From TeraV Require Import Model.Value Model.Codec Spec.Codec Corr.CorrC20."

CFG = {
    "bin": "c20",
    "corr": ["CorrC20"],
    "families": {
        "enc": {"header": _H, "model_fn": "model_enc", "rule": "F"},
        "encrl": {"header": _H, "model_fn": "model_encrl", "rule": "F"},
        "dec": {"header": _H, "model_fn": "model_dec", "rule": "F"},
        "json": {"header": _H, "model_fn": "model_json", "rule": "F"},
        "jsontext": {"header": _H, "model_fn": "model_jsontext", "rule": "O"},
        "slug": {"header": _H, "model_fn": "model_slug", "rule": "F"},
    },
    "exhaustive_when": "exhaustive_le2_in_model",
    "rule_text": "cases = one string through b64_encode x 4 engine selections, each text back through b64_decode, urlencode and "
                 "urlencode_strict (enc; encrl = the same on long strings, input and all implementation texts printed in run-length "
                 "form and expanded in Coq, so the comparison is still element by element); (url_safe, text) through b64_decode (dec); "
                 "(value, pretty) through json_encode compared as "
                 "data (json) and byte for byte with map entries in the map's own iteration order (jsontext); a string through slug with "
                 "deunicode_char tabulated per case (slug); distinct by the Gallina term of the case. Non-trivial = a non-empty string "
                 "with a character outside [A-Za-z0-9._~/-] (enc); at least 3 bytes (encrl); a non-empty text that is not the canonical padded encoding of its own "
                 "decoding, i.e. every error and every unpadded / partly padded text (dec); a non-empty container or bytes value, a "
                 "string needing an escape, a float, or an integer outside the i64 range (json, jsontext); an input with at least one "
                 "[a-z0-9] character and at least one other character (slug). Exhaustive sub-spaces: every valid UTF-8 string of at most "
                 "two bytes (18433 strings) - in the thorough tier all of them are evaluated by the model, in the quick tier all of them "
                 "by the implementation-side oracles (reference RFC 4648 decoder, strict percent-decoder, alphabet and canonical-length checks) and a seeded "
                 "sample by the model; '%' followed by every pair of ASCII bytes (16384 strings, oracle side, every run). Length classes: "
                 "every byte length 0..520 and k*B-4..k*B+4 for B in {3,4,57,64,76,1024,4096,8192,65536}, k = 1..8 (up to 270 KB) plus 100-260 KB "
                 "inputs, ASCII and 1-4-byte characters, all four engine/padding options, through the oracles on every run; k*B-3..k*B+3 for "
                 "k in {1,2} (quick) / {1,2,3,5} (thorough) also through the model. '%'-classes: '%' followed by 0, 1, 2 hex digits of "
                 "either case, '%%', already-encoded text, and the filters' own output fed back in (double encoding). The rest hand-picked "
                 "boundary strings and seeded random Unicode strings / values.",
    "trusted_base": TB_COMMON + [
        "axioms: none (every C20 theorem is 'Closed under the global context')",
        "tools/gen/codec.py (T-gen): the AsciiSet chains of urlencode.rs (flattened to base set + add/remove list) and which set each "
        "filter passes to percent_encode; the (url_safe, padded) => ENGINE arms and kwarg defaults of b64_encode; the two decoder "
        "engines (alphabet, DecodePaddingMode, allow_trailing_bits) and their selection in b64_decode; the pretty => "
        "to_string_pretty/to_string selection of json_encode. The crate constants they name (CONTROLS, NON_ALPHANUMERIC, STANDARD..., "
        "alphabet::STANDARD/URL_SAFE) are modelled in Model/Codec.v, not extracted",
        "modelled, not verified: crates base64 0.22.1 (GeneralPurpose engines, DecodePaddingMode::Indifferent), percent-encoding 2.3.2 "
        "(AsciiSet, percent_encode), serde_json 1.0.149 (compact and pretty writers, map-key serializer, string escaping, itoa), "
        "slug 0.1.6 (_slugify): ported by hand from their sources and tied to the code only by the correspondence run",
        "the reference JSON reader, strict percent-decoder, character classes and `canon` of Spec/Codec.v are the specification the "
        "theorems are stated against: they are trusted to say what RFC 8259 / RFC 3986 / RFC 4648 say (the reader accepts exactly the RFC "
        "8259 grammar with insignificant whitespace; it does not re-validate UTF-8 inside strings)",
        "oracles, not modelled: serde_json's float text (zmij/ryu shortest representation) - the theorem C20_json_roundtrip takes it as a "
        "function ft under the hypothesis floats_ok (a JSON number token, not an integer token, whose exact decimal value lies in the "
        "round-to-nearest-even interval of the float); the correspondence run supplies the implementation's texts per case and Coq checks "
        "that hypothesis on every one of them by exact integer arithmetic; deunicode::deunicode_char 1.6.2 - supplied per case as a table (only its ASCII-ness matters to the property)",
        "harness-side references written independently of the model: RFC 4648 decoder with lenient padding, strict percent-decoder, "
        "strict RFC 8259 reader keeping number tokens as text; serde_json's own reader is used for validity only (its float reader is "
        "not correctly rounded without the float_roundtrip feature, so floats are compared within 4 ulps on that path)",
    ],
    "modelled": ["tera-contrib/src/base64.rs b64_encode, b64_decode (engine tables re-extracted by T-gen)",
                 "tera-contrib/src/urlencode.rs urlencode, urlencode_strict (AsciiSet chains re-extracted by T-gen)",
                 "tera-contrib/src/json.rs json_encode + tera/src/value/mod.rs impl Serialize for Value + value/key.rs impl Serialize for Key",
                 "tera-contrib/src/slug.rs slug"],
    "assumptions": ["implementation == model only on the cases enumerated by the harness",
                    "json: maps whose keys collide after stringification (e.g. 1 and \"1\") are outside the property "
                    "(known finding json:map-keys-collide-after-stringify); non-finite floats serialise as null and are excluded from losslessness",
                    "json: float text is taken from serde_json (oracle) and only checked to round to the float",
                    "slug: deunicode_char is taken from the crate (oracle) per case",
                    "strings are lists of Unicode scalar values in the model; UTF-8 encoding is modelled in Model/Utf8.v"],
}

# (technique, level text, design ref)
MANIFEST = (
    "Rocq proof: base64 (4 engines) and percent-encoding round-trip and stay inside their alphabets for all strings, the decoder accepts "
    "only canonical encodings; the JSON writer's output (compact and pretty) is read back by an RFC 8259 reference reader as the same "
    "data for all value trees (float text an oracle under a checked hypothesis); slug output shape for any transliteration; "
    "correspondence run + independent reference decoders tie the models to tera-contrib",
    "Theorems (Props/C20.v, all closed under the global context) are stated over Gallina ports of the tera-contrib filters and of the "
    "crate routines they call (base64 GeneralPurpose engines incl. decode_suffix, percent_encode over the AsciiSet chains, serde_json's "
    "compact/pretty serializer over Value's Serialize impl, slug::_slugify), for every string / every value tree: b64 round trip at "
    "filter and byte level, alphabet + padding shape, decoder soundness (accepted text = canonical unpadded encoding + '='*), foreign "
    "character / length 1 mod 4 => error, percent round trip + exact unescaped sets read off the generated tables by a 128-byte sweep, "
    "JSON read(write v) = canon v with a fuelled reference reader, object lookup faithful iff stringified keys distinct (refuted "
    "otherwise: known finding), slug alphabet/hyphen law by a fold invariant, UTF-8 round trip. The ports are tied to the Rust code by "
    "running both on the same generated cases inside coqc (all valid UTF-8 strings of at most two bytes exhaustively in the thorough "
    "tier, boundary pools, seeded random Unicode strings up to 2000 chars and nested values of every kind) and the real filters are "
    "additionally checked against independent Rust reference decoders on every case. A universal theorem is the right level because the "
    "property quantifies over all strings and values; the third-party crates are modelled, not verified.",
    "§6 C20",
)
