from props import TB_COMMON

HDRVM = "From TeraV Require Import Model.Value Model.Instr Model.VM Corr.CorrVM."
HDRST = "From TeraV Require Import Model.Value Model.Instr Model.VM Spec.Stmt Corr.CorrC03."
HDRVM1 = "From TeraV Require Import Model.Value Model.Instr Model.VM Corr.CorrVM1."
CFG = {
    "bin": "c03",
    "corr": ["CorrVM", "CorrC03", "CorrVM1"],
    "extra_bins": ["vm1"],
    "families": {
        "vm": {"header": HDRVM, "model_fn": "model_vm", "rule": "F"},
        "compile": {"header": HDRST, "model_fn": "model_compile", "rule": "F"},
        "ref": {"header": HDRST, "model_fn": "model_ref", "rule": "F"},
        "vm1": {"header": HDRVM1, "model_fn": "model_vm1", "rule": "F"},
    },
    "rule_text": "vm: one case per (finalized template or template set, entry template, optional block, context): the REAL chunks and block "
                 "lineage (hook tera::verif::template_listing) are run on Model/VM.v and the output text / error class compared with "
                 "tera.render / render_block. Templates: hand-written control-flow/scoping corpus, grammar-generated statement trees "
                 "(if/elif/else, for over arrays/strings/maps with else, break/continue, set/set_global/set-blocks/filter sections), "
                 "generated base/mid/child/include sets; 9 contexts; .html and .txt names (autoescape on/off). Non-trivial = renders "
                 "to more than 2 characters from a chunk of >= 6 instructions. Cases using built-ins outside Model/World0.v are skipped "
                 "and counted. "
                 "compile: one case per generated template body (statement trees of Spec/Stmt.v printed as template source): "
                 "Model/Compile.v `compile` vs the REAL compiler's listing BEFORE Chunk::optimize (hook tera::verif::chunk_listings), "
                 "instruction by instruction incl. every back-patched jump target; non-trivial = >= 2 jump instructions. Besides the libraries shared "
                 "with `ref`, 160 (quick) / 700 (thorough) extra bodies whose expressions use the EXTENDED forms of the port (tags x:*): arithmetic "
                 "+ - * / // % **, comparisons < <= > >= !=, `~`, `in` / `not in`, unary minus, the ternary, subscripts and slices (every combination "
                 "of absent operands, plain and optional `?[`), optional attributes `?.`, function calls with 0/1 keyword argument, array and map "
                 "literals with spreads and bool/int/string keys (never literal-only: the parser folds those to constants); these are compared as "
                 "listings only (World0 has no arithmetic, so they are not in `ref`); non-trivial there additionally requires an extended form. "
                 "ref: one case per (generated library of 1-3 templates with includes, context, global context via tera.global_context()): "
                 "the reference interpreter Spec/Stmt.v `render` vs tera.render (text; errors as a class), and inside Coq the compiled "
                 "library on Model/VM.v vs the reference interpreter (the statement of compile_correct, evaluated). Generator: mostly bound "
                 "variables with truthy/falsy mixes, v/w shadowed across loop variable/set/set_global/includer/context/global, includes in "
                 "captures in loops, break/continue under if under nested loops, loops over a string with 3- and 4-byte characters, "
                 "single-entry and empty maps, empty arrays (else bodies), loop.*; every 4th library (and 10/60 template sets of the vm family) is an "
                 "include CHAIN of depth 2-4 whose inner templates read loop variables, per-iteration sets (loop.index copies), set and set_global "
                 "variables of includers at EVERY distance, with shadowing at intermediate levels and includes inside filter sections / set blocks "
                 "(vm sets also read __tera_loop_index of the includers directly); non-trivial = renders > 3 characters from >= 5 statements. "
                 "vm1: like vm, in the FULL world Model/World1.v (arithmetic and negation = Model/Number.v; ==, <, in, key lookup, get_attr = "
                 "Model/Order.v; all 36 built-in filters, 17 tests, range/throw = Model/Builtins.v + Model/CollFilters.v; build_context = "
                 "Model/Component.v; Value::format = Model/Format.v with `{:?}` of f64 computed by Model/FloatFmt.v). One case per (template set + "
                 "REAL component table (hooks component_listings, get_component_definition), entry, optional block, context, global context). "
                 "Sources: (a) the engine's snapshot corpus rendering_inputs/{success,errors}/**/*.txt under the context of snapshot_tests/rendering.rs "
                 "(ported statement by statement; templates calling the test's custom filter `read_ctx` are skipped and counted, and re-run with those "
                 "lines removed); (b) 90 hand-written programs covering every operator, filter (with kwargs), test, function, component feature, each "
                 "under 6 contexts (ints of every width incl. i128::MAX/u128::MAX, floats incl. NaN, infinities, -0.0, subnormal, 1e16/1e-5 "
                 "boundaries of the scientific notation, strings with specials/unicode, rows, maps, bytes), .html and .txt; (c) a TYPED grammar generator "
                 "(expressions of static type int/float/str/bool/array/map: + - * / // % ** unary minus, all six comparisons between numbers, strings, "
                 "arrays, mixed; in / not in; string and collection filters with kwargs; tests with arguments; range; ternaries; slices; comprehensions; "
                 "spreads; statements: if/elif/else, for/else over ranges, arrays, rows, strings, maps, break/continue, set/set_global/set blocks, "
                 "filter sections, includes, inheritance with super(), component calls inline and with bodies, nested and recursive); (d) the "
                 "World0-subset generators under contexts with floats. Cells no model covers (f64::powf, str::parse::<f64>, non-ASCII case mapping, "
                 "`{:?}` of unusual characters, ill-formed bytes) are excluded statically and counted (extra.vm1_skipped_outside_world1); the model "
                 "answers them with a class the engine cannot produce, so a leak is a loud mismatch. Non-trivial = renders to more than 2 bytes from "
                 ">= 6 instructions.",
    "trusted_base": TB_COMMON + [
        "axioms: none",
        "Model/VM.v is a hand port of interpret(); Model/World0.v models only default/upper(ASCII)/safe/length, defined/undefined, "
        "==, <, in on ints/strings/bools/containers, no arithmetic, no components: the correspondence is restricted to that subset",
        "HashMap iteration order: the harness prints maps in their real iteration order, the model iterates in list order",
        "vm1: Model/World1.v is glue (name dispatch, kwargs-map -> list, comp_def conversion, attribute-path splitting) over the per-property "
        "models; Model/FloatFmt.v MODELS `{:?}` of f64 by its contract (shortest round-trip digits, closest, scientific outside [1e-4, 1e16)) "
        "and is validated only by this correspondence; the generator's type discipline keeps generated programs off the unmodelled cells, and "
        "iteration over maps built at run time (HashMap order unknown to the model) is only generated behind sort/length or on single-entry maps",
        "compile_correct hypotheses: non-failing appending writer (C18 owns failing writers); kwargs keys are strings; filters do not read "
        "the VM state; trees are what the parser accepts (Compile.wf_stmt: break/continue in a loop and not across a capture, loop.* inside "
        "a for, user variables not named __tera_context/__tera_loop_*); includes point forward in the library list (acyclic, C11). "
        "Expression forms compile_correct covers: constants, variables, loop.*, attributes (plain / optional), not/and/or, all binary operators, "
        "unary minus, ternary, subscripts and slices (plain / optional), tests, filters and function calls with kwargs; the meaning of an operator / subscript / slice "
        "on two values is a parameter of the reference interpreter (builtins b_binop, b_neg, b_subscript, b_slice = what the VM model does for the "
        "instruction; C13/C14/C15 own them): proved are evaluation order, error propagation, short-circuit and single-branch evaluation. "
        "Function calls with kwargs are covered as well (b_function; extra world hypothesis: functions do not read the VM state, true of World0 and World1; "
        "`super()` is excluded by wf_expr). Array and map literals are ported and listing-checked (Model/Compile.v, `compile` family) but EXCLUDED from "
        "compile_correct by wf_expr",
        "the statement-tree printer of the harness (tree -> template source and tree -> Gallina term) is trusted to print the same tree; "
        "the `compile` family would expose a divergence as a listing mismatch",
    ],
    "modelled": ["parsing/compiler.rs compile_node/compile_expr/compile_kwargs/compile_map_entries for the statement language of Spec/Stmt.v (Model/Compile.v): "
                 "every Expression arm except ListComprehension and ComponentCall, every Node arm except blocks/extends/component definitions",
                 "vm/interpreter.rs interpret (all 56 instructions), render_include, render_component (shape), render_to",
                 "vm/state.rs get_value, store_local/global, dump_context; vm/for_loop.rs ForLoop, iterators, loop.*"],
    "assumptions": ["fuel 6000 steps per render in the model (vm family), 20000 (ref family, compiled library on the VM), 30000 (vm1)",
                    "floats and bytes are not generated in the vm/compile/ref families (they are in vm1)"],
    "harness_timeout": 1500,
}

MANIFEST = (
    "Rocq proof: compiler port + VM port refine a documentation-level reference interpreter (compile_correct, all statement trees); four correspondences (VM on real chunks in the toy world and in the full world World1 incl. the engine's snapshot corpus, compiler listings, reference vs engine)",
    "Theorems state the documented scoping order, the loop.* counters for every container and every iteration, and where assignments live, "
    "for all states of the Gallina port of the VM; compile_correct: for every library of statement trees (if/elif/else, for/else over arrays, "
    "strings, maps, break/continue, set/set_global, set blocks, filter sections, includes; any nesting; expressions with every binary operator, "
    "unary minus, ternary, subscripts, slices, optional chaining, tests, filters and function calls with kwargs), every context/global context, the "
    "compiled code (port of compile_node with back-patched targets) run on the VM port yields exactly the reference interpreter's text or both "
    "fail (induction on statements with a code-at-pc invariant, on items for loops, on the library for includes; exact fuel accounting). "
    "Run-level: include_state_is_fresh, nothing_survives_render for every chunk. Partial: capture exactness is proved for compiled bodies, "
    "not arbitrary instruction segments. compile_correct is instantiated at the toy world World0 and at the full world World1 (every delegated "
    "function = the per-property model: Number, Order, CollFilters, Builtins, Component, Format); World1 is proved to agree with World0 on the World0 "
    "subset, and the models it plugs together are proved equal where they port the same Rust function (Key::eq/cmp, Map::get, get_attr, numeric "
    "==/partial_cmp between C13 and C15, escape_html, the decimal printers). The three ports are validated every run: real finalized chunks on the VM port, real pre-optimisation "
    "listings vs the compiler port, tera.render vs the reference interpreter.",
    "§6 C03",
)
