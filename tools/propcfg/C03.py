from props import TB_COMMON

HDRVM = "From TeraV Require Import Model.Value Model.Instr Model.VM Corr.CorrVM."
HDRST = "From TeraV Require Import Model.Value Model.Instr Model.VM Spec.Stmt Corr.CorrC03."
CFG = {
    "bin": "c03",
    "corr": ["CorrVM", "CorrC03"],
    "families": {
        "vm": {"header": HDRVM, "model_fn": "model_vm", "rule": "F"},
        "compile": {"header": HDRST, "model_fn": "model_compile", "rule": "F"},
        "ref": {"header": HDRST, "model_fn": "model_ref", "rule": "F"},
    },
    "rule_text": "vm: one case per (finalized template or template set, entry template, optional block, context): the REAL chunks and block "
                 "lineage (hook tera::verif::template_listing) are run on Model/VM.v and the output text / error class compared with "
                 "tera.render / render_block. Templates: hand-written control-flow/scoping corpus, grammar-generated statement trees "
                 "(if/elif/else, for over arrays/strings/maps with else, break/continue, set/set_global/set-blocks/filter sections), "
                 "generated base/mid/child/include sets; 9 contexts; .html and .txt names (autoescape on/off). Non-trivial = renders "
                 "to more than 2 characters from a chunk of >= 6 instructions. Cases using built-ins outside Model/World0.v are skipped "
                 "and counted.",
    "trusted_base": TB_COMMON + [
        "axioms: none",
        "Model/VM.v is a hand port of interpret(); Model/World0.v models only default/upper(ASCII)/safe/length, defined/undefined, "
        "==, <, in on ints/strings/bools/containers, no arithmetic, no components: the correspondence is restricted to that subset",
        "HashMap iteration order: the harness prints maps in their real iteration order, the model iterates in list order",
    ],
    "modelled": ["vm/interpreter.rs interpret (all 56 instructions), render_include, render_component (shape), render_to",
                 "vm/state.rs get_value, store_local/global, dump_context; vm/for_loop.rs ForLoop, iterators, loop.*"],
    "assumptions": ["fuel 6000 steps per render in the model", "floats and bytes are not generated"],
    "harness_timeout": 1500,
}

MANIFEST = (
    "Rocq proof over a concrete VM model (scope chain, loop counters, assignment scoping); model tied to the interpreter by running real finalized chunks on it",
    "Theorems state the documented scoping order, the loop.* counters for every container and every iteration, and where assignments live, "
    "for all states of the Gallina port of the VM; the port is validated every run by executing the real compiled chunks (incl. inheritance, "
    "includes, render_block) on it and comparing outputs and error classes with the engine. Partial: the per-construct refinement theorems "
    "(for-loop body once per element, capture exactness, include freshness as run-level lemmas) are being extended.",
    "§6 C03",
)
