from props import TB_COMMON

HDRVM = "From TeraV Require Import Model.Value Model.Instr Model.VM Corr.CorrVM."
HDRST = "From TeraV Require Import Model.Value Model.Instr Model.VM Spec.Stmt Corr.CorrC03."
CFG = {
    "bin": "c03",
    "corr": ["CorrVM", "CorrC03"],
    "families": {
        "vm": {"header": HDRVM, "model_fn": "model_vm", "rule": "F"},
        "compile": {"header": HDRST, "model_fn": "model_compile", "rule": "F"},
        "ref": {"header": HDRST, "model_fn": "model_ref", "rule": "F"},
    },
    "rule_text": "vm: one case per (finalized template or template set, entry template, optional block, context): the REAL chunks and block "
                 "lineage (hook tera::verif::template_listing) are run on Model/VM.v and the output text / error class compared with "
                 "tera.render / render_block. Templates: hand-written control-flow/scoping corpus, grammar-generated statement trees "
                 "(if/elif/else, for over arrays/strings/maps with else, break/continue, set/set_global/set-blocks/filter sections), "
                 "generated base/mid/child/include sets; 9 contexts; .html and .txt names (autoescape on/off). Non-trivial = renders "
                 "to more than 2 characters from a chunk of >= 6 instructions. Cases using built-ins outside Model/World0.v are skipped "
                 "and counted. "
                 "compile: one case per generated template body (statement trees of Spec/Stmt.v printed as template source): "
                 "Model/Compile.v `compile` vs the REAL compiler's listing BEFORE Chunk::optimize (hook tera::verif::chunk_listings), "
                 "instruction by instruction incl. every back-patched jump target; non-trivial = >= 2 jump instructions. "
                 "ref: one case per (generated library of 1-3 templates with includes, context, global context via tera.global_context()): "
                 "the reference interpreter Spec/Stmt.v `render` vs tera.render (text; errors as a class), and inside Coq the compiled "
                 "library on Model/VM.v vs the reference interpreter (the statement of compile_correct, evaluated). Generator: mostly bound "
                 "variables with truthy/falsy mixes, v/w shadowed across loop variable/set/set_global/includer/context/global, includes in "
                 "captures in loops, break/continue under if under nested loops, loops over a string with 3- and 4-byte characters, "
                 "single-entry and empty maps, empty arrays (else bodies), loop.*; every 4th library (and 10/60 template sets of the vm family) is an "
                 "include CHAIN of depth 2-4 whose inner templates read loop variables, per-iteration sets (loop.index copies), set and set_global "
                 "variables of includers at EVERY distance, with shadowing at intermediate levels and includes inside filter sections / set blocks "
                 "(vm sets also read __tera_loop_index of the includers directly); non-trivial = renders > 3 characters from >= 5 statements.",
    "trusted_base": TB_COMMON + [
        "axioms: none",
        "Model/VM.v is a hand port of interpret(); Model/World0.v models only default/upper(ASCII)/safe/length, defined/undefined, "
        "==, <, in on ints/strings/bools/containers, no arithmetic, no components: the correspondence is restricted to that subset",
        "HashMap iteration order: the harness prints maps in their real iteration order, the model iterates in list order",
        "compile_correct hypotheses: non-failing appending writer (C18 owns failing writers); kwargs keys are strings; filters do not read "
        "the VM state; trees are what the parser accepts (Compile.wf_stmt: break/continue in a loop and not across a capture, loop.* inside "
        "a for, user variables not named __tera_context/__tera_loop_*); includes point forward in the library list (acyclic, C11)",
        "the statement-tree printer of the harness (tree -> template source and tree -> Gallina term) is trusted to print the same tree; "
        "the `compile` family would expose a divergence as a listing mismatch",
    ],
    "modelled": ["parsing/compiler.rs compile_node/compile_expr/compile_kwargs for the statement language of Spec/Stmt.v (Model/Compile.v)",
                 "vm/interpreter.rs interpret (all 56 instructions), render_include, render_component (shape), render_to",
                 "vm/state.rs get_value, store_local/global, dump_context; vm/for_loop.rs ForLoop, iterators, loop.*"],
    "assumptions": ["fuel 6000 steps per render in the model (vm family), 20000 (ref family, compiled library on the VM)", "floats and bytes are not generated"],
    "harness_timeout": 1500,
}

MANIFEST = (
    "Rocq proof: compiler port + VM port refine a documentation-level reference interpreter (compile_correct, all statement trees); three correspondences (VM on real chunks, compiler listings, reference vs engine)",
    "Theorems state the documented scoping order, the loop.* counters for every container and every iteration, and where assignments live, "
    "for all states of the Gallina port of the VM; compile_correct: for every library of statement trees (if/elif/else, for/else over arrays, "
    "strings, maps, break/continue, set/set_global, set blocks, filter sections, includes; any nesting), every context/global context, the "
    "compiled code (port of compile_node with back-patched targets) run on the VM port yields exactly the reference interpreter's text or both "
    "fail (induction on statements with a code-at-pc invariant, on items for loops, on the library for includes; exact fuel accounting). "
    "Run-level: include_state_is_fresh, nothing_survives_render for every chunk. Partial: capture exactness is proved for compiled bodies, "
    "not arbitrary instruction segments. The three ports are validated every run: real finalized chunks on the VM port, real pre-optimisation "
    "listings vs the compiler port, tera.render vs the reference interpreter.",
    "§6 C03",
)
