from props import TB_COMMON

_H = "From TeraV Require Import Model.Value Model.Registry Corr.CorrC11 Corr.CorrC10."

CFG = {
    "escalate": False,  # thorough generators take far longer than the second-pass budget (DESIGN 15.1)
    "bin": "c11",
    "corr": ["CorrC11", "CorrC10"],
    "harness_timeout": 2400,
    "families": {
        "graph": {"header": _H, "model_fn": "model_graph", "rule": "F"},
        "render": {"header": _H, "model_fn": "model_render", "rule": "O"},
        "history": {"header": _H, "model_fn": "model_history", "rule": "F"},
        "hrender": {"header": _H, "model_fn": "model_hrender", "rule": "O"},
    },
    "rule_text": "graph case = (fallback prefixes, set of (name, source)) with the implementation's accept/reject + ErrorKind; "
                 "render case = the same set with the outcome (texts / error value / abort) of rendering every template in a child "
                 "process. Distinct by the Gallina term; non-trivial = at least two templates and at least one extends/include edge. "
                 "Exhaustive sub-space: every digraph (self-loops included) on <= 3 templates with all edges of one kind "
                 "(extends / include in body / in block / in component body) and every extends-function x include-digraph on <= 2 "
                 "templates; the rest sampled (4-template digraphs, 3-template mixed graphs, random graphs up to 12 nodes, "
                 "fallback-prefix configurations, block nestings across 2-3 inheritance levels, long rings / chains / rings with a tail of 33, 40, 64 and 100 templates through include edges in body / block / component, extends edges, and include-extends alternation; accepted long chains are rendered too). Short names that live under several fallback prefixes and/or exactly (every combination of copies a, p/a, q/a x what each copy does x how it is referred to x both prefix orders, plus random 2-3 prefix configurations) are referred to by extends and every include placement and passed to render()/render_block() directly: what is RENDERED must be the copy the documented rule selects (exact name, then the prefixes in order). Multi-call histories (history / hrender families): the same graphs registered in stages on one long-lived instance -- later batches that contain no include tag, replace an include target, or add an exact name over prefixed ones -- with accept/reject after every call compared with the model run on the whole current set and every template rendered in a child process after every accepted call. When several errors apply the "
                 "comparison is membership in the set of applicable kinds.",
    "trusted_base": TB_COMMON + [
        "axioms: none (every C11 theorem is 'Closed under the global context')",
        "modelled, not verified: HashMap<String,_> as a key-sorted association list; String ordering as lexicographic order of "
        "scalar values; the parser/compiler as the descriptor the harness derives from the same structured template it prints "
        "(main chunk / blocks / components with their Include, RenderBlock, super(), component-call instructions)",
        "native stack exhaustion itself is observed (child process exit status), not modelled: the model proves a recursion-depth bound",
    ],
    "modelled": ["tera.rs resolve_template_name, get_template_priority, finalize_templates (1st loop, include walk, reference "
                 "validation, orphan blocks, both lineage passes), add_raw_templates",
                 "template.rs find_parents, check_include_cycles (with the D10 repair: includes of ancestors are followed), find_block_cycle (D13 repair: a block lineage must not lead back to itself)",
                 "vm/interpreter.rs: which chunk runs for render / Include (root ancestor's chunk, D9 repaired) / RenderBlock / super() / component call, component depth limit"],
    "assumptions": ["implementation == model only on the sets enumerated by the harness",
                    "control flow inside a chunk is abstracted: every instruction of a chunk is taken to run once, in order "
                    "(the termination theorem bounds the recursion depth for ANY subset/repetition of calls)",
                    "templates contain no block inside a component body (rejected by the parser)",
                    "the model describes the code WITH fixes/D10-include-cycle-through-ancestors.patch and fixes/D13-block-nesting-cycle.patch applied; on a tree without them the check reports the D10/D13 inputs as violations"],
}

MANIFEST = (
    "Rocq proof: parent walk and include-cycle DFS accept exactly the acyclic, fully resolved graphs (all finite graphs, all prefix lists); accepted sets have a well-founded render recursion; correspondence run incl. child-process renders",
    "Theorems (Props/C11.v, closed under the global context) prove over ALL finite template graphs that name resolution tries the exact name and then the prefixes in order, that the parent walk returns the root-first chain iff every target resolves and nothing repeats (MissingParent / CircularExtend otherwise, for self loops, long cycles and cycles entered from a tail), that the include walk (explicit stack + visited set, any iteration order) succeeds for every start iff the resolved include relation is acyclic with fuel = number of templates + 1, and that every accepted set renders with a recursion depth bounded by an explicit measure (component depth, include rank, block-graph rank) once the two repairs found on the way are applied (D10: the include walk must follow the includes of a template's parents; D13: a block lineage must not lead back to itself) -- the statement is refuted with witnesses for the pinned code. The Gallina port is tied to the Rust code by building real template sources for exhaustively enumerated and random graphs and comparing accept/reject + ErrorKind and child-process render outcomes inside coqc. A universal theorem is the right level because the property quantifies over all graphs; a miss is unbounded recursion, which tests can only sample.",
    "§6 C11",
)
