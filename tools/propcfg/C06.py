from props import TB_COMMON

HDR6 = "From TeraV Require Import Model.ParseDepth Corr.CorrC06."
CFG = {
    "bin": "c06",
    "corr": ["CorrC06"],
    "harness_timeout": 2400,
    "families": {
        # the property does not fix accept/reject or the AST; the runtime oracle decides
        "skel": {"header": HDR6, "model_fn": "model_skel", "rule": "O"},
    },
    "rule_text": "runtime oracle (the tie for the part a Gallina model cannot exhibit): every input is registered with add_raw_template and "
                 "rendered with render_str in a child process, once on a 2 MiB thread and once on the 8 MiB main thread, 20 s per input; an input without a result is run again ALONE with 20 x the median time of "
                 "its neighbours (10..60 s) before it is a confirmed hang; three confirmed hangs, or the internal deadline (780 s quick / 1800 s thorough, below "
                 "the driver's), end the scheduling and what was observed is written out; "
                 "outcome must be Ok or Err (exit by signal, panic - catch_unwind and panic hook -, or timeout = violation). Streams: hand-written "
                 "corner cases; every prefix and every single-character deletion of every snapshot-corpus template (sampled 1/6 in quick, all in "
                 "thorough) and of 14 base templates; 9 line-ending flavours (LF, CRLF, lone CR, LF CR, U+2028, U+0085, VT, FF, mixed) x 31 sources whose "
                 "registration renders a source report (unknown filter/test/function/component/include, block missing from parent or grandparent "
                 "- registered as a template set -, every syntax-error class) x error on the first/middle/last line x final terminator, with "
                 "breaks before and inside tags, strings and comments, plus every corpus and hand-written source rewritten in each flavour; "
                 "every Err is formatted with {}, {:?}, {:#?} and along source(); multi-byte characters next to every delimiter; 26 nesting constructs at 1..7, 19..21, 34..44, "
                 "80, 100, 1000, 10^5, everything-at-its-limit recipes, elif chains nested in the last elif / else branch of one another "
                 "(2..38 chains of 100..500 elifs); 27 chain constructs at 10..10^5; 400-digit numbers; unterminated strings/comments/raw/tags of 100 KB; "
                 "every character prefix of every delimiter (and the delimiter, repeated) as the last bytes of a source, alone / after text / after a tag / "
                 "after a comment / after a raw block, for the 14 accepted delimiter sets; 25 delimiter sets (14 accepted incl. 2-byte characters, `-`, quotes, whitespace; 11 rejected must return Err) x base templates "
                 "x prefixes; 16 template names x 7 sources; random splices of corpus templates. Evaluations = inputs x 2 stacks; non-trivial = "
                 "source of at least 8 bytes. skel: token lists of the skeleton grammar (generated documents, truncations, inside-token mutations, "
                 "every nesting construct around its limit, chains) printed as template text: accept/reject, Display parenthesis depth and "
                 "statement nesting depth of the real parser vs Model.ParseDepth.parse; distinct by token list; non-trivial = at least 8 tokens.",
    "trusted_base": TB_COMMON + [
        "axioms: none",
        "the child-process runner of harness/src/bin/c06.rs (start/done markers attribute a dead child to one input; watchdog thread for hangs)",
        "native stack usage is NOT modelled: the ghost counter `native` counts modelled Rust function entries; frame sizes, the recursion of "
        "compile_expr/compile_node/Drop/Clone on the AST and everything inside the lexer are observed through the runtime oracle only",
        "hooks H3 (tera::verif::parse_expr_display, parse_debug) report what the real parser built",
    ],
    "modelled": ["parsing/parser.rs: inner_parse_expression, parse_expression, parse_expr_bp, parse_ident, parse_subscript, parse_kwargs, "
                 "parse_filter/parse_test, parse_map, parse_array, parse_list_comprehension, parse_until, parse_until_inner, parse_tag "
                 "(set, block, for, if, filter, break/continue), parse_for_loop, parse_if, parse_set; counters recursion_depth, array_dimension, "
                 "num_left_brackets (+ expr_height, elif_depth of the D11 repair), body_contexts, blocks_seen",
                 "not in the skeleton alphabet: components, include/extends, `?.`/`?[`, the `loop.` rewrite, literal values, spans, messages",
                 "lexer: not modelled here; Props/C06.v cites C08 (termination and in-bounds ranges of the byte-level model of all of "
                 "basic_tokenize) and C12 (advance! is total exactly on character boundaries); that the computed offsets are boundaries "
                 "is not proved anywhere and stays with the runtime oracle (multi-byte streams, 2-byte-character delimiters)"],
    "assumptions": ["implementation == model only on the token lists enumerated by the harness",
                    "stack safety holds for the explored inputs on 2 MiB and 8 MiB stacks in the release build of the harness; "
                    "thresholds measured for debug builds are in the C06 notes of the report"],
}

MANIFEST = (
    "Rocq proof: native-depth and AST-depth bounds for a skeleton model of the recursive-descent parser with ghost call-depth counter; "
    "child-process runtime oracle (no panic / abort / hang) over corpus mutations, nesting and chain generators, delimiter and name pools",
    "Partial by nature: stack exhaustion and panics are runtime behaviour. Proved (Props/C06.v, closed under the global context) over the "
    "Gallina skeleton of parser.rs, for every token list: the native call depth of the parser is at most 7*MAX_RECURSION_DEPTH + "
    "MAX_ELIF_DEPTH + 7 whatever the outcome; the AST of every accepted input is at most MAX_EXPRESSION_DEPTH + 2*MAX_RECURSION_DEPTH + "
    "MAX_ELIF_DEPTH + 2 deep, independent of the input length; nesting beyond each limit is the error outcome; the fusion pass never "
    "indexes out of bounds. For the tree before the D11 repair both bounds are refuted by explicit chains (witness lemmas). The model is "
    "tied to the code by comparing accept/reject and the observed AST depths on generated token lists, and the two new limits are "
    "re-extracted from parser.rs on every run; the runtime part is observed directly: every input registered in a child process on a "
    "2 MiB and an 8 MiB stack with a time limit.",
    "§6 C06",
)
