from props import TB_COMMON

HDR6 = "From TeraV Require Import Model.ParseDepth Corr.CorrC06."
HDR6L = "From TeraV Require Import Model.Value Model.Lexer Corr.CorrC06Lex."
CFG = {
    "escalate": False,  # thorough generators take far longer than the second-pass budget (DESIGN 15.1)
    "bin": "c06",
    "corr": ["CorrC06", "CorrC06Lex"],
    "harness_timeout": 2400,
    "families": {
        # the property does not fix accept/reject or the AST; the runtime oracle decides
        "skel": {"header": HDR6, "model_fn": "model_skel", "rule": "O"},
        # where the lexer cuts: token byte ranges are not fixed by the property either; a disagreement means the
        # slicing model does not describe the lexer (the in-process oracle - no panic, ranges on boundaries - already ran)
        "slices": {"header": HDR6L, "model_fn": "model_slices", "rule": "O"},
    },
    "rule_text": "runtime oracle (the tie for the part a Gallina model cannot exhibit): every input is registered with add_raw_template and "
                 "rendered with render_str in a child process, once on a 2 MiB thread and once on the 8 MiB main thread, 20 s per input; an input without a result is run again ALONE with 20 x the median time of "
                 "its neighbours (10..60 s) before it is a confirmed hang; three confirmed hangs, or the internal deadline (780 s quick / 1800 s thorough, below "
                 "the driver's), end the scheduling and what was observed is written out; "
                 "outcome must be Ok or Err (exit by signal, panic - catch_unwind and panic hook -, or timeout = violation). Streams: hand-written "
                 "corner cases; every prefix and every single-character deletion of every snapshot-corpus template (sampled 1/6 in quick, all in "
                 "thorough) and of 14 base templates; 9 line-ending flavours (LF, CRLF, lone CR, LF CR, U+2028, U+0085, VT, FF, mixed) x 31 sources whose "
                 "registration renders a source report (unknown filter/test/function/component/include, block missing from parent or grandparent "
                 "- registered as a template set -, every syntax-error class) x error on the first/middle/last line x final terminator, with "
                 "breaks before and inside tags, strings and comments, plus every corpus and hand-written source rewritten in each flavour; "
                 "every Err is formatted with {}, {:?}, {:#?} and along source(); multi-byte characters next to every delimiter; 26 nesting constructs at 1..7, 19..21, 34..44, "
                 "80, 100, 1000, 10^5, everything-at-its-limit recipes, elif chains nested in the last elif / else branch of one another "
                 "(2..38 chains of 100..500 elifs); 27 chain constructs at 10..10^5; 400-digit numbers; unterminated strings/comments/raw/tags of 100 KB; "
                 "every character prefix of every delimiter (and the delimiter, repeated) as the last bytes of a source, alone / after text / after a tag / "
                 "after a comment / after a raw block, for the 14 accepted delimiter sets; 25 delimiter sets (14 accepted incl. 2-byte characters, `-`, quotes, whitespace; 11 rejected must return Err) x base templates "
                 "x prefixes; 16 template names x 7 sources; random splices of corpus templates. Evaluations = inputs x 2 stacks; non-trivial = "
                 "source of at least 8 bytes. skel: token lists of the skeleton grammar (generated documents, truncations, inside-token mutations, "
                 "every nesting construct around its limit, chains) printed as template text: accept/reject, Display parenthesis depth and "
                 "statement nesting depth of the real parser vs Model.ParseDepth.parse; distinct by token list; non-trivial = at least 8 tokens. "
                 "slices: (delimiter set, source) lexed in-process with tera::verif::lex(src, delimiters, false) under catch_unwind (a panic or a "
                 "token range off a character boundary is an oracle failure); the case carries the token byte ranges or the error class; the "
                 "checker (Corr/CorrC06Lex.v) requires that the model's ranges (Lexer.lex_spanned) equal them, that every start and end of a "
                 "real token is 0 or one of the model's slicing offsets (LexerSlices.slice_offsets), and that every slicing offset - also of a "
                 "run that ends in Err - is a character boundary of that source. Sources, for each of 15 accepted delimiter sets (the 13 of the "
                 "oracle pool + 2; 4 of them contain 2-byte-character delimiters, one mixes them with ASCII ones and reuses the text characters): every kind of lexer step spelled in those delimiters (11 texts; 28 "
                 "expressions x 4 marker/whitespace spellings incl. multi-byte string contents, escapes before multi-byte characters, "
                 "unterminated strings, out-of-range integers, non-ASCII identifiers; 10 tags; 9 raw bodies x 5 spellings incl. unclosed and "
                 "fake `{% `; 7 comment bodies x 4 incl. unclosed) with one of 5 multi-byte characters (2, 3, 4 bytes, NBSP, a combining mark) "
                 "directly before and after it (all in thorough, a seeded sample in quick); random documents of 1..5 such items with "
                 "multi-byte characters in between; every character prefix of some of them; distinct by case term; non-trivial = the source "
                 "has a multi-byte character and the run is an error or has at least 3 tokens.",
    "trusted_base": TB_COMMON + [
        "axioms: none",
        "the child-process runner of harness/src/bin/c06.rs (start/done markers attribute a dead child to one input; watchdog thread for hangs)",
        "native stack usage is NOT modelled: the ghost counter `native` counts modelled Rust function entries; frame sizes, the recursion of "
        "compile_expr/compile_node/Drop/Clone on the AST are observed through the runtime oracle only",
        "the six delimiter strings are valid UTF-8 (hypothesis LexerSlices.delims_utf8 of the boundary theorem): type invariant of the Rust "
        "`Cow<'static, str>` fields of `Delimiters`; the model's delimiters are byte lists (C06_boundary_needs_utf8_delimiters shows the "
        "hypothesis is used)",
        "modelled, not verified: core::str::is_char_boundary / split_at / Index<Range> / get (Model/Report.v: panic or None exactly off a "
        "character boundary or out of range); strip_prefix, trim_start, trim_end, parse::<f64> cannot cut a str off a boundary (std)",
        "which expressions of lexer.rs slice the input is read off the source by hand (list in the header of Model/LexerSlices.v); "
        "tools/source_fingerprint.json re-opens the thorough generators when lexer.rs changes",
        "hooks H3 (tera::verif::parse_expr_display, parse_debug) report what the real parser built",
    ],
    "modelled": ["parsing/parser.rs: inner_parse_expression, parse_expression, parse_expr_bp, parse_ident, parse_subscript, parse_kwargs, "
                 "parse_filter/parse_test, parse_map, parse_array, parse_list_comprehension, parse_until, parse_until_inner, parse_tag "
                 "(set, block, for, if, filter, break/continue), parse_for_loop, parse_if, parse_set; counters recursion_depth, array_dimension, "
                 "num_left_brackets (+ expr_height, elif_depth of the D11 repair), body_contexts, blocks_seen",
                 "not in the skeleton alphabet: components, include/extends, `?.`/`?[`, the `loop.` rewrite, literal values, spans, messages",
                 "parsing/lexer.rs basic_tokenize: every slicing site (each advance!(n), &s[1..s.len()-1] of lex_string!, "
                 "&rest.as_bytes()[offset..], &rest[offset..], &rest[body_start..body_end] of the raw loop; rest.get(a..a+2) as the checked "
                 "slice) as absolute offsets next to the C08 token model (Model/LexerSlices.v); Props/C06.v cites C08 (termination, in-bounds "
                 "ranges) and C12 (advance! total exactly on character boundaries) and proves that every slicing offset is a character "
                 "boundary for valid UTF-8 sources and delimiters (Proofs/LexerBoundary.v)",
                 "delimiters.rs: validate (2 bytes each, distinct starts) + the str type of the fields"],
    "assumptions": ["implementation == model only on the token lists enumerated by the harness",
                    "stack safety holds for the explored inputs on 2 MiB and 8 MiB stacks in the release build of the harness; "
                    "thresholds measured for debug builds are in the C06 notes of the report"],
}

MANIFEST = (
    "Rocq proof: native-depth and AST-depth bounds for a skeleton model of the recursive-descent parser with ghost call-depth counter; "
    "child-process runtime oracle (no panic / abort / hang) over corpus mutations, nesting and chain generators, delimiter and name pools",
    "Partial by nature: stack exhaustion and panics are runtime behaviour. Proved (Props/C06.v, closed under the global context) over the "
    "Gallina skeleton of parser.rs, for every token list: the native call depth of the parser is at most 7*MAX_RECURSION_DEPTH + "
    "MAX_ELIF_DEPTH + 7 whatever the outcome; the AST of every accepted input is at most MAX_EXPRESSION_DEPTH + 2*MAX_RECURSION_DEPTH + "
    "MAX_ELIF_DEPTH + 2 deep, independent of the input length; nesting beyond each limit is the error outcome; the fusion pass never "
    "indexes out of bounds; every offset at which the lexer slices its input is a character boundary, for every accepted (valid UTF-8, "
    "2-byte) delimiter set and every valid UTF-8 source, so no advance!/index expression of the lexer panics (UTF-8 self-synchronisation; "
    "byte-level model of all slicing sites tied to the code by token ranges on multi-byte sources). For the tree before the D11 repair both bounds are refuted by explicit chains (witness lemmas). The model is "
    "tied to the code by comparing accept/reject and the observed AST depths on generated token lists, and the two new limits are "
    "re-extracted from parser.rs on every run; the runtime part is observed directly: every input registered in a child process on a "
    "2 MiB and an 8 MiB stack with a time limit.",
    "§6 C06",
)
