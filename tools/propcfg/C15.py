from props import TB_COMMON, HDR

CFG = {
    "bin": "c15",
    "corr": ["CorrC15"],
    "families": {
        "api": {"header": HDR("CorrC15"), "model_fn": "model_api", "rule": "F"},
        "pair": {"header": HDR("CorrC15"), "model_fn": "model_pair", "rule": "F"},
        "lookup": {"header": HDR("CorrC15"), "model_fn": "model_lookup", "rule": "F"},
        "member": {"header": HDR("CorrC15"), "model_fn": "model_member", "rule": "F"},
    },
    "rule_text": "cases = (a, b) with the implementation's ==, partial_cmp, cmp (api) plus the rendered `==`, `<`, `[a,b]|unique`, `[a,b]|sort` (pair); "
                 "(map, key) with m[k], `k in m`, containing, get, get+default, m.k (lookup); (container, needle) (member). Distinct by the Gallina term. "
                 "Non-trivial = different pool entries of which one is an array/map or whose kinds differ (api, pair); a non-empty map and an operand "
                 "that can be a key (lookup); a container of >= 2 elements (member). Base pool: ~140 values of every kind, each boundary integer in every "
                 "encoding incl. u128 > i128::MAX, NaN/±0/±inf/2^53±1/2^63/2^64/2^127/2^128 floats, safe and normal strings, nested mixed arrays and maps. "
                 "Provenance pool: ~570 values = 23 abstract values (strings of 0..300 bytes on both sides of the 21-byte inline limit, integers, bools, none, arrays, maps, a map "
                 "storing an undefined value) each obtained through every route (Rust constructors, Key->Value owned and borrowed, serde via Context::insert/from_serializable, "
                 "template literals, arithmetic results, filters, loop keys, keys/pairs, set/capture); two routes to the same value must be ==, cmp-Equal, rendered `==` true, "
                 "members of each other's arrays and interchangeable as lookup keys (oracles) and print to the same model term (model comparison). "
                 "Lookup maps store undefined and none values (Rust API and map literals with missing variables) for every key kind and width on both sides of the scan cutoff; "
                 "key presence is decided by an oracle that is independent of the engine's Key Eq/Hash. "
                 "The law oracle (reflexive/symmetric/transitive ==; antisymmetric/transitive cmp; Equal <=> ==; partial_cmp => cmp) is evaluated on the "
                 "implementation's own answers for ALL pairs and ALL triples of base + provenance pool in both tiers; the model is run on a sample of pairs (quick) or all pairs of the base pool "
                 "plus all same-value route pairs (thorough).",
    "trusted_base": TB_COMMON + [
        "axioms: none (every C15 theorem is 'Closed under the global context')",
        "modelled, not verified: std HashMap (an association list in arbitrary order whose keys are pairwise unequal, lookup by Key::eq; theorems hold "
        "for every order), f64 comparison (IEEE-754 = exact comparison of the represented dyadic rationals; `floor`, `as i128`), str comparison "
        "(bytewise on UTF-8 = lexicographic on scalar values), Vec/slice PartialEq/PartialOrd/Ord (lexicographic), the Hasher (only the sequence of "
        "writes is modelled), Vec::sort_by + Ord for (&Key, &Value) tuples used by the repaired cmp",
        "tools/gen/order.py transcribes the two type_order rank tables and ATTR_SCAN_CUTOFF",
    ],
    "modelled": ["value/mod.rs cmp_f64_to_number/i128/u128, PartialEq, PartialOrd, Ord for Value (with fixes/D2-total-order.patch), as_key, contains, get_attr, get_item (map arm)",
                 "value/key.rs PartialEq/Ord/Hash for Key, KeyNumber, type_order",
                 "filters.rs get; tests.rs is_containing; vm/interpreter.rs ordering_binop, LoadAttr, BinarySubscript, In",
                 "value/mod.rs From<Key> for Value / Key::as_value (key_to_value); the inline/heap split of SmartString is below the model: a string value is its text + safe mark"],
    "assumptions": ["values are well formed: integers fit their variant, the keys of one map are pairwise unequal (HashMap invariant)",
                    "implementation == model only on the cases enumerated by the harness",
                    "the model describes Ord for Value as repaired by fixes/D2-total-order.patch; on a tree without that patch the check reports the D2 violations",
                    "float operands of m[k] / `in` are not keys (DESIGN §8): m[1.0] is an error, `1.0 in m` is false"],
    "harness_timeout": 1500,
}

MANIFEST = (
    "Rocq proof: ==, partial_cmp and the repaired Ord::cmp of Value are an equivalence / a total order consistent with == on value trees of any depth; Key Eq/Ord/Hash factor through one normal form; map lookups by all five routes find exactly the stored equal key; correspondence run + law oracle over all pairs and triples tie the model to the code",
    "Theorems (Props/C15.v, closed under the global context) quantify over every well-formed value tree (nested-induction principle for arrays and maps), every float datum incl. NaN, every key in all seven representations and every association list in any order and of any size; the Gallina port of value/mod.rs + key.rs is tied to the Rust code by running both on all pairs of a 140-value pool and on maps of size 0..16, and the algebraic laws are additionally evaluated on the implementation's own answers for all 2.7 M triples. A universal theorem is the right level: the property is a set of algebraic laws over all triples and all map sizes, which pairs in a test file cannot establish.",
    "§6 C15, §7 D2, Appendix A.6",
)
