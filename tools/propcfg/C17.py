from props import TB_COMMON

_HDR = "From Coq Require Import String.\nFrom TeraV Require Import Model.Value Model.Builtins Corr.CorrC17."

CFG = {
    "bin": "c17",
    "corr": ["CorrC17"],
    "harness_timeout": 1500,
    "families": {
        "cell": {"header": _HDR, "model_fn": "model_case", "rule": "F"},
    },
    "exhaustive_when": "matrix_exhaustive",
    "rule_text": "one case = one cell (kind, built-in name, receiver, kwargs) of the matrix: every registered filter/test x 129 receivers "
                 "(all 12 kinds, all integer representations, boundary integers, NaN/inf/-0.0/subnormal, multi-byte / CRLF / sigma strings, "
                 "empty and nested containers, bytes) x kwarg shapes (each documented kwarg absent / boundary values of the right kind in every "
                 "representation / one value of every other kind, the remaining kwargs absent or valid; the product of the valid values; an "
                 "undocumented kwarg), every function x kwarg shapes. The matrix is enumerated completely on the implementation side in both "
                 "tiers (oracle: value or error, never a panic, strings valid UTF-8, every registered name resolves; arithmetic built-ins "
                 "re-run under a debug-profile build and compared; truncate counted in characters, every kind test answered from the kind of the receiver "
                 "alone, length of a string = its characters: checked on every cell). 51 further receivers, one string per UTF-8 lead byte, meet every "
                 "built-in without kwargs and the string built-ins with receiver-specific multi-byte patterns. Model side: outcome class and value; "
                 "both tiers always send the focus cells (the 17 tests on every receiver, i.e. every integer width edge i64::MIN, u64::MAX, i128::MIN/MAX, "
                 "i128::MAX+1 and u128::MAX as u128, +-0.0, NaN, +-inf, subnormals; truncate at every length 0..=chars+2 on every non-ASCII receiver with "
                 "default/empty/multi-byte end marker and lengths between the character and the byte count in every representation; trim*/split/replace/"
                 "starting_with/ending_with/containing/indent/pluralize and the no-kwarg string filters on the lead-byte strings); a pattern sweep of trim/trim_start/trim_end/split/replace/"
                 "starting_with/ending_with/containing over every word of {x,y,h}^<=5 and {CJK x3}^<=3 plus texts with permuted/partial occurrences at their ends x "
                 "multi-character patterns (whole occurrences x0..3, permutations, middle-only, empty, longer than the receiver, receiver = pattern^n): every cell "
                 "against an independent whole-occurrence reference on the implementation, the short words always against the model; quick adds the first cell of "
                 "every (built-in, receiver kind, outcome) and (built-in, kwarg kinds, outcome) stratum and 300 uniformly drawn cells (about 10 000 in all), "
                 "thorough = every stratum plus a uniform draw of the other modelled cells, about 60 000 cells (C17_MODEL_CAP=0: every modelled cell, about 170 000). distinct = distinct Gallina case terms; non-trivial = not (no kwargs and receiver rejected as the wrong kind). "
                 "Implementation-side law oracles on every cell: range = exactly the progression or a justified failure (known class "
                 "range:span-overflow-refused), round never turns a finite number into NaN/inf (known class round:non-finite-result). "
                 "Cells of sort/unique/group_by (laws owned by C16) and cells whose value needs a std oracle the model does not carry "
                 "(float printing/parsing, Debug string escaping, from_utf8_lossy, Value/Key equality of C15) are oracle-only and counted as such.",
    "trusted_base": TB_COMMON + [
        "axioms: none (every C17 theorem is 'Closed under the global context')",
        "tools/gen/builtins.py: transcribes the three registration lists of tera.rs and the documented escape tables of docs/content/_index.md",
        "modelled, not verified (oracles supplied per case by the harness from std itself): char::to_uppercase / to_lowercase and the Final_Sigma "
        "context rule of str::to_lowercase, 10.0_f64.powi(p); modelled from their documentation and tied by the correspondence run only: "
        "str::{trim*, trim_*_matches, split, replace, lines, split_whitespace, contains, starts_with, ends_with}, char::is_whitespace "
        "(the 25 White_Space code points), i128::from_str_radix, integer Display, `as f64` casts and f64 mul/div/round/ceil/floor "
        "(Coq's SpecFloat operations at prec 53 / emax 1024)",
        "error classes are recovered from the Display text of the error the built-in returned (the VM re-wraps it in a rendering error)",
    ],
    "modelled": ["args.rs ArgFromValue for the integer types, bool, f64, &str, Value, &[Value], &Map, Number; Kwargs::get / must_get",
                 "filters.rs: all filters except sort, unique, group_by (argument handling and value); str/safe/join/int/float only where no float "
                 "printing/parsing or Debug escaping is involved",
                 "tests.rs: all 17 tests (containing: string receivers and non-containers)",
                 "functions.rs: range (length computation with its checked arithmetic, cap, element loop), throw",
                 "tera.rs register_builtin_*: names re-extracted on every run (Gen/Builtins.v)"],
    "assumptions": ["implementation == model only on the cells enumerated by the harness",
                    "usize is 64 bits wide (the model's TUsize); default feature set (no `unicode`, `preserve_order`, `fast_escape`)",
                    "strings are sequences of Unicode scalar values: byte offsets/UTF-8 encoding are below the model; validity of result strings is observed on the implementation",
                    "case filters: laws are relative to std's case-mapping oracle (DESIGN section 10)"],
}

MANIFEST = (
    "Rocq proof: laws of the string/number/default/range built-ins, type-test partition and the ArgFromValue table for all values; exhaustive kind x kwarg matrix on the implementation, model correspondence on every modelled cell",
    "Theorems (Props/C17.v, closed under the global context) state the documented law of each string filter (truncate, trim*, replace, indent, newlines_to_br, escape_html/xml, case filters relative to a case-mapping oracle), of the conversions (int/abs/str/float/round), of default, of range (exact progression, cap, no intermediate overflow) and of the type tests / argument conversions, for all strings, all integers in every representation and all values; a vm_compute theorem over the regenerated registration lists forces every registered built-in to have a model entry or to be listed oracle-only. The model is tied to the Rust code by running both on the cells of the full finite kind x kwarg matrix (about 200k cells on the implementation in both tiers with no-panic/valid-text oracles; the model side on a stratified sample (quick) or all modelled cells (thorough)), plus a debug-profile re-run of the arithmetic built-ins. Universal theorems are the right level because the laws quantify over all strings and all 128-bit integers; the totality half is a finite matrix and is enumerated.",
    "§6 C17",
)
