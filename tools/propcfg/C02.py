from props import TB_COMMON

HDR = "From TeraV Require Import Model.Value Model.Pratt Corr.CorrC02.\nOpen Scope nat_scope."

CFG = {
    "escalate": False,  # thorough generators take far longer than the second-pass budget (DESIGN 15.1)
    "bin": "c02",
    "corr": ["CorrC02", "CorrC02Eval"],
    "harness_timeout": 1500,
    "families": {
        "ptree": {"header": HDR, "model_fn": "model_ptree", "rule": "F"},
        "praw": {"header": HDR, "model_fn": "model_praw", "rule": "F"},
        "eval": {"header": "From TeraV Require Import Model.Value Model.Pratt Spec.ExprSem Corr.CorrC02Eval.\nOpen Scope Z_scope.",
                 "model_fn": "model_eval", "rule": "F"},
    },
    "exhaustive_when": "exhaustive_shapes",
    "rule_text": "ptree: a surface tree (expression tree + placement of parentheses + `not in`/`is not` spelling) printed as real `{{ .. }}` "
                 "text in a whitespace layout; compared: model printer tokens = real lexer tokens, model parser tree = documented grouping, real parser "
                 "Display = Display of the documented grouping. Distinct by the Gallina term of the case; non-trivial = at least two operators/postfix forms. "
                 "Exhaustive every run: all `a op1 b op2 c` (both groupings) over the 17 infix operators and `not in`, unary x infix (both nestings), "
                 "infix x filter / test / `is not`, ternary against every operator in every position, unary/filter/test nestings, subscripts on every base "
                 "kind; each in minimal and fully parenthesised form. Literals (parse_array / parse_map / parse_list_comprehension), exhaustive every run: empty and nested "
                 "array / map literals, every placement of spreads among 1..3 elements, literal-only (folded) and mixed, each with and without a trailing comma (also nested); "
                 "comprehensions with/without key x with/without `if` x 14 kinds of element / target / condition (ternaries, literals, comprehensions inside); 9 literal forms as "
                 "left and right operand of every operator, under unary operators, filters, tests, in every ternary position, as argument, index, subscript base; literals whose "
                 "elements sit at the recursion limit (37..41 levels) and at the array-dimension limit; random trees carry random trailing commas. "
                 "praw: mutated and hand-written malformed token streams (incl. 62 literal / comprehension texts around the trailing-comma, spread, `for` lookahead, reserved-variable "
                 "and dimension rules), accept/reject and Display. "
                 "eval: expression x context (each free variable bound to a value of every kind or unbound), `{{ (e) | probe }}` value or `{{ e }}` ok/error vs the "
                 "reference evaluator (cases the documentation leaves open count as evaluated but not as non-trivial evidence of agreement); systematic: every "
                 "operand kind x every operator shape with `throw()` planted in the operand that must not be evaluated. Oracle on every probe-mode case: the "
                 "directly printed `{{ e }}` (the form the peephole pass fuses) gives the text of `{{ v }}` for the value v that e evaluates to, and fails exactly "
                 "when e fails or is undefined; ternary/and/or shapes with bare variables and dotted paths (bound, unbound) in every branch. "
                 "List comprehensions and spreads (block C): `[E for x in xs if C]` over 14 targets (arrays of every element kind, nested, empty; non-arrays; unbound) x 16 element "
                 "expressions x 13 conditions (full product in the thorough tier, a slice through each face in the quick tier) with an outer `x` bound (shadowing) and `throw()` as "
                 "element / condition / target, plus 27 scoping / laziness / nesting / spread-of-result / key-value forms; the reference evaluator decides array targets without key "
                 "variable (filter + map, condition first, first error wins), the rest counts as evaluated only. "
                 "Computed keys: 8 maps (literals with integer/string/bool keys, folded and with a spread; context maps keyed by u64 / i64 / i128+u128 / strings) x 29 keys "
                 "(literals, variables of every integer width, `0 + 1`, `n * 1`, `3 - 2`, `4 // 2`, `7 % 4`, `'a' ~ 'b'`, `xs | length`, ternaries, `or`/default) under "
                 "`[]`, `?[`, `in`, `not in`; arrays indexed by the same keys; the model looks keys up by mathematical value across widths (Model.Order.key_eq). "
                 "Nested short-circuit: a same-operator and/or (two and three operands) inside 10 non-logical wrappers (not, ==, !=, default, is defined, is string, ~, [.][0], "
                 "ternary branch, unary minus) as LEFT and RIGHT operand of an outer and/or and as ternary condition, over all assignments of the operands from the truth pool; "
                 "each also through `{% if %}` / `{% elif %}` (oracle: the branch taken = truth of the probed value). Float x integer: all six comparison operators in both "
                 "operand orders for floats n, n +- ulp, n +- 0.5/0.25/0.75 around n in -3..3, +-2^53 and the i64/u64/i128/u128 edges, against n-1, n, n+1; the model compares "
                 "the two rationals exactly (Order.dy_cmp).",
    "trusted_base": TB_COMMON + [
        "axioms: none (every C02 theorem is 'Closed under the global context')",
        "tools/gen/bp.py: transcribes binary_binding_power / unary_binding_power / TERNARY_L_BP and the documented precedence rows",
        "hook tera::verif::lex (real lexer tokens) and tera::verif::parse_expr_display (Display of the real parser's tree); Display is not injective "
        "for nested ternaries and for `x[a:]` vs `x[a]` - those are separated by the evaluation family",
    ],
    "modelled": ["parsing/parser.rs binding powers 29-59, parse_subscript 212-287, parse_ident 290-374, parse_kwargs 376-413, parse_filter/parse_test 512-550, "
                 "parse_map, parse_array (element loop, trailing-comma rule, spread marker, `for` lookahead after the first element, array_dimension counter, literal-only folding), "
                 "inner_parse_expression + parse_expr_bp, parse_list_comprehension (reserved variable names, optional key, target and condition at TERNARY_L_BP + 1)",
                 "parsing/ast.rs Display of Expression and of the node structs",
                 "docs/content/_index.md 'Operator precedence' (levels), operator semantics sections (evaluator)"],
    "assumptions": ["associativity is not stated by the documentation: `**` groups to the right, every other operator to the left (Jinja2/Python convention)",
                    "the round-trip theorems cover the whole expression grammar of the property including array/map literals with spreads and trailing commas and list "
                    "comprehensions; the AST-side variant is stated for the trees the parser can build (`normal`: literal-only containers are folded, folded maps have "
                    "distinct keys)",
                    "MAX_EXPRESSION_DEPTH (D11 repair: > 256 loop-built links on one spine are a syntax error) is not part of Model/Pratt.v; the theorems speak about the model, "
                    "which accepts such chains (Model/ParseDepth.v, C06, models that limit)",
                    "inline component calls `<name .../>` inside expressions are outside the model (token streams containing them are skipped)",
                    "implementation == model only on the cases enumerated by the harness"],
}

MANIFEST = (
    "Rocq proof: Pratt parser model o documented-table printer = identity for all expression trees, all parenthesisations, any well-formed binding-power table; "
    "tables re-extracted from parser.rs and the docs; big-step evaluator from the documentation with short-circuit/laziness/undefined theorems; correspondence run",
    "Theorems (Props/C02.v, closed under the global context): the binding powers of parser.rs order the operators exactly as the documented table; the Gallina port of "
    "the Pratt loop and of the array / map / list-comprehension loops parses what the documented-table printer prints back to the same tree for every expression tree "
    "(including literals with spreads and comprehensions), every placement of redundant parentheses and trailing commas, every depth within the recursion, bracket and "
    "array-dimension limits; and/or/ternary laziness, one-level-undefined and no-coercion characterisations of the reference evaluator. The port and the "
    "evaluator are tied to the Rust code by running both on generated and exhaustively enumerated operator shapes inside coqc. A universal theorem is the right level "
    "because the property quantifies over all operator combinations and nestings.",
    "§6 C02, Appendix A.1",
)
