from props import TB_COMMON

H16 = "From TeraV Require Import Model.Value Model.CollFilters Corr.CorrC15 Corr.CorrC16."

CFG = {
    "bin": "c16",
    "corr": ["CorrC16"],
    "families": {
        "coll": {"header": H16, "model_fn": "model_coll", "rule": "F"},
        "access": {"header": H16, "model_fn": "model_access", "rule": "F"},
        "kvp": {"header": H16, "model_fn": "model_kvp", "rule": "F"},
        "sj": {"header": H16, "model_fn": "model_sj", "rule": "F"},
    },
    "rule_text": "cases = (array, optional attribute path) with the rendered sort / unique / group_by results (coll); (value, n) with first/last/nth/length/"
                 "reverse/reverse|reverse (access); map with keys/values/pairs sorted by key (kvp); (string, pattern) with split and split|join (sj). "
                 "Distinct by the Gallina term. Non-trivial = array of >= 3 elements (coll), container of >= 2 elements (access), map of >= 2 entries (kvp), "
                 "string of >= 2 characters with a string pattern (sj). Arrays: 13 shapes (ints in mixed encodings, strings, numbers with NaN/inf, with "
                 "nones, mixed scalars, arrays of comparable arrays, arrays of mixed-content arrays, maps with attribute k / a.b / t.1 incl. missing, none, float and "
                 "array attributes, random nested values, maps) at lengths 0..13 and 20..300. Implementation-side property oracles (no panic; sort = stable permutation, "
                 "sorted, accepted keys comparable; unique = first occurrences; group_by = ordered partition; reverse twice; split|join) run on every case and on an "
                 "oracle-only stream of arrays of length 21..320.",
    "trusted_base": TB_COMMON + [
        "axioms: none (every C16 theorem is 'Closed under the global context')",
        "modelled, not verified: slice::sort_by (a stable insertion sort), BTreeSet<Value> (membership = some stored element compares Equal), HashMap "
        "(association list, see C15), str::split (non-overlapping leftmost matches; empty pattern matches at every boundary), [String]::join, "
        "str::split('.') + usize::from_str of attribute paths (the harness hands over the classified segments), Display of non-string join elements (not modelled: join is "
        "compared on arrays of strings only)",
    ],
    "modelled": ["filters.rs length, reverse, split, first, last, nth, join (string elements), ensure_comparable, sort, unique, values, keys, pairs, group_by",
                 "value/mod.rs get_from_path, len, reverse; args.rs int_from_value::<usize>"],
    "assumptions": ["values are well formed (C15); arrays are shorter than 2^64",
                    "implementation == model only on the cases enumerated by the harness",
                    "orderings are those of the code with fixes/D2-total-order.patch; on a tree without it the check reports the D2 violations (unique merging unequal values, sort panicking in std)",
                    "`sort` does not refuse a key list that mixes an `undefined` key with none AND with a regular key (e.g. [1, none, undefined]); the theorem states comparability "
                    "for keys sorting in front of none, and for all keys when none is absent"],
    "harness_timeout": 1500,
}

MANIFEST = (
    "Rocq proof: sort = stable sorted permutation that refuses incomparable keys (convexity of comparability along the total order), unique = first occurrences of the == classes, first/last/nth/length/reverse/keys/values/pairs agree, split-then-join = identity for every pattern; correspondence run on arrays up to 300 elements + no-panic and contract oracles on long arrays",
    "Theorems (Props/C16.v, closed under the global context) hold for every array of well-formed value trees of any length and mix, every attribute path and every pattern string; they rest on the total-order theorems of C15. The Gallina port of filters.rs is tied to the code by running both on generated arrays (13 shapes, lengths 0..300) inside coqc, and every filter runs under catch_unwind with its contract evaluated on the implementation's own output, including a stream of long arrays where std's sort would detect an unlawful order. Universal statements over all arrays are what the property asks; tests only sample short arrays of one kind.",
    "§6 C16, §7 D2, Appendix A.6",
)
