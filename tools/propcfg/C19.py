from props import TB_COMMON

HDR19 = "From TeraV Require Import Model.Value Model.Serde Corr.CorrC19."

CFG = {
    "bin": "c19",
    "corr": ["CorrC19"],
    "families": {
        "rt": {"header": HDR19, "model_fn": "model_rt", "rule": "F"},
        "cross": {"header": HDR19, "model_fn": "model_cross", "rule": "F"},
        "ctx": {"header": HDR19, "model_fn": "model_ctx", "rule": "F"},
        "reser": {"header": HDR19, "model_fn": "model_reser", "rule": "F"},
    },
    "rule_text": "rt: one case = (Rust type mirrored as a `ty` term, value mirrored as an `sval` term) with the implementation's "
                 "try_from_serializable result, both deserialisation results (owned Value and &Value) as data-model terms, the text "
                 "`{{ v }}` renders and the std `{:?}` oracles for the strings/floats in it; compared with ser / de Fixed / format of the "
                 "model. cross: (target type, arbitrary Value) -> both deserialisation results vs de Fixed (acceptance table off the "
                 "diagonal). ctx: Context::from_serialize read back through get() vs the model's from_serialize. reser: an arbitrary Value (every value kind incl. undefined, bytes, safe strings, "
                 "128-bit integers; maps with every key kind Bool/U64/I64/U128/I128/String/Str; nested) through Value::try_from_serializable(&value) "
                 "vs the model's reser (impl Serialize for Value / for Key). Oracle on every rt case: re-serialising the converted value gives a "
                 "strictly identical value, and insert(k,&converted) stores/renders what insert_value(k,converted) does. Distinct by the Gallina "
                 "term; non-trivial = the value's term is longer than a bare scalar (rt, ctx), the implementation accepted the value "
                 "(cross). Values: every boundary value of every primitive width, then generated values of ~90 types (nesting depth 3) "
                 "from the boundary pools.",
    "trusted_base": TB_COMMON + [
        "axioms: none (every C19 theorem is 'Closed under the global context')",
        "modelled, not verified: serde's visitor protocol for the std types and for #[derive(Deserialize)] structs/enums "
        "(serde_core 1.0.228 de/impls.rs, serde_derive) is an ACCEPTANCE TABLE inside Model/Serde.v `de` (which visit_* call each target "
        "type accepts; missing_field for Option; field/variant identifiers by name or index); #[derive(Serialize)] is the `sval` a value is "
        "written as. Conformance of both tables is established only by the correspondence run.",
        "modelled, not verified: HashMap as an association list (insert keeps the position of an equal key), BTreeMap<Cow<str>,Value> of "
        "Context likewise; `as` casts between integers and floats as IEEE round-to-nearest-even over SpecFloat (binary_round)",
        "oracles: `{:?}` of f64 and of str, String::from_utf8_lossy (parameters of Model/Format.v `format`; the harness supplies the "
        "implementation's own `{:?}` text for the leaves of each case)",
        "the harness's `Model` trait (harness/src/bin/c19.rs): trusted to describe each Rust type / value by the right `ty` / `sval` term "
        "(has_typeb re-checks every pair inside coqc)",
    ],
    "modelled": ["value/ser.rs ValueSerializer, MapKeySerializer, SerializeSeq/TupleVariant/Map/Struct/StructVariant",
                 "value/de.rs ValueDeserializer (deserialize_any/option/enum), EnumDeserializer, VariantDeserializer, impl Deserializer for Value and for &Value",
                 "value/mod.rs impl Serialize for Value; value/key.rs impl Serialize for Key", "value/mod.rs Value::format, format_map; value/key.rs Key::{as_value, format, Display, PartialEq, Ord}",
                 "context.rs Context::{from_serialize, insert, insert_value, get}"],
    "assumptions": ["the model is of the code with the repairs fixes/D7-deser-by-ref.patch and fixes/D14-newtype-struct-deser.patch applied",
                    "Option<T> round-trips only when T has no none-like representation (T not (), a unit struct, an Option, or a newtype of those): "
                    "the property's own exclusion, stated as `no_none_like_under_option`",
                    "byte strings (serde_bytes) and #[serde(...)] attributes other than rename are outside the type grammar",
                    "implementation == model only on the cases enumerated by the harness"],
}

MANIFEST = (
    "Rocq proof: ser/de model of the serde bridge round-trips every value of the type grammar through both entry points, refuses bad keys, prints determined by data; correspondence run ties model to code",
    "Theorems (Props/C19.v, closed under the global context) prove over the whole type grammar (all integer widths, floats, char, string, option, "
    "newtype/unit/tuple structs, seq, tuple, map with every admissible key kind, struct, enum with the four variant shapes, arbitrarily nested) that "
    "de (ser v) = v for T::deserialize(value) and T::deserialize(&value), that an inadmissible map key makes ser fail, that format depends only on the "
    "value with integers as their decimal numeral and map entries in key order for every internal order, and that from_serialize / insert / "
    "insert_value agree. The Gallina port of ser.rs/de.rs and serde's visitor acceptance table are tied to the Rust code by running both on ~90 "
    "concrete derive(Serialize, Deserialize) types over boundary values inside coqc. A universal theorem is the right level because the property "
    "quantifies over the whole serde data model; the 84 tests round-trip four structs.",
    "§6 C19",
)
