"""Per-property configuration for tools/check."""

TB_COMMON = [
    "Coq 8.16.1 kernel and its vm_compute evaluator (no native_compute); coqchk in the thorough tier",
    "tools/gen_tables.py (T-gen): transcribes constants/tables from the Rust source into coq/Gen/Tables.v on every run",
    "harness/ (Rust) + tools/check: run the real code built from /repo's working tree with --cfg tera_verif, print cases and implementation results as Gallina terms; coqc evaluates the model on them and reports mismatching indices",
    "hand-written Gallina models (coq/Model) of the anchored Rust functions: tied to the code only by the correspondence run, not by translation",
]

HDR = lambda corr: f"From TeraV Require Import Model.Value Corr.{corr}."

P = {
    "C14": {
        "bin": "c14",
        "corr": ["CorrC14"],
        "families": {
            "slice": {"header": HDR("CorrC14"), "model_fn": "model_slice", "rule": "F"},
            "index": {"header": HDR("CorrC14"), "model_fn": "model_index", "rule": "F"},
            "strops": {"header": HDR("CorrC14"), "model_fn": "model_strop", "rule": "F"},
        },
        "rule_text": "cases = (receiver, start, stop, step) / (receiver, index) / string op; distinct by the Gallina term of the case; "
                     "non-trivial = receiver is a sequence of >= 2 elements and at least one bound is given (slice), an integer index into a "
                     "non-empty sequence (index), a string with a multi-byte character and >= 2 characters (strops). Exhaustive sub-space: "
                     "every (absent | small int)^3 on short arrays; the rest random over boundary pools in all four integer representations.",
        "exhaustive_when": None,
        "trusted_base": TB_COMMON + [
            "axioms: none (every C14 theorem is 'Closed under the global context')",
            "modelled, not verified: Rust's Vec indexing / clamp / saturating_add on i128 (modelled on Z with explicit range tests), "
            "str::chars / char_indices (strings are lists of scalar values in the model; UTF-8 encoding is below the model)",
        ],
        "modelled": ["value/mod.rs resolve_index, get_item (array/string arms), slice, slice_items, len, reverse",
                     "vm/interpreter.rs Slice/SliceOpt/BinarySubscript/BinarySubscriptOpt operand validation",
                     "filters.rs truncate; vm/for_loop.rs string iterator and loop.* counters"],
        "assumptions": ["list lengths below 2^127 (Rust: below 2^63)",
                        "implementation == model only on the cases enumerated by the harness",
                        "map receivers of x[i] are checked under C15, not here"],
    },
}
