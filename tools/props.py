"""Per-property configuration for tools/check: one module per property in tools/propcfg/."""
import importlib, os, sys, glob

_here = os.path.dirname(os.path.abspath(__file__))
sys.path.insert(0, _here)

TB_COMMON = [
    "Coq 8.16.1 kernel and its vm_compute evaluator (no native_compute); coqchk in the thorough tier",
    "tools/gen_tables.py (T-gen): transcribes constants/tables from the Rust source into coq/Gen/*.v on every run",
    "harness/ (Rust) + tools/check: run the real code built from /repo's working tree with --cfg tera_verif, print cases and implementation results as Gallina terms; coqc evaluates the model on them and reports mismatching indices",
    "hand-written Gallina models (coq/Model) of the anchored Rust functions: tied to the code only by the correspondence run, not by translation",
]


def HDR(corr):
    return f"From TeraV Require Import Model.Value Corr.{corr}."


P = {}
MANIFEST_TEXT = {}
for _f in sorted(glob.glob(os.path.join(_here, "propcfg", "C*.py"))):
    _name = os.path.basename(_f)[:-3]
    _m = importlib.import_module(f"propcfg.{_name}")
    P[_name] = _m.CFG
    MANIFEST_TEXT[_name] = _m.MANIFEST
