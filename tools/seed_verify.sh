#!/bin/sh
# usage: seed_verify.sh <outdir> <k> <seed id> <property>
# confirms a proposed breaking change in a scratch worktree of /repo and installs it under /verif/seeded/<seed id>/
set -u
out="$1"; k="$2"; sid="$3"; prop="$4"
W=${SEEDVERIFY_W:-/tmp/mut/verify}
mkdir -p /tmp/mut
[ -d "$W" ] || git -C /repo worktree add -q "$W" HEAD
cd "$W" && git checkout -q --detach "$(git -C /repo rev-parse HEAD)" && git checkout -q -- . && git clean -fdq tera/tests tera-contrib/tests tera/src 2>/dev/null
export CARGO_TARGET_DIR=${W}-target CARGO_NET_OFFLINE=true
pkg=tera; feat=""
if head -1 "$out/demo_$k.rs" | grep -q 'place: tera-contrib/tests'; then pkg=tera-contrib; feat="--all-features"; fi
mkdir -p "$pkg/tests"; demo="$pkg/tests/demo_${sid}.rs"
cp "$out/demo_$k.rs" "$demo"
log=/tmp/mut/verify_$sid.log; : > $log
echo "## demo on unchanged HEAD" >> $log
timeout 1500 cargo test --offline -p $pkg $feat --test "demo_${sid}" >> $log 2>&1; base=$?
if ! git apply --check "$out/patch_$k.diff" 2>>$log; then echo "$sid: patch does not apply"; exit 1; fi
git apply "$out/patch_$k.diff"
echo "## 84 tests with patch" >> $log
timeout 1500 cargo nextest run --workspace --no-fail-fast --offline -E 'not binary(~demo_)' >> $log 2>&1; suite=$?
echo "## demo with patch" >> $log
timeout 1500 cargo test --offline -p $pkg $feat --test "demo_${sid}" >> $log 2>&1; mut=$?
git checkout -q -- . ; rm -f "$demo"; git clean -fdq tera/tests tera-contrib/tests tera/src 2>/dev/null
echo "$sid: demo@HEAD rc=$base (want 0) ; suite@patch rc=$suite (want 0) ; demo@patch rc=$mut (want !=0)"
if [ $base -eq 0 ] && [ $suite -eq 0 ] && [ $mut -ne 0 ]; then
  d=/verif/seeded/$sid; mkdir -p $d
  cp "$out/patch_$k.diff" $d/patch.diff; cp "$out/demo_$k.rs" $d/demo.rs
  python3 - "$out/meta_$k.json" "$d/meta.json" "$prop" <<'PY'
import json,sys
m=json.load(open(sys.argv[1]))
m["property"]=sys.argv[3]
m["confirmed_by_integrator"]={"worktree":"/tmp/mut/verify (scratch worktree of /repo HEAD, removed afterwards)",
  "ran":["cargo test --offline -p tera --test demo_<id>  (unchanged HEAD): pass",
         "git apply patch.diff ; cargo nextest run --workspace --no-fail-fast --offline (84 existing tests): pass",
         "cargo test --offline -p tera --test demo_<id>  (with patch): FAIL"]}
json.dump(m,open(sys.argv[2],"w"),indent=1)
PY
  echo "$sid: installed"
else
  echo "$sid: NOT confirmed (see $log)"
fi
