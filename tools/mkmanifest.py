#!/usr/bin/env python3
"""Writes MANIFEST.json from tools/props.py + the per-property texts below."""
import json, sys
import os
ROOT = os.path.dirname(os.path.dirname(os.path.abspath(__file__)))
sys.path.insert(0, os.path.join(ROOT, "tools"))
import props

ALL = [f"C{i:02d}" for i in range(1, 21)]
TEXT = props.MANIFEST_TEXT
NA = {}

def main():
    checks = []
    for pid in ALL:
        if pid not in props.P:
            continue
        tech, text, ref = TEXT[pid]
        cfg = props.P[pid]
        checks.append({
            "property_id": pid,
            "quick_cmd": f"tools/check {pid} --tier quick",
            "thorough_cmd": f"tools/check {pid} --tier thorough",
            "evidence_file": f"/verif/evidence/{pid}.json",
            "replay_cmd_template": f"tools/check {pid} --replay {{path}}",
            "engine": "rocq-proof+correspondence",
            "level_claimed": {"category": "proof", "text": text, "design_ref": ref},
            "level_note": "; ".join(cfg["trusted_base"])[:1500],
            "technique": tech,
        })
    na = [{"property_id": p, "reason": NA.get(p, "not built yet in this session: no check is claimed until its model, theorems and correspondence run exist (DESIGN.md §9 build order)")} for p in ALL if p not in props.P]
    m = {
        "version": 1,
        "setup_cmd": "tools/check --setup",
        "hooks": {
            "guard": "tera_verif",
            "enable": "RUSTFLAGS='--cfg tera_verif' (set in /verif/harness/.cargo/config.toml; the harness crate depends on /repo/tera by path)",
            "baseline_off_cmd": "cd /repo && cargo nextest run --workspace --no-fail-fast --offline",
            "source_commits": ["62cb163", "1c6a8c8", "defa67e"],
            "add_only": True,
        },
        "engines": [{"name": "rocq-proof+correspondence", "path": "/verif/coq + /verif/harness + /verif/tools/check",
                     "serves_properties": [c["property_id"] for c in checks],
                     "kind_free_text": "Coq 8.16 theorems over hand-written executable Gallina models; models tied to the Rust code by in-assistant differential evaluation of harness-generated cases and by tables regenerated from the source"}],
        "checks": checks,
        "not_applicable": na,
        "notes": "Exit codes: 0 held, 1 VIOLATION line printed, 2 CHECK-ERROR (machinery defect). KNOWN_FINDINGS.txt lists fixed defects and recorded findings.",
    }
    json.dump(m, open(os.path.join(ROOT, "MANIFEST.json"), "w"), indent=1)
    print("checks:", [c["property_id"] for c in checks], "n/a:", len(na))

main()
