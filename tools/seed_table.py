#!/usr/bin/env python3
"""Writes seeded/README.md: one row per seeded breaking change (what it does, what it needs, which
check catches it, how)."""
import json, os, glob
ROOT = os.path.dirname(os.path.dirname(os.path.abspath(__file__)))
res = json.load(open(os.path.join(ROOT, "seeded", "RESULTS.json")))
rows = []
for d in sorted(glob.glob(os.path.join(ROOT, "seeded", "S*"))):
    sid = os.path.basename(d)
    m = json.load(open(os.path.join(d, "meta.json")))
    r = res.get(sid, {})
    by = ", ".join(f"{p} ({'concrete input' if how == 'with-input' else 'no-failing-input-found'})" for p, how in r.get("caught_by", [])) or "—"
    def cell(x):
        return str(x).replace("|", "\\|").replace("\n", " ")
    if "quickseed" in r.get("note", "") and "full check not re-run" in r.get("note", ""):
        by += " — confirmed by the property's harness built against the patched tree (tools/quickseed.sh, implementation-side oracle); full check not re-run"
    rows.append(f"| {sid} | {m['property']} | {cell(m.get('summary',''))[:300]} | {cell(m.get('needs',''))[:260]} | {r.get('result','not run')} | {by} |")
out = ["# Seeded breaking changes", "",
       "Each directory holds `patch.diff` (applies to /repo HEAD), `demo.rs` (an integration test that fails with the patch and passes without), `meta.json` (what it breaks, what it needs to manifest, what was run).",
       "All were written by fresh sub-agents that saw only the property text and a scratch worktree of the engine; every one compiles and passes the 84 existing tests. `tools/seedtest` applies each to /repo, runs the quick check(s) and restores /repo.",
       "", "| seed | property | change | needs | result | caught by |", "|---|---|---|---|---|---|"] + rows
caught = sum(1 for s in res.values() if s["result"] == "caught")
out += ["", f"{caught} of {len(rows)} seeded changes are reported as VIOLATION by the quick tier of the checks listed."]
open(os.path.join(ROOT, "seeded", "README.md"), "w").write("\n".join(out) + "\n")
print(caught, len(rows))
