#!/bin/sh
# regenerate _CoqProject file list + Makefile when the set of .v files changed
cd "$(dirname "$0")/../coq" || exit 2
{ cat _CoqProject.head; find Gen Model Spec Proofs Props Corr -maxdepth 1 -name '*.v' ! -name 'cases_*' | sort; } > _CoqProject.new
if ! cmp -s _CoqProject.new _CoqProject || [ ! -f Makefile ]; then
  mv _CoqProject.new _CoqProject
  coq_makefile -f _CoqProject -o Makefile >/dev/null
else
  rm -f _CoqProject.new
fi
