#!/bin/sh
# merge a builder branch into main: KNOWN_FINDINGS.txt = union of lines, MANIFEST.json regenerated,
# evidence/ conflicts resolved in favour of the branch
set -e
cd "$(dirname "$0")/.."
b="$1"
git merge --no-commit --no-ff "$b" >/dev/null 2>&1 || true
if git diff --name-only --diff-filter=U | grep -q '^KNOWN_FINDINGS.txt$'; then
  { git show HEAD:KNOWN_FINDINGS.txt; git show "$b":KNOWN_FINDINGS.txt; } | awk '!seen[$0]++' > KNOWN_FINDINGS.txt
  git add KNOWN_FINDINGS.txt
fi
for f in $(git diff --name-only --diff-filter=U | grep '^evidence/' || true); do
  git checkout --theirs -- "$f"; git add "$f"
done
if git diff --name-only --diff-filter=U | grep -q '^MANIFEST.json$'; then
  git checkout --ours -- MANIFEST.json; git add MANIFEST.json
fi
rest=$(git diff --name-only --diff-filter=U)
if [ -n "$rest" ]; then echo "UNRESOLVED: $rest"; exit 1; fi
python3 tools/mkmanifest.py
git add -A
git commit -qm "merge $b"
echo "merged $b"
