"""Component parameter types (C05): the `Type` enum, the arms of `Type::matches_value` and
`Type::from_value` (tera/src/parsing/ast.rs) and the `Value::is_*` predicates those arms call
(tera/src/value/mod.rs), written as tables over `vkind` (Model/Value.v) into coq/Gen/TypeTables.v.

Shapes accepted (anything else is reported as "cannot extract", i.e. an open obligation):
  matches_value:  Type::X => value.is_y(),   Type::X => matches!(value.kind(), ValueKind::A | ...),
  from_value:     ValueKind::A | ValueKind::B => Some(Type::X)  /  => { Some(Type::X) }  /  => None,
  is_y:           matches!(self.kind(), ValueKind::A | ...)  or  matches!(&self.inner, ValueInner::A(..) | ...)
"""
import re

KIND = {"Undefined": "KUndefined", "None": "KNone", "Bool": "KBoolK", "U64": "KU64", "I64": "KI64",
        "U128": "KU128", "I128": "KI128", "F64": "KF64", "String": "KString", "Array": "KArray",
        "Map": "KMap", "Bytes": "KBytes"}


def strip_comments(s):
    return re.sub(r"//[^\n]*", "", s)


def split_arms(body):
    """top-level `pat => expr,` arms of a match body (brace/paren aware)"""
    arms, depth, cur = [], 0, ""
    for ch in body:
        if ch in "({[":
            depth += 1
        elif ch in ")}]":
            depth -= 1
        if ch == "," and depth == 0:
            if cur.strip():
                arms.append(cur.strip())
            cur = ""
        else:
            cur += ch
            # an arm whose expression is a block ends at the closing brace without a comma
            if ch == "}" and depth == 0 and "=>" in cur and cur.split("=>", 1)[1].strip().startswith("{"):
                arms.append(cur.strip())
                cur = ""
    if cur.strip():
        arms.append(cur.strip())
    return arms


def match_body(fn_body, scrutinee_re):
    m = re.search(r"match\s+" + scrutinee_re + r"\s*\{", fn_body)
    if not m:
        return None
    i = m.end(); depth = 1
    while i < len(fn_body) and depth:
        if fn_body[i] == "{": depth += 1
        elif fn_body[i] == "}": depth -= 1
        i += 1
    return fn_body[m.end():i - 1]


def kinds_of(expr, prefix):
    names = re.findall(prefix + r"::([A-Za-z0-9]+)", expr)
    if not names or any(n not in KIND for n in names):
        return None
    return [KIND[n] for n in names]


def gen(ctx):
    out = ["From Coq Require Import List.", "From TeraV Require Import Model.Value.", "Import ListNotations.", ""]
    ast = strip_comments(ctx.read("tera/src/parsing/ast.rs"))
    val = strip_comments(ctx.read("tera/src/value/mod.rs"))

    # --- the enum
    m = re.search(r"pub\s+enum\s+Type\s*\{([^}]*)\}", ast)
    variants = re.findall(r"\b([A-Z][A-Za-z0-9]*)\b", m.group(1)) if m else []
    if not variants:
        ctx.missing("ast.rs: enum Type")
        return "TypeTables", "\n".join(out) + "\n"
    out.append("Inductive ctype := " + " | ".join("T" + v for v in variants) + ".")
    out.append("Definition all_ctypes : list ctype := [" + "; ".join("T" + v for v in variants) + "].")
    out.append("")

    # --- Type::from_str names (the declared-type syntax), for the documentation cross-check
    fs = ctx.fn_body(ast, "from_str", "ast.rs")
    names = re.findall(r'"([a-z]+)"\s*=>\s*Ok\(Type::([A-Za-z0-9]+)\)', fs or "")
    if not names:
        ctx.missing("ast.rs: Type::from_str arms")
    else:
        ents = []
        for s, v in names:
            ents.append("([" + "; ".join(str(ord(c)) for c in s) + "]%N, T" + v + ")")
        out.append("Definition type_names : list (list N * ctype) := [" + "; ".join(ents) + "].")
        out.append("")

    # --- Value::is_* predicates used by the arms
    def is_pred(name):
        b = ctx.fn_body(val, name, "value/mod.rs")
        if b is None:
            return None
        m1 = re.search(r"matches!\(\s*self\.kind\(\)\s*,([^)]*)\)", b)
        if m1:
            return kinds_of(m1.group(1), "ValueKind")
        m2 = re.search(r"matches!\(\s*&?self\.inner\s*,(.*)\)", b, re.S)
        if m2:
            return kinds_of(m2.group(1), "ValueInner")
        ctx.missing(f"value/mod.rs: shape of fn {name}")
        return None

    # --- matches_value
    body = ctx.fn_body(ast, "matches_value", "ast.rs")
    mb = match_body(body, r"self") if body else None
    seen = {}
    if mb is None:
        ctx.missing("ast.rs: Type::matches_value match")
    else:
        for arm in split_arms(mb):
            if "=>" not in arm:
                ctx.missing("ast.rs: matches_value arm `" + arm[:40] + "`"); continue
            pat, expr = [x.strip() for x in arm.split("=>", 1)]
            pm = re.fullmatch(r"Type::([A-Za-z0-9]+)", pat)
            if not pm:
                ctx.missing("ast.rs: matches_value pattern `" + pat[:40] + "`"); continue
            em = re.fullmatch(r"value\.(is_[a-z0-9_]+)\(\)", expr)
            if em:
                ks = is_pred(em.group(1))
            else:
                mm = re.fullmatch(r"matches!\(\s*value\.kind\(\)\s*,(.*)\)", expr, re.S)
                ks = kinds_of(mm.group(1), "ValueKind") if mm else None
            if ks is None:
                ctx.missing("ast.rs: matches_value arm for " + pm.group(1)); continue
            seen[pm.group(1)] = ks
        if set(seen) != set(variants):
            ctx.missing("ast.rs: matches_value does not have exactly one arm per Type variant")
        out.append("Definition type_matches_kinds (t : ctype) : list vkind :=")
        out.append("  match t with")
        for v in variants:
            out.append(f"  | T{v} => [" + "; ".join(seen.get(v, [])) + "]")
        out.append("  end.")
        out.append("")

    # --- from_value
    body = ctx.fn_body(ast, "from_value", "ast.rs")
    mb = match_body(body, r"val\.kind\(\)") if body else None
    table = {}
    if mb is None:
        ctx.missing("ast.rs: Type::from_value match")
    else:
        for arm in split_arms(mb):
            if "=>" not in arm:
                ctx.missing("ast.rs: from_value arm `" + arm[:40] + "`"); continue
            pat, expr = [x.strip() for x in arm.split("=>", 1)]
            ks = re.findall(r"ValueKind::([A-Za-z0-9]+)", pat)
            expr = expr.strip("{} \n\t")
            if expr == "None":
                r = "None"
            else:
                em = re.fullmatch(r"Some\(\s*Type::([A-Za-z0-9]+)\s*\)", expr)
                if not em:
                    ctx.missing("ast.rs: from_value arm `" + arm[:40] + "`"); continue
                r = "Some T" + em.group(1)
            for k in ks:
                if k not in KIND or k in table:
                    ctx.missing("ast.rs: from_value kind " + k)
                table[k] = r
        if set(table) != set(KIND):
            ctx.missing("ast.rs: from_value does not cover every ValueKind exactly once")
        out.append("Definition type_from_kind (k : vkind) : option ctype :=")
        out.append("  match k with")
        for k, ck in KIND.items():
            out.append(f"  | {ck} => " + table.get(k, "None"))
        out.append("  end.")
    return "TypeTables", "\n".join(out) + "\n"
