"""The three built-in registration lists of tera.rs (register_builtin_filters/tests/functions) and
the documented escape tables of docs/content/_index.md (escape_html / escape_xml sections)."""
import re


def _names(ctx, src, fn, call):
    body = ctx.fn_body(src, fn, "tera.rs")
    if body is None:
        return None
    names = re.findall(r"self\s*\.\s*" + call + r"\(\s*\"([^\"]+)\"", body)
    # every statement of the body must be one registration call: anything else is not understood
    stmts = [x.strip() for x in re.sub(r"//[^\n]*", "", body).split(";") if x.strip()]
    if not names or len(stmts) != len(names):
        ctx.missing(f"tera.rs: {fn}: {len(stmts)} statements but {len(names)} `{call}(\"..\", ..)` calls")
        return None
    return names


def _coq_string(s):
    return '"' + s.replace('"', '""') + '"'


def _doc_table(ctx, docs, heading):
    m = re.search(r"^#####\s+" + re.escape(heading) + r"\s*$(.*?)^#####", docs, re.M | re.S)
    if not m:
        ctx.missing(f"_index.md: section {heading}")
        return None
    rows = re.findall(r"^- `(.)`[^\n]*? is converted to `([^`]+)`", m.group(1), re.M)
    if not rows:
        ctx.missing(f"_index.md: replacement rows of {heading}")
        return None
    return rows


def gen(ctx):
    out = ["From Coq Require Import List String NArith.", "Import ListNotations.", "Open Scope string_scope.", ""]
    src = ctx.read("tera/src/tera.rs")
    for defname, fn, call in [("builtin_filters", "register_builtin_filters", "register_filter"),
                              ("builtin_tests", "register_builtin_tests", "register_test"),
                              ("builtin_functions", "register_builtin_functions", "register_function")]:
        names = _names(ctx, src, fn, call)
        if names is not None:
            out.append(f"Definition {defname} : list string := [" + "; ".join(_coq_string(n) for n in names) + "].")
    out.append("")
    docs = ctx.read("docs/content/_index.md")
    for defname, heading in [("doc_escape_html", "escape_html"), ("doc_escape_xml", "escape_xml")]:
        rows = _doc_table(ctx, docs, heading)
        if rows is not None:
            ents = [f"({ord(c)}%N, [{'; '.join(str(b) for b in rep.encode())}]%N)" for c, rep in rows]
            out.append(f"Definition {defname} : list (N * list N) := [" + "; ".join(ents) + "].")
    return "Builtins", "\n".join(out) + "\n"
