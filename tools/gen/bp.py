"""Binding powers of the Pratt parser (parser.rs: unary_binding_power, binary_binding_power,
TERNARY_L_BP) and the documented precedence rows (docs/content/_index.md, "Operator
precedence"), as Gallina lists in coq/Gen/BpTables.v.  Names are Coq `string`s (the Rust
variant names / the documented operator spellings); Model/Pratt.v resolves them and
`wf_bp` / `bp_matches_docs` are proved over these generated definitions by vm_compute, so a
changed binding power or a changed documentation row re-opens the C02 obligations."""
import re


def _arms(body, where, ctx, unary):
    """`A | B => (l, r),` arms of a `match op { .. }`; comments stripped."""
    body = re.sub(r"//[^\n]*", "", body)
    m = re.search(r"match\s+op\s*\{(.*)\}", body, re.S)
    if not m:
        ctx.missing(f"{where}: match op")
        return []
    rows = []
    pat = r"([A-Za-z_|\s]+?)=>\s*\(\s*(\(\s*\)|\d+)\s*,\s*(\d+)\s*\)\s*,"
    for names, l, r in re.findall(pat, m.group(1)):
        for n in names.split("|"):
            n = n.strip()
            if not n:
                continue
            if unary:
                rows.append((n, int(r)))
            else:
                rows.append((n, int(l), int(r)))
    if not rows:
        ctx.missing(f"{where}: no arms parsed")
    return rows


def _doc_rows(doc, ctx):
    m = re.search(r"####\s+Operator precedence\s*\n(.*?)(?:\n###|\n####|\Z)", doc, re.S)
    if not m:
        ctx.missing("docs/content/_index.md: section 'Operator precedence'")
        return [], None
    sec = m.group(1)
    lowest_first = None
    if re.search(r"lowest\s+to\s+highest", sec, re.I):
        lowest_first = True
    elif re.search(r"highest\s+to\s+lowest", sec, re.I):
        lowest_first = False
    else:
        ctx.missing("docs/content/_index.md: direction sentence of the precedence table")
    rows = []
    for line in sec.split("\n"):
        line = line.strip()
        if not line.startswith("|") or re.match(r"^\|\s*-+\s*\|$", line) or re.match(r"^\|\s*Operators\s*\|$", line):
            continue
        cell = line[1:-1] if line.endswith("|") else line[1:]
        # operators are the back-quoted items, each optionally followed by a parenthesised note
        items = re.findall(r"`((?:[^`\\]|\\.)+)`(\s*\((\w+)\))?", cell)
        ops = []
        for sym, _, note in items:
            sym = sym.replace("\\|", "|")
            ops.append(sym + (f" ({note})" if note else ""))
        if ops:
            rows.append(ops)
    if not rows:
        ctx.missing("docs/content/_index.md: precedence rows")
    return rows, lowest_first


def _s(x):
    return '"' + x.replace('"', '""') + '"'


def gen(ctx):
    parser = ctx.read("tera/src/parsing/parser.rs")
    doc = ctx.read("docs/content/_index.md")
    out = ["From Coq Require Import List String NArith.", "Import ListNotations.", "Open Scope string_scope.", ""]
    ub = ctx.fn_body(parser, "unary_binding_power", "parser.rs")
    bb = ctx.fn_body(parser, "binary_binding_power", "parser.rs")
    un = _arms(ub, "parser.rs: unary_binding_power", ctx, True) if ub is not None else []
    bi = _arms(bb, "parser.rs: binary_binding_power", ctx, False) if bb is not None else []
    tern = ctx.const_int(parser, "TERNARY_L_BP", "parser.rs")
    out.append("(* parser.rs: fn unary_binding_power — (variant, r_bp) *)")
    out.append("Definition unary_bp_rows : list (string * nat) := [" + "; ".join(f"({_s(n)}, {r})" for n, r in un) + "].")
    out.append("(* parser.rs: fn binary_binding_power — (variant, l_bp, r_bp) *)")
    out.append("Definition binary_bp_rows : list (string * (nat * nat)) := [" +
               "; ".join(f"({_s(n)}, ({l}, {r}))" for n, l, r in bi) + "].")
    out.append("(* parser.rs: const TERNARY_L_BP *)")
    out.append(f"Definition ternary_l_bp : nat := {tern if tern is not None else 0}.")
    rows, lowest_first = _doc_rows(doc, ctx)
    if lowest_first is False:
        rows = list(reversed(rows))
    out.append("(* docs/content/_index.md, 'Operator precedence': one list per table row, lowest binding power first *)")
    out.append("Definition doc_prec_rows : list (list string) := [" +
               "; ".join("[" + "; ".join(_s(o) for o in r) + "]" for r in rows) + "].")
    return "BpTables", "\n".join(out) + "\n"
