"""C20 tables: the AsciiSet chains of tera-contrib/src/urlencode.rs (which bytes are added to /
removed from which base set, and which set each filter passes to `percent_encode`) and the
`(url_safe, padded) => ENGINE` / decoder-engine tables of tera-contrib/src/base64.rs.
Only *named* items of the shapes used today are parsed; anything else is reported as missing."""
import re

BYTE_LIT = r"b'(\\.|[^\\'])'"
ESC = {"\\\\": "\\", "\\'": "'", "\\n": "\n", "\\t": "\t", "\\r": "\r", "\\0": "\0", '\\"': '"'}
CRATE_BASES = {"CONTROLS": "CONTROLS", "NON_ALPHANUMERIC": "NON_ALPHANUMERIC"}
ENGINES = ["STANDARD", "STANDARD_NO_PAD", "URL_SAFE", "URL_SAFE_NO_PAD"]
PADMODES = ["Indifferent", "RequireCanonical", "RequireNone"]


def byte_of(lit):
    if lit in ESC:
        return ord(ESC[lit])
    if lit.startswith("\\x"):
        return int(lit[2:], 16)
    if len(lit) == 1:
        return ord(lit)
    return None


def strip_comments(src):
    src = re.sub(r"//[^\n]*", "", src)
    return re.sub(r"/\*.*?\*/", "", src, flags=re.S)


def strip_tests(src):
    i = src.find("#[cfg(test)]")
    return src if i < 0 else src[:i]


def ascii_sets(ctx, src):
    """name -> (base_name, [(is_add, byte)])"""
    sets = {}
    for m in re.finditer(r"const\s+(\w+)\s*:\s*&\s*AsciiSet\s*=\s*&\s*([\w:]+)((?:\s*\.\s*(?:add|remove)\s*\(\s*" + BYTE_LIT + r"\s*\))*)\s*;", src):
        name, base, chain = m.group(1), m.group(2).split("::")[-1], m.group(3)
        ops = []
        for o in re.finditer(r"\.\s*(add|remove)\s*\(\s*" + BYTE_LIT + r"\s*\)", chain):
            b = byte_of(o.group(2))
            if b is None or b > 127:
                ctx.missing(f"urlencode.rs: byte literal b'{o.group(2)}' in {name}")
                continue
            ops.append((o.group(1) == "add", b))
        sets[name] = (base, ops)
    return sets


def flatten(ctx, sets, name, depth=0):
    if name in CRATE_BASES:
        return CRATE_BASES[name], []
    if name not in sets or depth > 16:
        ctx.missing(f"urlencode.rs: AsciiSet {name}")
        return None
    base, ops = sets[name]
    r = flatten(ctx, sets, base, depth + 1)
    if r is None:
        return None
    return r[0], r[1] + ops


def coq_chain(r):
    return "(" + r[0] + ", [" + "; ".join(f"({'true' if a else 'false'}, {b})" for a, b in r[1]) + "]%N)"


def gen(ctx):
    out = ["From Coq Require Import List NArith.", "Import ListNotations.", ""]
    # ---------------------------------------------------------------- urlencode.rs
    url = strip_tests(strip_comments(ctx.read("tera-contrib/src/urlencode.rs")))
    sets = ascii_sets(ctx, url)
    out.append("(* base sets are constants of the percent-encoding crate (modelled in Model/Codec.v) *)")
    out.append("Inductive pct_base := CONTROLS | NON_ALPHANUMERIC.")
    out.append("(* (base, operations in source order: (true, b) = .add(b), (false, b) = .remove(b)) *)")
    for fn in ("urlencode", "urlencode_strict"):
        body = ctx.fn_body(url, fn, "urlencode.rs")
        chain = None
        if body is not None:
            m = re.search(r"percent_encode\s*\(\s*val\s*\.\s*as_bytes\s*\(\s*\)\s*,\s*&?\s*([\w:]+)\s*\)", body)
            if not m:
                ctx.missing(f"urlencode.rs: percent_encode call in fn {fn}")
            else:
                chain = flatten(ctx, sets, m.group(1).split("::")[-1])
        if chain is not None:
            out.append(f"Definition {fn}_chain : pct_base * list (bool * N) := {coq_chain(chain)}.")
    out.append("")
    # ---------------------------------------------------------------- base64.rs
    b64 = strip_tests(strip_comments(ctx.read("tera-contrib/src/base64.rs")))
    out.append("(* engines / alphabets / padding modes are constants of the base64 crate (modelled in Model/Codec.v) *)")
    out.append("Inductive b64_engine := " + " | ".join(ENGINES) + ".")
    out.append("Inductive b64_alpha := ALPHA_STANDARD | ALPHA_URL_SAFE.")
    out.append("Inductive b64_padmode := " + " | ".join(PADMODES) + ".")
    body = ctx.fn_body(b64, "b64_encode", "base64.rs")
    if body is not None:
        dm = re.search(r'get::<bool>\("url_safe"\)\?\s*\.unwrap_or\((true|false)\)', body)
        pm = re.search(r'get::<bool>\("padded"\)\?\s*\.unwrap_or\((true|false)\)', body)
        arms = re.findall(r"\(\s*(true|false)\s*,\s*(true|false)\s*\)\s*=>\s*(?:[\w:]+::)?(\w+)\s*\.\s*encode\s*\(\s*val\s*\)", body)
        hdr = re.search(r"match\s*\(\s*url_safe\s*,\s*padded\s*\)", body)
        if not (dm and pm and hdr and len(arms) == 4 and all(a[2] in ENGINES for a in arms)
                and len({(a[0], a[1]) for a in arms}) == 4):
            ctx.missing("base64.rs: b64_encode (url_safe, padded) => ENGINE arms / kwarg defaults")
        else:
            out.append("(* ((url_safe, padded), engine) in source order *)")
            out.append("Definition b64_encode_table : list (bool * bool * b64_engine) := ["
                       + "; ".join(f"({a[0]}, {a[1]}, {a[2]})" for a in arms) + "].")
            out.append(f"Definition b64_encode_default_url_safe : bool := {dm.group(1)}.")
            out.append(f"Definition b64_encode_default_padded : bool := {pm.group(1)}.")
    # decoder engines: const NAME: … = GeneralPurpose::new(&base64::alphabet::A, CONFIG…);
    decs = {}
    for m in re.finditer(r"const\s+(\w+)\s*:\s*[\w:]+\s*=\s*[\w:]*GeneralPurpose::new\s*\(\s*&\s*[\w:]*alphabet::(\w+)\s*,(.*?)\)\s*;", b64, re.S):
        name, alpha, cfg = m.group(1), m.group(2), m.group(3)
        if alpha not in ("STANDARD", "URL_SAFE") or "GeneralPurposeConfig::new()" not in cfg:
            ctx.missing(f"base64.rs: decoder engine {name}")
            continue
        mode = "RequireCanonical"      # GeneralPurposeConfig::new() default
        mm = re.search(r"with_decode_padding_mode\s*\(\s*[\w:]*DecodePaddingMode::(\w+)\s*\)", cfg)
        if mm:
            mode = mm.group(1)
        if mode not in PADMODES:
            ctx.missing(f"base64.rs: padding mode of {name}")
            continue
        trailing = "false"
        tm = re.search(r"with_decode_allow_trailing_bits\s*\(\s*(true|false)\s*\)", cfg)
        if tm:
            trailing = tm.group(1)
        decs[name] = (f"ALPHA_{alpha}", mode, trailing)
    body = ctx.fn_body(b64, "b64_decode", "base64.rs")
    if body is not None:
        dm = re.search(r'get::<bool>\("url_safe"\)\?\s*\.unwrap_or\((true|false)\)', body)
        m = re.search(r"if\s+url_safe\s*\{\s*(\w+)\s*\.\s*decode\s*\(\s*val\s*\)\s*\}\s*else\s*\{\s*(\w+)\s*\.\s*decode\s*\(\s*val\s*\)\s*\}", body)
        utf8 = re.search(r"String::from_utf8\s*\(\s*bytes\s*\)", body)
        if not (dm and m and utf8 and m.group(1) in decs and m.group(2) in decs):
            ctx.missing("base64.rs: b64_decode engine selection")
        else:
            t, f = decs[m.group(1)], decs[m.group(2)]
            out.append("(* url_safe => (alphabet, padding mode, decode_allow_trailing_bits) *)")
            out.append("Definition b64_decode_table : list (bool * (b64_alpha * b64_padmode * bool)) := "
                       f"[(true, ({t[0]}, {t[1]}, {t[2]})); (false, ({f[0]}, {f[1]}, {f[2]}))].")
            out.append(f"Definition b64_decode_default_url_safe : bool := {dm.group(1)}.")
    # ---------------------------------------------------------------- json.rs / slug.rs (shape only)
    js = strip_tests(strip_comments(ctx.read("tera-contrib/src/json.rs")))
    body = ctx.fn_body(js, "json_encode", "json.rs")
    if body is not None:
        m = re.search(r"if\s+pretty\s*\{\s*serde_json::(\w+)\s*\(\s*val\s*\)\s*\}\s*else\s*\{\s*serde_json::(\w+)\s*\(\s*val\s*\)\s*\}", body)
        dm = re.search(r'get::<bool>\("pretty"\)\?\s*\.unwrap_or\((true|false)\)', body)
        names = {"to_string": "false", "to_string_pretty": "true"}
        if not (m and dm and m.group(1) in names and m.group(2) in names):
            ctx.missing("json.rs: json_encode pretty/compact selection")
        else:
            out.append("")
            out.append("(* pretty kwarg => does serde_json use its PrettyFormatter *)")
            out.append(f"Definition json_pretty_table : list (bool * bool) := [(true, {names[m.group(1)]}); (false, {names[m.group(2)]})].")
            out.append(f"Definition json_default_pretty : bool := {dm.group(1)}.")
    return "CodecTables", "\n".join(out) + "\n"
