"""Limits and the escape_html byte map."""
import re


def gen(ctx):
    out = ["From Coq Require Import List ZArith NArith.", "Import ListNotations.", "Open Scope Z_scope.", ""]
    parser = ctx.read("tera/src/parsing/parser.rs")
    interp = ctx.read("tera/src/vm/interpreter.rs")
    funcs = ctx.read("tera/src/functions.rs")
    for name, src, path in [("MAX_RECURSION_DEPTH", parser, "parser.rs"), ("MAX_DIMENSION_ARRAY", parser, "parser.rs"),
                            ("MAX_NUM_LEFT_BRACKETS", parser, "parser.rs"),
                            ("MAX_COMPONENT_RECURSION_DEPTH", interp, "interpreter.rs"),
                            ("MAX_RANGE_LEN", funcs, "functions.rs")]:
        v = ctx.const_int(src, name, path)
        if v is not None:
            out.append(f"Definition {name.lower()} : Z := {v}.")
    out.append("")
    state = ctx.read("tera/src/vm/state.rs")
    m = re.search(r'static\s+MAGICAL_DUMP_VAR\s*:\s*&str\s*=\s*"([^"\\]*)"\s*;', state)
    if not m:
        ctx.missing("state.rs: MAGICAL_DUMP_VAR")
    else:
        out.append("Definition magical_dump_var : list N := [" + "; ".join(str(ord(c)) for c in m.group(1)) + "]%N.")
    out.append("")
    utils = ctx.read("tera/src/utils.rs")
    body = ctx.fn_body(utils, "escape_html", "utils.rs")
    if body is not None:
        arms = re.findall(r"b'(\\?.)'\s*=>\s*buf\.write_all\(b\"([^\"]*)\"\)", body)
        if not arms:
            ctx.missing("utils.rs: escape_html arms")
        else:
            ents = []
            for ch, rep in arms:
                c = ch[-1]
                ents.append(f"({ord(c)}%N, [{'; '.join(str(b) for b in rep.encode())}]%N)")
            out.append("Definition escape_html_map : list (N * list N) := [" + "; ".join(ents) + "].")
    return "Tables", "\n".join(out) + "\n"
