"""C06: the parser limits introduced by the D11 repair (fixes/D11-ast-depth.patch). They are
OPTIONAL: on a tree without the repair the definitions are `None` and the model
(coq/Model/ParseDepth.v, cfg_tree) then describes a parser without those checks, so the
correspondence keeps following whatever the working tree contains. The three limits that have
always existed (MAX_RECURSION_DEPTH, MAX_DIMENSION_ARRAY, MAX_NUM_LEFT_BRACKETS) come from
tables.py; here they are only re-checked for presence."""
import re


def _opt(src, name):
    m = re.search(r"const\s+" + name + r"\s*:\s*\w+\s*=\s*([0-9_]+)\s*;", src)
    return int(m.group(1).replace("_", "")) if m else None


def gen(ctx):
    parser = ctx.read("tera/src/parsing/parser.rs")
    out = ["From Coq Require Import ZArith.", "Open Scope Z_scope.", ""]
    for name in ("MAX_EXPRESSION_DEPTH", "MAX_ELIF_DEPTH"):
        v = _opt(parser, name)
        out.append(f"Definition {name.lower()} : option Z := {'None' if v is None else f'Some {v}'}.")
    # the repair is one patch: both limits or neither
    a, b = _opt(parser, "MAX_EXPRESSION_DEPTH"), _opt(parser, "MAX_ELIF_DEPTH")
    if (a is None) != (b is None):
        ctx.missing("parser.rs: only one of MAX_EXPRESSION_DEPTH / MAX_ELIF_DEPTH is defined")
    # where the checks sit (a limit that is declared but never compared would be dead)
    if a is not None and not re.search(r">\s*MAX_EXPRESSION_DEPTH", parser):
        ctx.missing("parser.rs: MAX_EXPRESSION_DEPTH is never compared against")
    if b is not None and not re.search(r">\s*MAX_ELIF_DEPTH", parser):
        ctx.missing("parser.rs: MAX_ELIF_DEPTH is never compared against")
    for name in ("MAX_RECURSION_DEPTH", "MAX_DIMENSION_ARRAY", "MAX_NUM_LEFT_BRACKETS"):
        if not re.search(r">\s*" + name, parser):
            ctx.missing(f"parser.rs: {name} is never compared against")
    return "ParseLimits", "\n".join(out) + "\n"
