"""C01: the arms of `Value::is_safe` (value/mod.rs), the variants of `ValueInner`, which built-in
filters/functions override `is_safe()` and which built-in filter/function bodies mint a safe string
themselves (`Value::safe_string` / `mark_safe`), the registration names of those, and the default
autoescape suffixes (tera.rs `impl Default for Tera`).  -> coq/Gen/SafeTables.v"""
import re

KIND = {"Undefined": "KUndefined", "None": "KNone", "Bool": "KBoolK", "U64": "KU64", "I64": "KI64",
        "U128": "KU128", "I128": "KI128", "F64": "KF64", "String": "KString", "Array": "KArray",
        "Map": "KMap", "Bytes": "KBytes"}


def nlist(s):
    return "[" + "; ".join(str(ord(c)) for c in s) + "]%N"


def gen(ctx):
    out = ["From Coq Require Import List NArith.", "From TeraV Require Import Model.Value.", "Import ListNotations.", ""]
    vsrc = ctx.read("tera/src/value/mod.rs")

    # ---- variants of ValueInner
    m = re.search(r"enum\s+ValueInner\s*\{", vsrc)
    variants = []
    if not m:
        ctx.missing("value/mod.rs: enum ValueInner")
    else:
        i = m.end(); depth = 1
        while i < len(vsrc) and depth:
            if vsrc[i] == "{": depth += 1
            elif vsrc[i] == "}": depth -= 1
            i += 1
        body = re.sub(r"//[^\n]*", "", vsrc[m.end():i - 1])
        variants = re.findall(r"^\s*([A-Z][A-Za-z0-9]*)\s*(?:\([^)]*\))?\s*,", body, re.M)
        unknown = [v for v in variants if v not in KIND]
        if unknown or len(variants) != len(KIND):
            ctx.missing(f"value/mod.rs: ValueInner variants {variants} do not match the 12 modelled kinds")

    # ---- arms of Value::is_safe
    out.append("(* how Value::is_safe treats a kind: always written raw, never, or only when the string carries the Safe kind *)")
    out.append("Inductive safe_arm := SafeAlways | SafeNever | SafeIfFlagged.")
    body = None
    mm = re.search(r"pub\s+fn\s+is_safe\s*\(\s*&self\s*\)\s*->\s*bool\s*\{", vsrc)
    if not mm:
        ctx.missing("value/mod.rs: fn is_safe")
    else:
        i = mm.end(); depth = 1
        while i < len(vsrc) and depth:
            if vsrc[i] == "{": depth += 1
            elif vsrc[i] == "}": depth -= 1
            i += 1
        body = vsrc[mm.end():i - 1]
    arms = {}
    default = None
    if body is not None:
        mb = re.search(r"match\s+&self\.inner\s*\{(.*)\}", body, re.S)
        if not mb:
            ctx.missing("value/mod.rs: is_safe is not a match on &self.inner")
        else:
            for pat, rhs in re.findall(r"([^=>,{}][^=>{}]*?)=>\s*([^,]+),", mb.group(1)):
                pat = pat.strip(); rhs = rhs.strip()
                if rhs == "true":
                    arm = "SafeAlways"
                elif rhs == "false":
                    arm = "SafeNever"
                elif re.fullmatch(r"\w+\.kind\(\)\s*==\s*StringKind::Safe", rhs):
                    arm = "SafeIfFlagged"
                else:
                    ctx.missing(f"value/mod.rs: is_safe arm `{pat} => {rhs}` has an unknown shape")
                    continue
                if pat == "_":
                    default = arm
                    continue
                for alt in pat.split("|"):
                    mv = re.match(r"\s*ValueInner::([A-Za-z0-9]+)", alt)
                    if not mv or mv.group(1) not in KIND:
                        ctx.missing(f"value/mod.rs: is_safe pattern `{alt.strip()}`")
                    else:
                        arms[mv.group(1)] = arm
            missing = [v for v in KIND if v not in arms]
            if missing and default is None:
                ctx.missing(f"value/mod.rs: is_safe has no arm for {missing}")
    if arms or default:
        out.append("Definition is_safe_arm (k : vkind) : safe_arm :=")
        out.append("  match k with")
        for v, c in KIND.items():
            out.append(f"  | {c} => {arms.get(v, default or 'SafeNever')}")
        out.append("  end.")
        if any(a == "SafeIfFlagged" and v != "String" for v, a in arms.items()):
            ctx.missing("value/mod.rs: is_safe consults the string kind of a non-string variant")
    out.append("")

    # ---- built-ins overriding is_safe / minting safe strings themselves
    tera = ctx.read("tera/src/tera.rs")
    regs = re.findall(r'self\.register_(filter|function)\(\s*"([^"]+)"\s*,\s*crate::(\w+)::(\w+)\s*\)', tera)
    if not regs:
        ctx.missing("tera.rs: built-in registration list")
    overrides, minting = [], []
    for modname in ("filters", "functions"):
        src = ctx.read(f"tera/src/{modname}.rs")
        # `impl ... Filter/Function<...> for X { ... fn is_safe ... }` other than the blanket impl's absence of it
        for im in re.finditer(r"impl\b[^{;]*\b(?:Filter|Function)\s*<[^{;]*\bfor\s+(\w+)[^{;]*\{", src):
            i = im.end(); depth = 1
            while i < len(src) and depth:
                if src[i] == "{": depth += 1
                elif src[i] == "}": depth -= 1
                i += 1
            if re.search(r"fn\s+is_safe\b", src[im.end():i - 1]):
                overrides.append((modname, im.group(1)))
        for fm in re.finditer(r"pub\(crate\)\s+fn\s+(\w+)\b[^{;]*\{", src):
            i = fm.end(); depth = 1
            while i < len(src) and depth:
                if src[i] == "{": depth += 1
                elif src[i] == "}": depth -= 1
                i += 1
            if re.search(r"\bsafe_string\s*\(|\bmark_safe\s*\(", src[fm.end():i - 1]):
                minting.append((modname, fm.group(1)))
    by_fn = {(mod, fn): (kind, name) for kind, name, mod, fn in regs}
    names_over = [by_fn[k][1] for k in overrides if k in by_fn] + [f"<{m}::{t}>" for (m, t) in overrides if (m, t) not in by_fn]
    names_mint = [by_fn[k][1] for k in minting if k in by_fn]
    out.append("(* registered built-in filters/functions whose type overrides is_safe() *)")
    out.append("Definition builtin_is_safe_overrides : list (list N) := [" + "; ".join(nlist(n) for n in names_over) + "].")
    out.append("(* registered built-ins whose body itself returns Value::safe_string / mark_safe *)")
    out.append("Definition builtin_minting : list (list N) := [" + "; ".join(nlist(n) for n in names_mint) + "].")
    out.append("Definition builtin_filter_names : list (list N) := [" + "; ".join(nlist(n) for k, n, _, _ in regs if k == "filter") + "].")
    out.append("Definition builtin_function_names : list (list N) := [" + "; ".join(nlist(n) for k, n, _, _ in regs if k == "function") + "].")
    out.append("")

    # ---- default autoescape suffixes
    md = re.search(r"autoescape_suffixes\s*:\s*vec!\[(.*?)\]", tera, re.S)
    if not md:
        ctx.missing("tera.rs: default autoescape_suffixes")
    else:
        sfx = re.findall(r'"([^"\\]*)"', md.group(1))
        out.append("Definition default_autoescape_suffixes : list (list N) := [" + "; ".join(nlist(s) for s in sfx) + "].")
    return "SafeTables", "\n".join(out) + "\n"
