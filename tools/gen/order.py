"""Rank tables used by the orderings (C15/C16): `type_order` inside `impl Ord for Value`
(value/mod.rs), `type_order` of `Ord for Key` (value/key.rs) and ATTR_SCAN_CUTOFF of
`Value::get_attr` (default feature set, i.e. the `not(feature = "preserve_order")` constant)."""
import re

VKIND = {"Undefined": "KUndefined", "None": "KNone", "Bool": "KBoolK", "U64": "KU64", "I64": "KI64",
         "U128": "KU128", "I128": "KI128", "F64": "KF64", "String": "KString", "Array": "KArray",
         "Map": "KMap", "Bytes": "KBytes"}
KKIND = ["Bool", "U64", "I64", "U128", "I128", "String", "Str"]


def arms(body, prefix):
    """[(variant, rank)] from `P::A(_) | P::B(_) => n,` arms"""
    out = []
    for pats, rank in re.findall(r"((?:" + prefix + r"::\w+\s*(?:\([^)]*\))?\s*\|?\s*)+)=>\s*(\d+)\s*,", body):
        for v in re.findall(prefix + r"::(\w+)", pats):
            out.append((v, int(rank)))
    return out


def gen(ctx):
    out = ["From Coq Require Import List ZArith NArith.", "From TeraV Require Import Model.Value.",
           "Import ListNotations.", ""]
    vsrc = ctx.read("tera/src/value/mod.rs")
    ksrc = ctx.read("tera/src/value/key.rs")

    # --- Ord for Value: fallback rank per kind
    body = ctx.fn_body(vsrc, "type_order", "value/mod.rs")
    if body is not None:
        a = arms(body, "ValueInner")
        seen = [v for v, _ in a]
        if not a or len(set(seen)) != len(seen) or any(v not in VKIND for v in seen):
            ctx.missing("value/mod.rs: type_order arms (unparsed or unknown variant)")
        else:
            out.append("(* value/mod.rs `fn type_order(v: &ValueInner) -> u8` inside `impl Ord for Value` *)")
            out.append("Definition value_type_order (k : vkind) : N :=")
            out.append("  match k with")
            for v, r in a:
                out.append(f"  | {VKIND[v]} => {r}%N")
            out.append("  end.")
            out.append("")

    # --- Ord for Key: fallback rank per key kind
    kbody = ctx.fn_body(ksrc, "type_order", "value/key.rs")
    out.append("Inductive keykind := " + " | ".join("Kk" + k for k in KKIND) + ".")
    if kbody is not None:
        a = arms(kbody, "Key")
        seen = [v for v, _ in a]
        if not a or len(set(seen)) != len(seen) or any(v not in KKIND for v in seen):
            ctx.missing("value/key.rs: type_order arms (unparsed or unknown variant)")
        else:
            out.append("(* value/key.rs `fn type_order(key: &Key<'_>) -> u8` *)")
            out.append("Definition key_type_order (k : keykind) : N :=")
            out.append("  match k with")
            for v, r in a:
                out.append(f"  | Kk{v} => {r}%N")
            out.append("  end.")
            out.append("")

    # --- get_attr: scan/hash cutoff of the default feature set
    m = re.search(r'#\[cfg\(not\(feature\s*=\s*"preserve_order"\)\)\]\s*const\s+ATTR_SCAN_CUTOFF\s*:\s*usize\s*=\s*([0-9_]+)\s*;', vsrc)
    if not m:
        ctx.missing("value/mod.rs: const ATTR_SCAN_CUTOFF (default features)")
    else:
        out.append("(* value/mod.rs Value::get_attr, #[cfg(not(feature = \"preserve_order\"))] *)")
        out.append(f"Definition attr_scan_cutoff : nat := {int(m.group(1).replace('_', ''))}.")
    return "OrderTables", "\n".join(out) + "\n"
