#!/bin/sh
# usage: tools/quickseed.sh <seed id> <harness bin> [tier]
# Fast, implementation-side only: builds one harness binary against a scratch worktree of /repo
# with the seeded patch applied and runs it; prints the number of oracle failures. The Coq side is
# not run (use tools/seedtest for the real verdict). Never touches /repo.
set -e
sid=$1; bin=$2; tier=${3:-quick}
V=$(cd "$(dirname "$0")/.." && pwd)
R=/tmp/qs/repo; H=/tmp/qs/harness
mkdir -p /tmp/qs
[ -d $R ] || git -C /repo worktree add -q --detach $R HEAD
git -C $R checkout -q --detach "$(git -C /repo rev-parse HEAD)"; git -C $R checkout -q -- .
git -C $R apply $V/seeded/$sid/patch.diff
rm -rf $H/src; mkdir -p $H; cp -r $V/harness/src $V/harness/.cargo $H/ 2>/dev/null || true
sed "s#/repo/tera#$R/tera#g" $V/harness/Cargo.toml > $H/Cargo.toml
cp /repo/Cargo.lock $H/Cargo.lock
(cd $H && CARGO_TARGET_DIR=/tmp/qs/target CARGO_NET_OFFLINE=true cargo build --offline --release --bin $bin 2>&1 | grep -E '^error' -A10 || true)
rm -rf /tmp/qs/out; (cd $V && timeout 1500 /tmp/qs/target/release/$bin --tier $tier --seed 1 --out /tmp/qs/out > /tmp/qs/run.log 2>&1) || echo "harness rc=$?"
python3 - <<'PY'
import json,os
p='/tmp/qs/out/meta.json'
if not os.path.exists(p): print('no meta.json (harness died)'); raise SystemExit
m=json.load(open(p))
import re
known=set(re.findall(r'^finding:\s+property=\S+\s+key=(\S+)', open(os.environ.get('V','/verif')+'/KNOWN_FINDINGS.txt').read(), re.M))
new=[f for f in m['oracle_failures'] if f.get('kf') not in known]
print('oracle checks',m['oracle_checks'],'failures',len(m['oracle_failures']),'not known findings',len(new))
for f in new[:3]: print('  ',json.dumps(f)[:600])
PY
git -C $R checkout -q -- .
