#!/usr/bin/env python3
"""Record the content hashes of the source files each property is anchored in (properties.jsonl ->
anchors.files) for the current /repo working tree into tools/source_fingerprint.json.

Run after every commit to /repo (hooks, fix: commits) together with the regeneration of the
evidence files. tools/check compares the hashes on every run: a difference never is a verdict by
itself, it only makes the quick tier add the thorough generators as a second search pass
(DESIGN 15.1)."""
import hashlib, json, os, subprocess
ROOT = os.path.dirname(os.path.dirname(os.path.abspath(__file__)))
REPO = os.environ.get("VERIF_REPO", "/repo")
anchors, files = {}, {}
for line in open(f"{ROOT}/properties.jsonl"):
    d = json.loads(line)
    fl = [f for f in d["anchors"]["files"] if os.path.isfile(os.path.join(REPO, f))]
    anchors[d["id"]] = sorted(fl)
    for f in fl:
        files[f] = hashlib.sha256(open(os.path.join(REPO, f), "rb").read()).hexdigest()
head = subprocess.run(["git", "-C", REPO, "rev-parse", "HEAD"], capture_output=True, text=True).stdout.strip()
json.dump({"repo_head": head, "anchors": anchors, "files": dict(sorted(files.items()))},
          open(f"{ROOT}/tools/source_fingerprint.json", "w"), indent=1, sort_keys=True)
print(f"{len(files)} files fingerprinted at {head[:7]}")
