(* C07 — Rendering accepted templates never panics; all references checked at add time; the
   evaluation, loop and capture stacks are empty after a successful render.
   Statements only; proofs in Proofs/StackCheckProofs.v, Proofs/StackCheckSlice.v,
   Proofs/FormatUtf8.v.

   Shape of the argument. Model/StackCheck.v defines a validator for compiled chunks
   (check_chunk: abstract interpretation of the three stacks over the control-flow graph) and
   for references (refs_resolved), and world_checked = every chunk of every template (main,
   root, block lineage) and every component chunk passes both. The theorems below say: in a
   world that passes, NO run of the VM model — whole template, one block, one component, with
   any context, any writer, any depth of include/component/super nesting, any fuel — ends in
   the panic class (ErrPanic: popping or peeking an empty stack, `kwargs.into_map().expect`,
   the `unreachable!` of AppendToList, EndCapture without Capture, a missing
   filter/test/function/component table entry, the lineage lookup of super(), an index out of
   bounds in get_item / slice, an empty LoadPath / WritePath) nor in TemplateNotFound
   (ErrOther), and every normal termination leaves the three stacks as they were on entry —
   empty for the entry points. The hypotheses are decidable and are evaluated by coqc on the
   REAL chunks of every corpus and generated template (Corr/CorrC07.v, families chk and wld),
   before and after the peephole pass, on every run. *)
From TeraV Require Import Model.Value Model.Instr Model.Slice Model.VFormat Model.VM Model.World0 Model.StackCheck
  Proofs.StackCheckSlice Proofs.StackCheckProofs Proofs.FormatUtf8 Proofs.CompileChecks Proofs.StackCheckWorld0 Proofs.StackCheckDepth.
From TeraV Require Import Spec.Stmt Model.Compile Proofs.CompileAlwaysChecks.
Local Open Scope nat_scope.

(* ---------- the validator is sound: entry points ---------- *)

(* VirtualMachine::render_to, block = None (Tera::render) or Some b (Tera::render_block) *)
Theorem C07_render_sound :
  forall (W : Type) (wr : W -> str -> option W) (wd : world) (reg : registry),
  world_respects wd reg -> world_checked reg wd = true ->
  forall fuel tpl block c g w,
  template_good reg wd tpl = true ->
  match render_to W wr wd fuel tpl block c g w with
  | RFail e => e <> ErrPanic /\ e <> ErrOther
  | ROutOfFuel => True
  | RDone s' _ => stack s' = [] /\ loops s' = [] /\ caps s' = []
  end.
Proof. exact render_sound. Qed.

(* every template of a validated world satisfies the hypothesis of C07_render_sound *)
Theorem C07_world_templates_good :
  forall (wd : world) (reg : registry), world_checked reg wd = true ->
  forall n t, assoc_get (w_templates wd) n = Some t -> template_good reg wd t = true.
Proof. exact world_tpl. Qed.

(* Tera::render_component_to *)
Theorem C07_component_sound :
  forall (W : Type) (wr : W -> str -> option W) (wd : world) (reg : registry),
  world_respects wd reg -> world_checked reg wd = true ->
  forall fuel tpl ae name def cchunk cctx w,
  template_good reg wd tpl = true -> assoc_get (w_components wd) name = Some (def, cchunk) ->
  match run W wr wd fuel tpl ae 0 cchunk 0 (new_state cctx) (SinkTop w) with
  | RFail e => e <> ErrPanic /\ e <> ErrOther
  | ROutOfFuel => True
  | RDone s' _ => stack s' = [] /\ loops s' = [] /\ caps s' = []
  end.
Proof. exact component_sound. Qed.

(* ---------- the validator is sound: one chunk, any State ---------- *)

(* check_chunk_sound: a validated chunk started on ANY State (whatever its three stacks hold:
   block chunks and super() run on the caller's State) never reaches the panic class, and on
   normal termination the value stack is exactly what it was, the loop stack has the same
   frames with the same end_ip, the capture stack the same height, and the block bookkeeping
   is restored. Nested runs (include / component / block / super) are covered by the same
   theorem through world_checked: this is the mutual induction on fuel over the whole world. *)
Theorem C07_check_chunk_sound :
  forall (W : Type) (wr : W -> str -> option W) (wd : world) (reg : registry),
  world_respects wd reg -> world_checked reg wd = true ->
  forall fuel tpl ae depth c s o,
  template_good reg wd tpl = true ->
  check_chunk c = true -> refs_resolved reg wd c = true ->
  blocks_good wd reg s ->
  match run W wr wd fuel tpl ae depth c 0 s o with
  | RFail e => e <> ErrPanic /\ e <> ErrOther
  | ROutOfFuel => True
  | RDone s' o' =>
      stack s' = stack s /\ map lf_end_ip (loops s') = map lf_end_ip (loops s) /\
      length (caps s') = length (caps s) /\ blocks s' = blocks s /\ cur_block s' = cur_block s
  end.
Proof. exact check_chunk_sound. Qed.

(* the invariant itself: at every ip the three stacks have the shape the table records
   (relative to the entry heights); check_table is what is trusted, infer is only a heuristic *)
Theorem C07_table_invariant :
  forall (W : Type) (wr : W -> str -> option W) (wd : world) (reg : registry),
  world_respects wd reg -> world_checked reg wd = true ->
  forall fuel tpl ae depth ch tbl ip a s o bv bl bc,
  template_good reg wd tpl = true -> table_ok ch tbl -> refs_resolved reg wd ch = true ->
  nth_error tbl ip = Some (Some a) -> Inv bv bl bc a s -> blocks_good wd reg s ->
  Post W bv bl bc s o (run W wr wd fuel tpl ae depth ch ip s o).
Proof. exact run_sound. Qed.

(* ---------- refs_collected: resolved references are never "not registered" ---------- *)

(* the model's lookup failures are exactly these two classes, so C07_render_sound /
   C07_check_chunk_sound already exclude them; stated separately per instruction: a chunk whose
   references resolve contains no ApplyFilter / RunTest / CallFunction / Render*Component /
   Include whose name is missing from the registries *)
Theorem C07_refs_collected :
  forall (wd : world) (reg : registry), world_respects wd reg ->
  forall c, refs_resolved reg wd c = true ->
  forall ip i, nth_error c ip = Some i ->
  match i with
  | ApplyFilter n => forall v k sc, w_filter wd n v k sc <> None
  | RunTest n => forall v k, w_test wd n v k <> None
  | CallFunction n => n = s_super \/ forall k sc, w_function wd n k sc <> None
  | RenderInlineComponent n | RenderBodyComponent n => assoc_get (w_components wd) n <> None
  | Include n => assoc_get (w_templates wd) n <> None
  | _ => True
  end.
Proof. exact refs_collected. Qed.

(* ---------- indexing and slicing can not panic (any length, any operand kind) ---------- *)

Theorem C07_index_never_panics : forall v item, get_item_seq v item <> RErr ErrPanic.
Proof. exact get_item_seq_no_panic. Qed.

Theorem C07_slice_never_panics : forall opt v a b c, vm_slice opt v a b c <> RErr ErrPanic.
Proof. exact vm_slice_no_panic. Qed.

(* ---------- the component recursion guard sees recursion through includes ---------- *)

(* Include hands run's component_recursion_depth to the included template unchanged ... *)
Theorem C07_include_keeps_depth :
  forall (W : Type) (wr : W -> str -> option W) (wd : world) f tpl ae depth ch ip s o n t2,
  nth_error ch ip = Some (Include n) -> assoc_get (w_templates wd) n = Some t2 -> caps s = [] ->
  run W wr wd (S f) tpl ae depth ch ip s o =
  match run W wr wd f t2 ae depth (t_root_chunk t2) 0 (include_state s) o with
  | RDone _ o1 => run W wr wd f tpl ae depth ch (S ip) s o1
  | RFail e => RFail e
  | ROutOfFuel => ROutOfFuel
  end.
Proof. exact include_keeps_depth. Qed.

(* ... and a component call at the limit starts no nested run: it is an error value. So no run
   is ever nested deeper than w_max_depth component calls, however includes are interleaved
   (trace-level statement: C05_depth_bounded). *)
Theorem C07_component_guard :
  forall (W : Type) (wr : W -> str -> option W) (wd : world) f tpl ae depth ch ip s o i n,
  nth_error ch ip = Some i -> i = RenderInlineComponent n \/ i = RenderBodyComponent n ->
  w_max_depth wd < S depth ->
  exists e, run W wr wd (S f) tpl ae depth ch ip s o = RFail e.
Proof. exact component_guard. Qed.

(* ---------- format_is_utf8 ---------- *)

(* Everything Value::format writes is made of scalars that occur in the strings inside the
   value (string payloads, string keys, bytes that the model prints as they are) or of ASCII
   characters: no byte-level splicing can produce an invalid sequence. Same for the escaper. *)
Theorem C07_format_is_utf8 : forall v c,
  In c (format_value v) -> In c (value_scalars v) \/ (c < 128)%N.
Proof. exact format_value_scalars. Qed.

Theorem C07_escape_is_utf8 : forall s c,
  In c (escape_html s) -> In c s \/ (c < 128)%N.
Proof. exact escape_html_scalars. Qed.

(* what is finally written for a value: format, then possibly the escaper *)
Theorem C07_written_is_utf8 : forall v c,
  In c (escape_html (format_value v)) -> In c (value_scalars v) \/ (c < 128)%N.
Proof. exact written_scalars. Qed.

(* ---------- second tier: the validator accepts what the compiler emits ---------- *)

(* compile_always_checks over the SHARED compiler port Model/Compile.v (tied to the real compiler
   by C03's `compile` correspondence: model listing = real listing before optimisation), for its
   whole language. Statements: text, print, if/elif/else, for with key and else, set /
   set_global, set blocks with filter chains, filter sections, include, break, continue.
   Expressions: constants, variables, loop fields, attributes (plain and optional `?.`),
   not / and / or, every binary operator (+ - * / // % ** < <= > >= == != ~ in; `not in` is
   not (.. in ..)), unary minus, the ternary, subscripts and slices (plain and optional, every
   combination of absent slice operands), tests, filters and function calls with keyword
   arguments, array and map literals with spreads.
   For EVERY statement list whose break/continue stand where the parser allows them (brk_body:
   only inside a for body and not across a capture; NO condition on expressions, names or
   includes), the compiled chunk has a table check_table accepts. Proved by induction on
   expressions and statements with the invariant "a statement leaves (value stack, loop stack,
   capture count) as it found it; an expression pushes one slot", merge points of
   if/and/or/ternary, Iterate / Jump / Break / Continue resolved to the loop's positions
   (Proofs/CompileFrag.v, Proofs/CompileAlwaysChecks.v). The former local-port theorem
   C07_compile_always_checks_partial is subsumed and removed. Not covered because
   Model/Compile.v does not have them: list comprehensions, component calls, blocks /
   inheritance, macros-like forms; those are validated per real chunk by family chk. *)
Theorem C07_compile_always_checks : forall ss : list Stmt.stmt,
  brk_body ss = true -> exists tbl, check_table (compile ss) a_empty tbl = true.
Proof. exact compile_always_checks. Qed.

(* the same for the trees C03's compile_correct is about (wf_body implies brk_body) *)
Theorem C07_compile_always_checks_wf : forall okn (ss : list Stmt.stmt),
  wf_body okn ss = true -> exists tbl, check_table (compile ss) a_empty tbl = true.
Proof. exact compile_always_checks_wf. Qed.

(* closed theorem about the compiler model: compiled code of this language, run on any State in
   a validated world, never reaches a panic site and ends with the three stacks as on entry *)
Theorem C07_compiled_code_sound :
  forall (W : Type) (wr : W -> str -> option W) (wd : world) (reg : registry),
  world_respects wd reg -> world_checked reg wd = true ->
  forall ss : list Stmt.stmt, brk_body ss = true -> refs_resolved reg wd (compile ss) = true ->
  forall fuel tpl ae depth s o,
  template_good reg wd tpl = true -> blocks_good wd reg s ->
  match run W wr wd fuel tpl ae depth (compile ss) 0 s o with
  | RFail e => e <> ErrPanic /\ e <> ErrOther
  | ROutOfFuel => True
  | RDone s' o' =>
      stack s' = stack s /\ map lf_end_ip (loops s') = map lf_end_ip (loops s) /\
      length (caps s') = length (caps s) /\ blocks s' = blocks s /\ cur_block s' = cur_block s
  end.
Proof. exact compiled_sound. Qed.

(* ... and that is enough: a chunk with ANY accepted table is sound (infer is only a heuristic) *)
Theorem C07_table_sound :
  forall (W : Type) (wr : W -> str -> option W) (wd : world) (reg : registry),
  world_respects wd reg -> world_checked reg wd = true ->
  forall fuel tpl ae depth c tbl s o,
  template_good reg wd tpl = true ->
  check_table c a_empty tbl = true -> refs_resolved reg wd c = true -> blocks_good wd reg s ->
  match run W wr wd fuel tpl ae depth c 0 s o with
  | RFail e => e <> ErrPanic /\ e <> ErrOther
  | ROutOfFuel => True
  | RDone s' o' =>
      stack s' = stack s /\ map lf_end_ip (loops s') = map lf_end_ip (loops s) /\
      length (caps s') = length (caps s) /\ blocks s' = blocks s /\ cur_block s' = cur_block s
  end.
Proof. exact table_sound. Qed.

Print Assumptions C07_render_sound.
Print Assumptions C07_compile_always_checks.
Print Assumptions C07_compile_always_checks_wf.
Print Assumptions C07_compiled_code_sound.
Print Assumptions C07_component_sound.
Print Assumptions C07_check_chunk_sound.
Print Assumptions C07_written_is_utf8.

(* ---------- non-vacuity ---------- *)

(* a real listing: `{% for i in a.x %}{{ i.y }}{% endfor %}` after the peephole pass *)
Example C07_ex_loop :
  check_chunk [LoadPath [[97%N]; [120%N]]; StartIterate false; StoreLocal [105%N]; Iterate 6;
               WritePath [[105%N]; [121%N]]; Jump 3; PopLoop] = true.
Proof. vm_compute. reflexivity. Qed.

(* break inside if inside for, with for-else: Break is resolved to the Iterate target *)
Example C07_ex_break :
  check_chunk [LoadName [97%N]; StartIterate false; StoreLocal [105%N]; Iterate 8; LoadName [105%N];
               PopJumpIfFalse 7; Break; Jump 3; StoreDidNotIterate; PopLoop; PopJumpIfFalse 12;
               WriteText [101%N]] = true.
Proof. vm_compute. reflexivity. Qed.

(* what the validator rejects: a capture left open by a break, an extra pop, a missing PopLoop
   on one path, a filter applied without its kwargs map, AppendToList below a non-array *)
Example C07_ex_rejects :
  check_chunk [LoadName [97%N]; StartIterate false; StoreLocal [105%N]; Iterate 7; Capture; Break;
               Jump 3; PopLoop] = false /\
  check_chunk [LoadName [97%N]; WriteTop; WriteTop] = false /\
  check_chunk [LoadName [97%N]; StartIterate false; StoreLocal [105%N]; Iterate 6; LoadName [105%N];
               PopJumpIfFalse 7; PopLoop] = false /\
  check_chunk [LoadName [97%N]; LoadName [98%N]; ApplyFilter [102%N]; WriteTop] = false /\
  check_chunk [LoadName [97%N]; LoadName [98%N]; AppendToList; WriteTop] = false /\
  check_chunk [LoadName [97%N]] = false.
Proof. vm_compute. repeat split. Qed.

(* the hypotheses of the soundness theorems are satisfiable: a world of two templates
   (`{% for i in a.x %}{{ i.y | upper }}{% else %}{% include "u" %}{% endfor %}` and `<x>`)
   over World0's built-ins passes world_checked, respects its registry, and renders *)
Definition ex_chunk : list instr :=
  [LoadPath [[97%N]; [120%N]]; StartIterate false; StoreLocal [105%N]; Iterate 9;
   LoadPath [[105%N]; [121%N]]; BuildMap 0; ApplyFilter n_upper; WriteTop; Jump 3;
   StoreDidNotIterate; PopLoop; PopJumpIfFalse 13; Include [117%N]].
Definition ex_t : template :=
  {| t_name := [116%N]; t_chunk := ex_chunk; t_root_chunk := ex_chunk; t_lineage := []; t_autoescape := true |}.
Definition ex_u : template :=
  {| t_name := [117%N]; t_chunk := [WriteText [60%N; 120%N; 62%N]]; t_root_chunk := [WriteText [60%N; 120%N; 62%N]];
     t_lineage := []; t_autoescape := true |}.
Definition ex_world : world := world0 [([116%N], ex_t); ([117%N], ex_u)].

Example C07_ex_world :
  world_checked reg0 ex_world = true /\ world_respects ex_world reg0 /\
  (* text: "Q&lt;" — upper-cased and escaped *)
  (exists s, render_to str wr_str ex_world 100 ex_t None
     [([97%N], VMap [(KStr [120%N] true, VArr [VMap [(KStr [121%N] true, VStr [113%N; 60%N] false)]])])] [] []
     = RDone s (SinkTop [81%N; 38%N; 108%N; 116%N; 59%N])) /\
  (* the else branch includes the other template *)
  (exists s, render_to str wr_str ex_world 100 ex_t None [([97%N], VMap [(KStr [120%N] true, VArr [])])] [] []
     = RDone s (SinkTop [60%N; 120%N; 62%N])) /\
  (* an error value, not a panic, when `a` is missing *)
  render_to str wr_str ex_world 100 ex_t None [] [] [] = RFail ErrRender.
Proof.
  split; [vm_compute; reflexivity|split; [apply world0_respects|]].
  split; [eexists; vm_compute; reflexivity|]. split; [eexists; vm_compute; reflexivity|]. vm_compute. reflexivity.
Qed.

(* Model/Compile.v on `{% for i in a %}{% if i %}{% break %}{% endif %}{% set s | upper %}x{% endset %}
   {% else %}e{% endfor %}`: well formed, and the inferred table is accepted too *)
Example C07_ex_compile_model :
  let ss := [SFor None [105%N] (EVar [97%N])
               [SIf (EVar [105%N]) [SBreak] [];
                SSetBlock false [115%N] [SText [120%N]] [([117%N;112%N;112%N;101%N;114%N], [])]]
               [SText [101%N]]] in
  wf_body (fun _ => true) ss = true /\ check_chunk (compile ss) = true /\ length (compile ss) = 18.
Proof. vm_compute. repeat split. Qed.

(* the extended expression forms: `{{ (a[1:] if -n < 2 else [x, ...b]) ~ f(k={"k": c?.d, ...m}) }}` compiles
   to a chunk the validator accepts, with no well-formedness side condition on the expressions *)
Example C07_ex_compile_ext :
  let v (c : N) := EVar [c] in
  let ss := [SPrint (EBin BConcat
               (ETernary (EBin BLt (ENeg (v 110%N)) (EConst (VInt I64 2)))
                         (ESlice false (v 97%N) (Some (EConst (VInt I64 1))) None None)
                         (EArr [(false, v 120%N); (true, v 98%N)]))
               (ECall [102%N] [([107%N], EMap [(Some (VStr [107%N] false), EAttrOpt (v 99%N) [100%N]); (None, v 109%N)])]))] in
  brk_body ss = true /\ check_chunk (compile ss) = true /\ length (compile ss) = 24.
Proof. vm_compute. repeat split. Qed.

(* and the VM model really panics on such chunks: the class the theorems exclude is inhabited *)
Example C07_ex_panic_is_real :
  run str wr_str (world0 []) 5
      {| t_name := []; t_chunk := []; t_root_chunk := []; t_lineage := []; t_autoescape := false |}
      None 0 [WriteTop] 0 (new_state []) (SinkTop []) = RFail ErrPanic.
Proof. vm_compute. reflexivity. Qed.
