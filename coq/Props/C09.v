(* C09 — Bytecode optimisation never changes what a template renders.
   Structural half (this file, first three theorems) and behavioural half (simulation on the
   abstract VM, Proofs/OptimizeSim.v). *)
From TeraV Require Import Model.Value Model.Instr Model.Optimize Proofs.OptimizeProofs.
Local Open Scope nat_scope.

(* For every chunk without fused instructions whose jump targets are <= its length:
   optimize succeeds (no out-of-bounds index_map access); expanding every LoadPath/WritePath of
   the result gives back the original instruction sequence, jumps re-pointed to the group that
   starts exactly at their old target; every jump target (and one-past-the-end) is the first
   instruction of its group, i.e. no merged group contains an instruction some jump targets. *)
Theorem C09_optimize_structure : forall p,
  unfused p -> targets_in_range p ->
  exists o, optimize p = Some o /\
    Forall2 (rel (map fst o)) (expand (map fst o)) (map fst p) /\
    (forall t, t <= length p -> (t = length p \/ is_jump_target p t = true) -> is_start (map fst o) t) /\
    length (expand (map fst o)) = length p.
Proof. exact optimize_structure. Qed.

(* index_map[t] is the new index of the group starting at t *)
Theorem C09_index_map_at_group_start : forall o olen n,
  n <= length o -> nth_error (imap_of olen o) (group_start o n) = Some (olen + n).
Proof. exact imap_at_start. Qed.

(* the two hypotheses are decidable and are evaluated on every real chunk by Corr/CorrC09.v *)
Theorem C09_hypotheses_decidable : forall p,
  unfusedb p = true -> targets_in_rangeb p = true -> unfused p /\ targets_in_range p.
Proof. intros p H1 H2. split; [exact (unfusedb_ok p H1)|exact (targets_in_rangeb_ok p H2)]. Qed.

Print Assumptions C09_optimize_structure.
Print Assumptions C09_index_map_at_group_start.

(* non-vacuity: `{{ false and user.name }}` — the WriteTop is a jump target and is not fused *)
Example C09_ex_short_circuit :
  optimize [(LoadConst (VBool false), [0%N]); (JumpIfFalseOrPop 4, []); (LoadName [117%N], [1%N]);
            (LoadAttr [110%N], [2%N]); (WriteTop, [3%N])]
  = Some [(LoadConst (VBool false), [0%N]); (JumpIfFalseOrPop 3, []);
          (LoadPath [[117%N]; [110%N]], [1%N; 2%N]); (WriteTop, [3%N])].
Proof. vm_compute. reflexivity. Qed.

Example C09_ex_write_path :
  optimize [(LoadName [117%N], [1%N]); (LoadAttr [110%N], [2%N]); (WriteTop, [3%N]); (Jump 0, [])]
  = Some [(WritePath [[117%N]; [110%N]], [1%N; 2%N]); (Jump 0, [])].
Proof. vm_compute. reflexivity. Qed.
