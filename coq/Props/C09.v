(* C09 — Bytecode optimisation never changes what a template renders.
   Statements only; proofs in Proofs/OptimizeProofs.v (structure) and Proofs/OptimizeSim.v
   (behaviour, on an abstract VM with arbitrary semantics for every instruction the pass does
   not touch). *)
From TeraV Require Import Model.Value Model.Instr Model.Optimize Proofs.OptimizeProofs Proofs.OptimizeSim.
Local Open Scope nat_scope.

(* STRUCTURE. For every chunk without fused instructions whose jump targets are <= its length:
   optimize succeeds (no out-of-bounds index_map access); expanding every LoadPath/WritePath of
   the result gives back the original instruction sequence, jumps re-pointed to the group that
   starts exactly at their old target; every jump target (and one-past-the-end) is the first
   instruction of its group, i.e. no merged group contains an instruction some jump targets;
   fused instructions never start with the context-dump variable. *)
Theorem C09_optimize_structure : forall p,
  unfused p -> targets_in_range p ->
  exists o, optimize p = Some o /\
    Forall2 (rel (map fst o)) (expand (map fst o)) (map fst p) /\
    (forall t, t <= length p -> (t = length p \/ is_jump_target p t = true) -> is_start (map fst o) t) /\
    length (expand (map fst o)) = length p /\
    (forall g, In g (map fst o) -> is_fused g = true -> fused_shape g).
Proof. exact optimize_structure. Qed.

(* index_map[t] is the new index of the group starting at t *)
Theorem C09_index_map_at_group_start : forall o olen n,
  n <= length o -> nth_error (imap_of olen o) (group_start o n) = Some (olen + n).
Proof. exact imap_at_start. Qed.

(* BEHAVIOUR. Same final stack and opaque state (output, captures, variables), related loop
   frames, failure on one side iff failure on the other — for every abstract VM, every chunk
   meeting the three decidable side conditions, every state. *)
Theorem C09_optimize_correct :
  forall (V S : Type) (undef : V) (is_undef : V -> bool), is_undef undef = true ->
  forall (get_value : S -> str -> V) (dump : S -> V) (get_attr : V -> str -> option V),
  (forall v a, is_undef v = true -> get_attr v a = None) ->
  forall (write : V -> S -> option S) (truthy : V -> bool) (is_over : S -> bool)
         (advance : S -> bool -> S) (other : instr -> list V -> S -> option (list V * S))
         (p : chunk),
  unfused p -> targets_in_range p -> iterate_forward (map fst p) ->
  exists o, optimize p = Some o /\
    let runP := run V S undef is_undef get_value dump get_attr write truthy is_over advance other in
    let P := map fst p in let O := map fst o in
    forall st ends ends' s, ends_rel O ends ends' ->
      (forall fuel, runP fuel P 0 st ends s <> OutOfFuel V S ->
         exists fuel', out_rel V S O (runP fuel P 0 st ends s) (runP fuel' O 0 st ends' s)) /\
      (forall fuel', runP fuel' O 0 st ends' s <> OutOfFuel V S ->
         exists fuel, out_rel V S O (runP fuel P 0 st ends s) (runP fuel' O 0 st ends' s)).
Proof. exact optimize_correct. Qed.

(* the core equivalences: one fused instruction = the chain it replaces *)
Theorem C09_load_path_equiv :
  forall (V S : Type) (undef : V) (is_undef : V -> bool), is_undef undef = true ->
  forall (get_value : S -> str -> V) (dump : S -> V) (get_attr : V -> str -> option V) s n attrs,
  is_magic n = false ->
  load_path V S undef is_undef get_value dump get_attr s (n :: attrs)
  = chain V undef is_undef get_attr (load_name V S get_value dump s n) attrs.
Proof. intros. apply load_path_chain; assumption. Qed.

Theorem C09_write_path_equiv :
  forall (V S : Type) (undef : V) (is_undef : V -> bool), is_undef undef = true ->
  forall (get_value : S -> str -> V) (dump : S -> V) (get_attr : V -> str -> option V),
  (forall v a, is_undef v = true -> get_attr v a = None) ->
  forall (write : V -> S -> option S) s n attrs,
  is_magic n = false ->
  write_path V S is_undef get_value dump get_attr write s (n :: attrs)
  = match chain V undef is_undef get_attr (load_name V S get_value dump s n) attrs with
    | Some v => if is_undef v then None else write v s
    | None => None
    end.
Proof. intros. apply write_path_chain; assumption. Qed.

(* the side conditions are decidable and are evaluated on every real chunk by Corr/CorrC09.v *)
Theorem C09_hypotheses_decidable : forall p,
  unfusedb p = true -> targets_in_rangeb p = true -> iterate_forwardb (map fst p) = true ->
  unfused p /\ targets_in_range p /\ iterate_forward (map fst p).
Proof.
  intros p H1 H2 H3. split; [exact (unfusedb_ok p H1)|split].
  - exact (targets_in_rangeb_ok p H2).
  - exact (iterate_forwardb_ok _ H3).
Qed.

Print Assumptions C09_optimize_structure.
Print Assumptions C09_optimize_correct.
Print Assumptions C09_write_path_equiv.

(* non-vacuity: `{{ false and user.name }}` — the WriteTop is a jump target and is not fused *)
Example C09_ex_short_circuit :
  optimize [(LoadConst (VBool false), [0%N]); (JumpIfFalseOrPop 4, []); (LoadName [117%N], [1%N]);
            (LoadAttr [110%N], [2%N]); (WriteTop, [3%N])]
  = Some [(LoadConst (VBool false), [0%N]); (JumpIfFalseOrPop 3, []);
          (LoadPath [[117%N]; [110%N]], [1%N; 2%N]); (WriteTop, [3%N])].
Proof. vm_compute. reflexivity. Qed.

Example C09_ex_write_path :
  optimize [(LoadName [117%N], [1%N]); (LoadAttr [110%N], [2%N]); (WriteTop, [3%N]); (Jump 0, [])]
  = Some [(WritePath [[117%N]; [110%N]], [1%N; 2%N]); (Jump 0, [])].
Proof. vm_compute. reflexivity. Qed.

(* a loop with a fused body satisfies all three side conditions *)
Example C09_ex_hypotheses :
  let p := [(LoadName [97%N], []); (LoadAttr [120%N], []); (StartIterate false, []); (StoreLocal [105%N], []);
            (Iterate 9, []); (LoadName [105%N], []); (LoadAttr [121%N], []); (WriteTop, []); (Jump 4, []);
            (PopLoop, [])] in
  unfusedb p = true /\ targets_in_rangeb p = true /\ iterate_forwardb (map fst p) = true /\
  optimize p = Some [(LoadPath [[97%N]; [120%N]], []); (StartIterate false, []); (StoreLocal [105%N], []);
                     (Iterate 6, []); (WritePath [[105%N]; [121%N]], []); (Jump 3, []); (PopLoop, [])].
Proof. vm_compute. repeat split. Qed.
