(* C09 — Bytecode optimisation never changes what a template renders.
   Statements only; proofs in Proofs/OptimizeProofs.v (structure) and Proofs/OptimizeSim.v
   (behaviour, on an abstract VM with arbitrary semantics for every instruction the pass does
   not touch), Proofs/OptWorldBase.v + Proofs/OptWorldProofs.v (behaviour of a WHOLE world on the
   concrete VM of Model/VM.v, nested chunks optimised too). *)
From TeraV Require Import Model.Value Model.Instr Model.Optimize Model.VM Model.StackCheck Model.World0 Model.OptWorld
  Proofs.OptimizeProofs Proofs.OptimizeSim Proofs.OptWorldBase Proofs.OptWorldProofs.
Local Open Scope nat_scope.

(* STRUCTURE. For every chunk without fused instructions whose jump targets are <= its length:
   optimize succeeds (no out-of-bounds index_map access); expanding every LoadPath/WritePath of
   the result gives back the original instruction sequence, jumps re-pointed to the group that
   starts exactly at their old target; every jump target (and one-past-the-end) is the first
   instruction of its group, i.e. no merged group contains an instruction some jump targets;
   fused instructions never start with the context-dump variable. *)
Theorem C09_optimize_structure : forall p,
  unfused p -> targets_in_range p ->
  exists o, optimize p = Some o /\
    Forall2 (rel (map fst o)) (expand (map fst o)) (map fst p) /\
    (forall t, t <= length p -> (t = length p \/ is_jump_target p t = true) -> is_start (map fst o) t) /\
    length (expand (map fst o)) = length p /\
    (forall g, In g (map fst o) -> is_fused g = true -> fused_shape g).
Proof. exact optimize_structure. Qed.

(* index_map[t] is the new index of the group starting at t *)
Theorem C09_index_map_at_group_start : forall o olen n,
  n <= length o -> nth_error (imap_of olen o) (group_start o n) = Some (olen + n).
Proof. exact imap_at_start. Qed.

(* BEHAVIOUR. Same final stack and opaque state (output, captures, variables), related loop
   frames, failure on one side iff failure on the other — for every abstract VM, every chunk
   meeting the three decidable side conditions, every state. *)
Theorem C09_optimize_correct :
  forall (V S : Type) (undef : V) (is_undef : V -> bool), is_undef undef = true ->
  forall (get_value : S -> str -> V) (dump : S -> V) (get_attr : V -> str -> option V),
  (forall v a, is_undef v = true -> get_attr v a = None) ->
  forall (write : V -> S -> option S) (truthy : V -> bool) (is_over : S -> bool)
         (advance : S -> bool -> S) (other : instr -> list V -> S -> option (list V * S))
         (p : chunk),
  unfused p -> targets_in_range p -> iterate_forward (map fst p) ->
  exists o, optimize p = Some o /\
    let runP := OptimizeSim.run V S undef is_undef get_value dump get_attr write truthy is_over advance other in
    let P := map fst p in let O := map fst o in
    forall st ends ends' s, ends_rel O ends ends' ->
      (forall fuel, runP fuel P 0 st ends s <> OutOfFuel V S ->
         exists fuel', out_rel V S O (runP fuel P 0 st ends s) (runP fuel' O 0 st ends' s)) /\
      (forall fuel', runP fuel' O 0 st ends' s <> OutOfFuel V S ->
         exists fuel, out_rel V S O (runP fuel P 0 st ends s) (runP fuel' O 0 st ends' s)).
Proof. exact optimize_correct. Qed.

(* the core equivalences: one fused instruction = the chain it replaces *)
Theorem C09_load_path_equiv :
  forall (V S : Type) (undef : V) (is_undef : V -> bool), is_undef undef = true ->
  forall (get_value : S -> str -> V) (dump : S -> V) (get_attr : V -> str -> option V) s n attrs,
  is_magic n = false ->
  load_path V S undef is_undef get_value dump get_attr s (n :: attrs)
  = chain V undef is_undef get_attr (load_name V S get_value dump s n) attrs.
Proof. intros. apply OptimizeSim.load_path_chain; assumption. Qed.

Theorem C09_write_path_equiv :
  forall (V S : Type) (undef : V) (is_undef : V -> bool), is_undef undef = true ->
  forall (get_value : S -> str -> V) (dump : S -> V) (get_attr : V -> str -> option V),
  (forall v a, is_undef v = true -> get_attr v a = None) ->
  forall (write : V -> S -> option S) s n attrs,
  is_magic n = false ->
  write_path V S is_undef get_value dump get_attr write s (n :: attrs)
  = match chain V undef is_undef get_attr (load_name V S get_value dump s n) attrs with
    | Some v => if is_undef v then None else write v s
    | None => None
    end.
Proof. intros. apply OptimizeSim.write_path_chain; assumption. Qed.

(* the side conditions are decidable and are evaluated on every real chunk by Corr/CorrC09.v *)
Theorem C09_hypotheses_decidable : forall p,
  unfusedb p = true -> targets_in_rangeb p = true -> iterate_forwardb (map fst p) = true ->
  unfused p /\ targets_in_range p /\ iterate_forward (map fst p).
Proof.
  intros p H1 H2 H3. split; [exact (unfusedb_ok p H1)|split].
  - exact (targets_in_rangeb_ok p H2).
  - exact (iterate_forwardb_ok _ H3).
Qed.


(* ------------------------------------------------------------------------------------------ *)
(* WHOLE WORLD, CONCRETE VM. The behavioural clause of C09 in full: for every world (template
   table with root chunks and block lineages, component table, and ARBITRARY filters, tests,
   functions, arithmetic, comparison, escaping, formatting) and every template, rendering with
   the pass applied to every chunk (`opt_world`, `opt_tpl`: Model/OptWorld.v) yields the same
   writer state — the bytes written — or the same error class as rendering the unoptimised
   chunks, for every writer, block option, context and global context. Nested runs (include,
   RenderBlock, super(), components) run optimised callee chunks on the optimised side.

   Hypotheses: every chunk passes the four decidable checks of `chunk_ok` (no fused instruction
   yet, jump targets <= length, Iterate targets forward, C07's validator `check_chunk`, of which
   the loop-stack part is used: a block / super() chunk never touches the caller's loop frames —
   without it the statement is false, see C09_needs_loop_discipline_example); Value::get_attr of
   Undefined is None; filters and functions do not observe a loop's stored end_ip
   (`scope_blind`; implied by reading the State only through get_value:
   C09_scope_blind_of_get_value).

   Fuel: (1) original => optimised with the same fuel; (2) optimised => original with the fuel
   multiplied by `world_bound` (1 + the longest chunk); OutOfFuel for every fuel on one side iff
   on the other (C09_optimize_world_diverges). *)
Theorem C09_optimize_world_correct :
  forall (W : Type) (wr : W -> str -> option W) (wd : world) (tpl : template),
  world_ok wd = true -> tpl_ok tpl = true ->
  (forall a, w_get_attr wd VUndef a = None) -> scope_blind wd ->
  opt_world_defined wd = true /\
  forall (block : option str) (c g : ctx) (w : W),
    (forall fuel,
       render_to W wr wd fuel tpl block c g w <> ROutOfFuel ->
       same_outcome W (render_to W wr wd fuel tpl block c g w)
                      (render_to W wr (opt_world wd) fuel (opt_tpl tpl) block c g w)) /\
    (forall fuel',
       render_to W wr (opt_world wd) fuel' (opt_tpl tpl) block c g w <> ROutOfFuel ->
       same_outcome W (render_to W wr wd (world_bound wd tpl * fuel') tpl block c g w)
                      (render_to W wr (opt_world wd) fuel' (opt_tpl tpl) block c g w)).
Proof. exact optimize_world_correct. Qed.

Theorem C09_optimize_world_diverges :
  forall (W : Type) (wr : W -> str -> option W) (wd : world) (tpl : template),
  world_ok wd = true -> tpl_ok tpl = true ->
  (forall a, w_get_attr wd VUndef a = None) -> scope_blind wd ->
  forall block c g w,
    (forall fuel, render_to W wr wd fuel tpl block c g w = ROutOfFuel) <->
    (forall fuel', render_to W wr (opt_world wd) fuel' (opt_tpl tpl) block c g w = ROutOfFuel).
Proof. exact optimize_world_diverges. Qed.

(* every template of a checked world is itself checked: the entry template may be any of them *)
Theorem C09_world_templates_ok : forall wd n t,
  world_ok wd = true -> assoc_get (w_templates wd) n = Some t -> tpl_ok t = true.
Proof. exact tpl_ok_of_world. Qed.

(* under the checks every `optimize` call of opt_world is defined (no index_map panic) *)
Theorem C09_opt_chunk_defined : forall c, chunk_ok c = true -> opt_chunk_opt c = Some (opt_chunk c).
Proof. exact opt_chunk_defined. Qed.

(* the loop-stack part of C07's validator is all that is used of it *)
Theorem C09_check_chunk_loop_discipline : forall c, check_chunk c = true -> loop_disc c.
Proof. exact check_chunk_loop_disc. Qed.

(* a world whose filters / functions read the State only through get_value is scope_blind *)
Theorem C09_scope_blind_of_get_value : forall wd : world,
  (forall n v k sc sc', (forall x, scope_get sc x = scope_get sc' x) -> w_filter wd n v k sc = w_filter wd n v k sc') ->
  (forall n k sc sc', (forall x, scope_get sc x = scope_get sc' x) -> w_function wd n k sc = w_function wd n k sc') ->
  scope_blind wd.
Proof. exact scope_blind_of_get_value. Qed.

(* World0 (the world of the VM correspondence runs) meets the two world-side hypotheses *)
Theorem C09_world0_hypotheses : forall tpls,
  (forall a, w_get_attr (world0 tpls) VUndef a = None) /\ scope_blind (world0 tpls).
Proof. exact world0_hyps. Qed.

Print Assumptions C09_optimize_world_correct.
Print Assumptions C09_optimize_world_diverges.

(* non-vacuity: a two-template world — `base` writes text, renders block `a` ({{ u.n }}) and
   includes `inc` ({% for i in xs %}{{ i.y }}{% endfor %}); both the block chunk and the loop
   body are really fused; rendered on both sides (whole template and block `a` alone). *)
Definition ex_B : str := [66]%N.
Definition ex_a : str := [97]%N.
Definition ex_sinc : str := [105;110;99]%N.
Definition ex_sbase : str := [98;97;115;101]%N.
Definition ex_u : str := [117]%N.
Definition ex_n : str := [110]%N.
Definition ex_xs : str := [120;115]%N.
Definition ex_i : str := [105]%N.
Definition ex_y : str := [121]%N.
Definition ex_c_inc : list instr :=
  [LoadName ex_xs; StartIterate false; StoreLocal ex_i; Iterate 8; LoadName ex_i; LoadAttr ex_y; WriteTop;
   Jump 3; PopLoop].
Definition ex_c_base : list instr := [WriteText ex_B; RenderBlock ex_a; Include ex_sinc].
Definition ex_c_blk : list instr := [LoadName ex_u; LoadAttr ex_n; WriteTop].
Definition ex_inc : template :=
  {| t_name := ex_sinc; t_chunk := ex_c_inc; t_root_chunk := ex_c_inc; t_lineage := []; t_autoescape := true |}.
Definition ex_base : template :=
  {| t_name := ex_sbase; t_chunk := ex_c_base; t_root_chunk := ex_c_base; t_lineage := [(ex_a, [ex_c_blk])];
     t_autoescape := true |}.
Definition ex_wd : world := world0 [(ex_sinc, ex_inc); (ex_sbase, ex_base)].
Definition ex_ctx : ctx :=
  [(ex_u, VMap [(KStr ex_n true, VStr [60;120;62]%N false)]);
   (ex_xs, VArr [VMap [(KStr ex_y true, VInt U64 1)]; VMap [(KStr ex_y true, VInt U64 2)]])].
Definition ex_out (r : rres str) : option str := match r with RDone _ (SinkTop o) => Some o | _ => None end.

Example C09_ex_world :
  world_ok ex_wd = true /\ tpl_ok ex_base = true /\
  t_root_chunk (opt_tpl ex_inc) =
    [LoadName ex_xs; StartIterate false; StoreLocal ex_i; Iterate 6; WritePath [ex_i; ex_y]; Jump 3; PopLoop] /\
  t_lineage (opt_tpl ex_base) = [(ex_a, [[WritePath [ex_u; ex_n]]])] /\
  (* "B&lt;x&gt;12" *)
  ex_out (render_to str wr_str ex_wd 100 ex_base None ex_ctx [] [])
    = Some [66; 38; 108; 116; 59; 120; 38; 103; 116; 59; 49; 50]%N /\
  ex_out (render_to str wr_str (opt_world ex_wd) 100 (opt_tpl ex_base) None ex_ctx [] [])
    = Some [66; 38; 108; 116; 59; 120; 38; 103; 116; 59; 49; 50]%N /\
  ex_out (render_to str wr_str ex_wd 100 ex_base (Some ex_a) ex_ctx [] [])
    = Some [38; 108; 116; 59; 120; 38; 103; 116; 59]%N /\
  ex_out (render_to str wr_str (opt_world ex_wd) 100 (opt_tpl ex_base) (Some ex_a) ex_ctx [] [])
    = Some [38; 108; 116; 59; 120; 38; 103; 116; 59]%N.
Proof. vm_compute. repeat split. Qed.

(* why the loop discipline is a hypothesis: a block chunk that executes Break on the CALLER's
   loop frame (nothing the parser can produce: blocks cannot be nested in for loops, and `break`
   is rejected outside them) jumps to the caller's stored end_ip, which the pass has re-mapped
   for the caller's chunk only (9 -> 7). Here the unoptimised render writes "<x>9", the
   optimised one "<x>789";
   check_chunk rejects the block chunk. *)
Definition bad_blk : list instr :=
  [Break; WriteText [49]%N; WriteText [50]%N; WriteText [51]%N; WriteText [52]%N; WriteText [53]%N;
   WriteText [54]%N; WriteText [55]%N; WriteText [56]%N; WriteText [57]%N].
Definition bad_main : list instr :=
  [LoadConst (VArr [VNone]); StartIterate false; StoreLocal ex_i; Iterate 9; LoadName ex_u; LoadAttr ex_n;
   WriteTop; RenderBlock ex_a; Jump 3; PopLoop].
Definition bad_tpl : template :=
  {| t_name := ex_sbase; t_chunk := bad_main; t_root_chunk := bad_main; t_lineage := [(ex_a, [bad_blk])];
     t_autoescape := false |}.
Definition bad_wd : world := world0 [(ex_sbase, bad_tpl)].
Example C09_needs_loop_discipline_example :
  check_chunk bad_blk = false /\
  unfusedb (with_spans bad_blk) && targets_in_rangeb (with_spans bad_blk) && iterate_forwardb bad_blk = true /\
  chunk_ok bad_main = true /\
  ex_out (render_to str wr_str bad_wd 100 bad_tpl None ex_ctx [] [])
  <> ex_out (render_to str wr_str (opt_world bad_wd) 100 (opt_tpl bad_tpl) None ex_ctx [] []).
Proof. vm_compute. repeat split. discriminate. Qed.

Print Assumptions C09_optimize_structure.
Print Assumptions C09_optimize_correct.
Print Assumptions C09_write_path_equiv.

(* non-vacuity: `{{ false and user.name }}` — the WriteTop is a jump target and is not fused *)
Example C09_ex_short_circuit :
  optimize [(LoadConst (VBool false), [0%N]); (JumpIfFalseOrPop 4, []); (LoadName [117%N], [1%N]);
            (LoadAttr [110%N], [2%N]); (WriteTop, [3%N])]
  = Some [(LoadConst (VBool false), [0%N]); (JumpIfFalseOrPop 3, []);
          (LoadPath [[117%N]; [110%N]], [1%N; 2%N]); (WriteTop, [3%N])].
Proof. vm_compute. reflexivity. Qed.

Example C09_ex_write_path :
  optimize [(LoadName [117%N], [1%N]); (LoadAttr [110%N], [2%N]); (WriteTop, [3%N]); (Jump 0, [])]
  = Some [(WritePath [[117%N]; [110%N]], [1%N; 2%N]); (Jump 0, [])].
Proof. vm_compute. reflexivity. Qed.

(* a loop with a fused body satisfies all three side conditions *)
Example C09_ex_hypotheses :
  let p := [(LoadName [97%N], []); (LoadAttr [120%N], []); (StartIterate false, []); (StoreLocal [105%N], []);
            (Iterate 9, []); (LoadName [105%N], []); (LoadAttr [121%N], []); (WriteTop, []); (Jump 4, []);
            (PopLoop, [])] in
  unfusedb p = true /\ targets_in_rangeb p = true /\ iterate_forwardb (map fst p) = true /\
  optimize p = Some [(LoadPath [[97%N]; [120%N]], []); (StartIterate false, []); (StoreLocal [105%N], []);
                     (Iterate 6, []); (WritePath [[105%N]; [121%N]], []); (Jump 3, []); (PopLoop, [])].
Proof. vm_compute. repeat split. Qed.
