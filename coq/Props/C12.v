(* C12 — Errors identify the right template and source position and always display.
   Only statements, each closed by `exact`; proofs live in Proofs/ReportProofs.v.
   Quantification: every source (any byte string that is a sequence of well-formed UTF-8
   characters — every Rust `str` is), every piece of it the lexer advances over, every span,
   every span table of a chunk, every error with any number of notes.  `None` of a model
   function = a panic of the Rust code.

   Reading of the property clause by clause:
     "a span that lies within that source on character boundaries, whose reported line and
      column designate a real position of that source consistent with the span's byte range"
                                   = span_wf src sp (Model/Report.v), with Spec.LineCol.linecol
                                     as the reference meaning of line/column of a byte offset;
     "formatting any error for display succeeds and quotes the line the span starts on"
                                   = generate_report e = Some txt /\ infix (line_containing ..) txt;
     "errors raised inside includes and components additionally name each call site"
                                   = the notes clause of C12_report_total (label and file name
                                     of every note appear) + the harness oracle on real renders;
     "carries the name of the template whose source contains the offending code"
                                   = C12_report_target_is_chunk_owner + the harness oracle. *)
From Coq Require Import List NArith Arith Bool Sorted.
From TeraV Require Import Spec.Utf8Chars Spec.LineCol Model.Report Proofs.ReportProofs.
Import ListNotations.

(* ------------------------------------------------------------------ tokenizer *)

(* the bookkeeping invariant of lexer.rs advance!: if (line, col, byte) agree with the reference
   line/column of `byte`, they still do after advancing over any piece t of the source *)
Theorem C12_token_span_step : forall pre t post st,
  valid_utf8 t -> valid_utf8 post ->
  let src := pre ++ t ++ post in
  loc_ok src st -> l_byte st = length pre ->
  let st' := advance_over st t in
  loc_ok src st' /\ l_byte st' = length pre + length t.
Proof. exact token_span_step. Qed.

(* the lexer starts in a state that satisfies the invariant *)
Theorem C12_lexer_initial_state_ok : forall src, loc_ok src loc_init.
Proof. exact loc_init_ok. Qed.

(* hence every span built by make_span!(start) after advance!(|t|) is well-formed and is
   exactly the byte range of t *)
Theorem C12_token_span_wf : forall pre t post st,
  valid_utf8 t -> valid_utf8 post ->
  let src := pre ++ t ++ post in
  loc_ok src st -> l_byte st = length pre ->
  span_wf src (make_span st (advance_over st t)) /\
  rstart (make_span st (advance_over st t)) = length pre /\
  rend (make_span st (advance_over st t)) = length pre + length t.
Proof. exact token_span_wf. Qed.

(* advance!(n) does not panic when n is a character boundary of the rest of the input, and both
   pieces are again valid text (so the hypotheses of the two theorems above are re-established
   for the next token); off a boundary it panics *)
Theorem C12_advance_total_on_boundaries : forall st rest n, valid_utf8 rest ->
  n <= length rest -> is_char_boundary rest n = true ->
  exists st', advance st rest n = Some (st', firstn n rest, skipn n rest) /\
    valid_utf8 (firstn n rest) /\ valid_utf8 (skipn n rest) /\
    st' = advance_over st (firstn n rest).
Proof. exact advance_ok. Qed.

(* the induction step of the whole tokenizer loop: `rest` is the unread part, the location agrees
   with the reference at its beginning; one advance!(n) on a character boundary does not panic,
   yields a well-formed span for the skipped piece and re-establishes the situation *)
Theorem C12_advance_keeps_invariant : forall pre rest st n,
  valid_utf8 rest -> loc_ok (pre ++ rest) st -> l_byte st = length pre ->
  n <= length rest -> is_char_boundary rest n = true ->
  exists st' skipped rest',
    advance st rest n = Some (st', skipped, rest') /\
    rest = skipped ++ rest' /\ length skipped = n /\ valid_utf8 rest' /\
    loc_ok (pre ++ rest) st' /\ l_byte st' = length (pre ++ skipped) /\
    span_wf (pre ++ rest) (make_span st st').
Proof. exact advance_keeps_invariant. Qed.

Theorem C12_advance_panics_off_boundary : forall st rest n,
  is_char_boundary rest n = false -> advance st rest n = None.
Proof. exact advance_panics. Qed.

(* ------------------------------------------------------------------ all runs of the tokenizer *)

(* lex_reach src st rest: the tokenizer can be at location st with `rest` unread — it starts at
   (1, 0, 0) with the whole source and only moves by advance!, by any number of bytes (an
   over-approximation of basic_tokenize: every choice of lengths).  parser_span: a span built by
   make_span! between two such states, or derived by Span::expand towards a later token / eoi(). *)

(* whatever the bytes are — '\r' alone, "\n\r", "\r\r\n", VT, FF, U+0085, U+2028, no final line
   terminator — every state of every run agrees with the reference line/column *)
Theorem C12_lexer_run_invariant : forall src, valid_utf8 src -> forall st rest,
  lex_reach src st rest ->
  exists pre, src = pre ++ rest /\ l_byte st = length pre /\ valid_utf8 rest /\ loc_ok src st.
Proof. exact lex_reach_inv. Qed.

Theorem C12_parser_span_wf : forall src sp,
  valid_utf8 src -> parser_span src sp -> span_wf src sp.
Proof. exact parser_span_wf. Qed.

(* the agreement between the lexer's line numbers and the report printer's line table is a
   consequence of the lexer model (both count '\n' bytes and nothing else), not a hypothesis *)
Theorem C12_parser_span_line_in_table : forall src sp, valid_utf8 src -> parser_span src sp ->
  1 <= start_line sp <= length (get_line_starts src) /\
  1 <= end_line sp <= length (get_line_starts src).
Proof. exact parser_span_line_in_table. Qed.

(* end to end with the lexer model as the only premise: an error at any such span, with notes at
   such spans of their own sources, displays and quotes the lines the spans start on *)
Theorem C12_lexer_report_total : forall e,
  valid_utf8 (r_source e) -> parser_span (r_source e) (r_span e) ->
  Forall note_from_lexer (r_notes e) ->
  exists txt, generate_report e = Some txt /\
    infix (line_containing (r_source e) (rstart (r_span e))) txt /\
    Forall (fun n => infix (line_containing (n_source n) (rstart (n_span n))) txt /\
                     infix (n_label n) txt /\ infix (n_filename n) txt) (r_notes e).
Proof. exact lexer_report_total. Qed.

(* ------------------------------------------------------------------ parser: expand, eoi *)

(* Span::expand takes the start of self and the end of other without any check: the result is
   well-formed when other does not end before self starts (the parser always passes the span of
   a token consumed later), and never otherwise *)
Theorem C12_expand_preserves_wf : forall src a b,
  span_wf src a -> span_wf src b -> rstart a <= rend b -> span_wf src (expand a b).
Proof. exact expand_preserves_wf. Qed.

Theorem C12_expand_needs_order : forall src a b,
  rend b < rstart a -> ~ span_wf src (expand a b).
Proof. exact expand_needs_order. Qed.

(* "Unexpected end of input": with fixes/D12-eoi-range.patch the span is the (empty) position
   at the end of the last token and is well-formed ... *)
Theorem C12_eoi_span_wf : forall src cur, span_wf src cur -> span_wf src (eoi cur).
Proof. exact eoi_span_wf. Qed.

(* ... whereas the pinned tree's eoi() (D12) keeps range.start at the beginning of that token:
   `{{ 1 +` gives 1:6-1:6 (5..6) *)
Theorem C12_eoi_unpatched_refuted :
  exists src cur, valid_utf8 src /\ span_wf src cur /\ ~ span_wf src (eoi_unpatched cur).
Proof. exact eoi_unpatched_refuted. Qed.

(* ------------------------------------------------------------------ run-time spans *)

(* expand_span over a table of well-formed spans: defined iff both end instructions carry a
   span (None = the `expect("to have a span for error")` panic), and well-formed when the first
   one does not start after the last one ends *)
Theorem C12_expand_span_spec : forall tbl s e,
  expand_span tbl (s, e) =
    match get_span tbl s, get_span tbl e with
    | Some a, Some b => Some (expand a b)
    | _, _ => None
    end.
Proof. exact expand_span_spec. Qed.

Theorem C12_expand_span_wf : forall src tbl s e a b,
  table_wf src tbl -> get_span tbl s = Some a -> get_span tbl e = Some b ->
  rstart a <= rend b ->
  exists sp, expand_span tbl (s, e) = Some sp /\ span_wf src sp /\
             rstart sp = rstart a /\ rend sp = rend b.
Proof. exact expand_span_wf. Qed.

(* combine_spans followed by expand_span is the hull of the two operand spans, and is
   well-formed, provided the first (resp. last) instructions of the two operands are in source
   order.  (Partial in one respect, hence the hypothesis: that the compiler emits operands in
   source order is observed on real chunks and errors by the harness, not proved here —
   Model/Compile.v is not part of this development.) *)
Theorem C12_combine_hull_partial : forall src tbl A B a b,
  table_wf src tbl ->
  expand_span tbl A = Some a -> expand_span tbl B = Some b ->
  rstart a <= rend a -> rstart b <= rend b ->
  ordered_at tbl (fst A) (fst B) -> ordered_at tbl (fst B) (fst A) ->
  ordered_at tbl (snd A) (snd B) -> ordered_at tbl (snd B) (snd A) ->
  exists c, expand_span tbl (combine_spans A B) = Some c /\
            rstart c = Nat.min (rstart a) (rstart b) /\
            rend c = Nat.max (rend a) (rend b) /\
            span_wf src c.
Proof. exact combine_hull. Qed.

(* fusion keeps every span and their path order *)
Theorem C12_collected_spans_wf : forall src group,
  Forall (Forall (span_wf src)) group -> Forall (span_wf src) (collected_spans group).
Proof. exact collected_spans_wf. Qed.

Theorem C12_collected_spans_path_order : forall (l : list span) k,
  nth_error (collected_spans (map (fun s => [s]) l)) k = nth_error l k.
Proof. exact collected_spans_nth. Qed.

Theorem C12_get_span_at_wf : forall src tbl i k sp,
  table_wf src tbl -> get_span_at tbl i k = Some sp -> span_wf src sp.
Proof. exact get_span_at_wf. Qed.

(* the template an error is reported against is the one the running chunk belongs to *)
Theorem C12_report_target_is_chunk_owner : forall tpl_name chunk_name templates source_of r,
  registry_ok templates source_of ->
  report_target tpl_name (source_of tpl_name) chunk_name templates = Some r ->
  r = (chunk_name, source_of chunk_name).
Proof. exact report_target_is_chunk_owner. Qed.

(* ------------------------------------------------------------------ report printer *)

(* get_line_starts: one entry per line; 0 and the offsets following each '\n'; increasing *)
Theorem C12_line_starts_spec : forall src,
  length (get_line_starts src) = num_lines src /\
  (forall p, In p (get_line_starts src) <->
             p = 0 \/ exists i, p = S i /\ nth_error src i = Some NL) /\
  StronglySorted lt (get_line_starts src).
Proof. exact line_starts_spec. Qed.

(* SourceLocation::new: every index is in bounds and no slice splits a character whenever the
   span's line number is the line of some offset of the source; the quoted text is then exactly
   the line containing that offset (without its '\n') *)
Theorem C12_source_location_quotes_line : forall src sp off,
  valid_utf8 src -> off <= length src -> start_line sp = fst (linecol src off) ->
  exists loc pad, source_location_new src sp = Some loc /\
    sl_line loc = line_containing src off /\
    sl_start_line loc = start_line sp /\ sl_start_col loc = start_col sp /\
    sl_underline loc = pad ++ repeat 94%N (underline_width sp) /\ length pad <= start_col sp.
Proof. exact source_location_at. Qed.

(* exact domain of SourceLocation::new: defined for line numbers 1..=num_lines, a panic outside *)
Theorem C12_source_location_defined : forall src sp,
  valid_utf8 src -> 1 <= start_line sp <= num_lines src ->
  exists loc, source_location_new src sp = Some loc.
Proof. exact source_location_defined. Qed.

Theorem C12_source_location_panics : forall src sp,
  start_line sp = 0 \/ num_lines src < start_line sp -> source_location_new src sp = None.
Proof. exact source_location_panics. Qed.

Theorem C12_span_wf_line_range : forall src sp,
  span_wf src sp -> 1 <= start_line sp <= num_lines src.
Proof. exact span_wf_line_range. Qed.

(* report_total: Display of an error whose span and notes are well-formed for their sources
   succeeds, quotes the line the span starts on, the message and the file name, and for every
   note the line of its span, its label ("called from") and its file name *)
Theorem C12_report_total : forall e,
  valid_utf8 (r_source e) -> span_wf (r_source e) (r_span e) -> Forall note_ok (r_notes e) ->
  exists txt, generate_report e = Some txt /\
    infix (line_containing (r_source e) (rstart (r_span e))) txt /\
    infix (r_message e) txt /\ infix (r_filename e) txt /\
    Forall (fun n => infix (line_containing (n_source n) (rstart (n_span n))) txt /\
                     infix (n_label n) txt /\ infix (n_filename n) txt) (r_notes e).
Proof. exact report_total. Qed.

(* why span correctness matters for "always display": a line number outside the source panics *)
Theorem C12_report_panics_on_bad_line : forall e,
  start_line (r_span e) = 0 \/ num_lines (r_source e) < start_line (r_span e) ->
  generate_report e = None.
Proof. exact report_panics. Qed.

(* ------------------------------------------------------------------ the reference line/column *)

Theorem C12_linecol_monotone : forall src a b, a <= b ->
  let (la, ca) := linecol src a in let (lb, cb) := linecol src b in
  la < lb \/ (la = lb /\ ca <= cb).
Proof. exact linecol_monotone. Qed.

(* what one byte does to the reference line/column: only '\n' (byte 10) starts a new line;
   a continuation byte changes nothing; every other byte, '\r' (13), VT (11), FF (12) and the
   lead bytes of U+0085 (C2 85) and U+2028 (E2 80 A8) included, is one more column *)
Theorem C12_linecol_step : forall pre b post,
  let lc := linecol (pre ++ b :: post) (length pre) in
  let lc' := linecol (pre ++ b :: post) (S (length pre)) in
  (b = NL -> lc' = (S (fst lc), 0)) /\
  (b <> NL -> is_cont b = true -> lc' = lc) /\
  (b <> NL -> is_cont b = false -> lc' = (fst lc, S (snd lc))).
Proof. exact linecol_step_cases. Qed.

(* on a character boundary the column is the number of whole characters since the last '\n' *)
Theorem C12_linecol_counts_chars : forall src off,
  valid_utf8 src -> off <= length src -> is_char_boundary src off = true ->
  snd (linecol src off) = length (chars (after_last_nl (firstn off src))) /\
  fst (linecol src off) = 1 + count_nl (firstn off src).
Proof. exact linecol_counts_chars. Qed.

(* what the correspondence run evaluates on the implementation's spans is the predicate above *)
Theorem C12_span_wfb_ok : forall src sp, span_wfb src sp = true <-> span_wf src sp.
Proof. exact span_wfb_ok. Qed.

(* the correspondence run checks all spans of a source against one table of line/columns: the
   same predicate *)
Theorem C12_spans_wfb_ok : forall src sps, spans_wfb src sps = forallb (span_wfb src) sps.
Proof. exact spans_wfb_ok. Qed.

Theorem C12_valid_utf8b_ok : forall l, valid_utf8b l = true -> valid_utf8 l.
Proof. exact valid_utf8b_ok. Qed.

Print Assumptions C12_token_span_step.
Print Assumptions C12_token_span_wf.
Print Assumptions C12_advance_total_on_boundaries.
Print Assumptions C12_advance_keeps_invariant.
Print Assumptions C12_lexer_run_invariant.
Print Assumptions C12_parser_span_line_in_table.
Print Assumptions C12_lexer_report_total.
Print Assumptions C12_linecol_step.
Print Assumptions C12_expand_preserves_wf.
Print Assumptions C12_eoi_span_wf.
Print Assumptions C12_eoi_unpatched_refuted.
Print Assumptions C12_expand_span_wf.
Print Assumptions C12_combine_hull_partial.
Print Assumptions C12_line_starts_spec.
Print Assumptions C12_source_location_quotes_line.
Print Assumptions C12_report_total.
Print Assumptions C12_linecol_monotone.
Print Assumptions C12_linecol_counts_chars.

(* ------------------------------------------------------------------ non-vacuity *)

(* "é\n日{{ x }}" : bytes c3 a9 0a e6 97 a5 7b 7b 20 78 20 7d 7d; the token `x` is bytes 9..10,
   line 2, column 4 (日 { { space), not column 6 (bytes) *)
Definition ex_src : list N := [195; 169; 10; 230; 151; 165; 123; 123; 32; 120; 32; 125; 125]%N.
Definition ex_x : span := mkspan 2 4 2 5 9 10.

Example ex_src_valid : valid_utf8 ex_src.
Proof. apply valid_utf8b_ok. vm_compute. reflexivity. Qed.

Example ex_x_wf : span_wf ex_src ex_x.
Proof. apply span_wfb_ok. vm_compute. reflexivity. Qed.

Example ex_bytes_col_not_wf : ~ span_wf ex_src (mkspan 2 6 2 7 9 10).
Proof. intros H. apply span_wfb_ok in H. vm_compute in H. discriminate. Qed.

(* a range that splits 日 is not well-formed *)
Example ex_split_char_not_wf : ~ span_wf ex_src (mkspan 2 0 2 1 3 4).
Proof. intros H. apply span_wfb_ok in H. vm_compute in H. discriminate. Qed.

(* the lexer model run over the example: content "é\n日", then `{{`, gap, `x` *)
Example ex_lexer_run :
  let st1 := advance_over loc_init (firstn 6 ex_src) in
  let st2 := advance_over st1 (firstn 2 (skipn 6 ex_src)) in
  let st3 := advance_over st2 (firstn 1 (skipn 8 ex_src)) in
  let st4 := advance_over st3 (firstn 1 (skipn 9 ex_src)) in
  make_span st3 st4 = ex_x /\ make_span loc_init st1 = mkspan 1 0 2 1 0 6.
Proof. vm_compute. split; reflexivity. Qed.

(* the report for "Variable `x` is not defined." at that span in "t.html" *)
Example ex_report :
  generate_report (mkreport [109]%N [116]%N ex_src ex_x []) =
  Some ([101; 114; 114; 111; 114; 58; 32; 109; 10;          (* error: m *)
         32; 45; 45; 62; 32; 116; 58; 50; 58; 53; 10;       (*  --> t:2:5 *)
         32; 32; 124; 10;                                   (*   | *)
         50; 32; 124; 32; 230; 151; 165; 123; 123; 32; 120; 32; 125; 125; 10;  (* 2 | 日{{ x }} *)
         32; 32; 124; 32; 32; 32; 32; 32; 94]%N).            (*   |     ^ *)
Proof. vm_compute. reflexivity. Qed.

(* line 3 does not exist in the example source: Display would panic *)
Example ex_report_bad_line : generate_report (mkreport [] [] ex_src (mkspan 3 0 3 0 13 13) []) = None.
Proof. vm_compute. reflexivity. Qed.

Example ex_line_starts : get_line_starts [102; 111; 111; 10; 98; 97; 114; 13; 10; 10; 98; 97; 122]%N = [0; 4; 9; 10].
Proof. vm_compute. reflexivity. Qed.

(* D12 on the pinned tree and after the repair, for `{{ 1 +` *)
Example ex_eoi_unpatched : eoi_unpatched d12_cur = mkspan 1 6 1 6 5 6.
Proof. reflexivity. Qed.
Example ex_eoi_fixed : eoi d12_cur = mkspan 1 6 1 6 6 6 /\ span_wf d12_src (eoi d12_cur).
Proof. split; [reflexivity|]. apply span_wfb_ok. vm_compute. reflexivity. Qed.

(* expand_span / combine_spans on the table of `{{ s < 1 }}`: LoadName s (3..4), LoadConst 1
   (7..8), LessThan (3..8), WriteTop (no span) *)
Example ex_hull :
  let tbl := [[mkspan 1 3 1 4 3 4]; [mkspan 1 7 1 8 7 8]; [mkspan 1 3 1 8 3 8]; []] in
  expand_span tbl (combine_spans (0, 0) (1, 1)) = Some (mkspan 1 3 1 8 3 8) /\
  expand_span tbl (3, 3) = None.
Proof. vm_compute. split; reflexivity. Qed.

(* line-ending flavours.  "a\r{{ 1 | nope }}": the lone '\r' is a character of line 1, so `nope`
   (bytes 9..13) is at 1:9; the printer's line table has one entry *)
Definition cr_src : list N := [97; 13; 123; 123; 32; 49; 32; 124; 32; 110; 111; 112; 101; 32; 125; 125]%N.
Example ex_cr_line_starts : get_line_starts cr_src = [0].
Proof. vm_compute. reflexivity. Qed.
Example ex_cr_span : span_wf cr_src (mkspan 1 9 1 13 9 13) /\ ~ span_wf cr_src (mkspan 2 7 2 11 9 13).
Proof.
  split; [apply span_wfb_ok; vm_compute; reflexivity|].
  intros H. apply span_wfb_ok in H. vm_compute in H. discriminate.
Qed.
(* the model of the lexer, run over "a\r", "{{", " ", "1", ..., gives 1:9 for `nope` *)
Example ex_cr_lexer_run :
  let st1 := advance_over loc_init (firstn 9 cr_src) in
  let st2 := advance_over st1 (firstn 4 (skipn 9 cr_src)) in
  make_span st1 st2 = mkspan 1 9 1 13 9 13.
Proof. vm_compute. reflexivity. Qed.
(* a span that called the lone '\r' a line break (line 2) cannot be displayed: the printer panics *)
Example ex_cr_line2_panics :
  generate_report (mkreport [] [] cr_src (mkspan 2 7 2 11 9 13) []) = None.
Proof. vm_compute. reflexivity. Qed.
(* "\r\r\n" is two characters and then a line break; U+2028 / U+0085 / VT / FF are one column each *)
Example ex_flavours :
  linecol [13; 13; 10; 120]%N 3 = (2, 0) /\ linecol [13; 13; 10; 120]%N 2 = (1, 2) /\
  linecol [10; 13; 120]%N 2 = (2, 1) /\
  linecol [226; 128; 168; 194; 133; 11; 12; 120]%N 7 = (1, 4).
Proof. vm_compute. repeat split; reflexivity. Qed.
