(* C14 — Indexing and slicing follow Python semantics and respect character boundaries.
   Only statements, each closed by `exact`; proofs live in Proofs/SliceProofs.v and
   Proofs/StrOpsProofs.v.  Quantification: every list (any length below 2^127; Rust lengths are
   below 2^63), every start/stop/step in Option<i128>, every integer operand in any of the four
   representations. *)
From TeraV Require Import Model.Value Model.Slice Model.StrOps Spec.PySlice
  Proofs.SliceProofs Proofs.StrOpsProofs.

(* x[a:b:c] visits exactly the indices Python's slice.indices + range visit *)
Theorem C14_slice_indices_is_python : forall len start stop step,
  0 <= len <= i128_max -> opt_in_i128 start -> opt_in_i128 stop ->
  i128_min <= step <= i128_max -> step <> 0 ->
  slice_indices len start stop step = py_slice_indices len start stop step.
Proof. exact slice_indices_is_python. Qed.

(* ... never indexes out of bounds (None would be a panic) and returns Python's elements *)
Theorem C14_slice_items_is_python : forall (A : Type) (items : list A) start stop step,
  Z.of_nat (length items) <= i128_max -> opt_in_i128 start -> opt_in_i128 stop ->
  i128_min <= step <= i128_max -> step <> 0 ->
  slice_items items start stop step = Some (py_slice items start stop step).
Proof. exact @slice_items_is_python. Qed.

(* Value::slice on arrays and strings: zero step is an error, otherwise Python's result;
   strings are sliced by characters and keep their safe flag *)
Theorem C14_value_slice_array : forall l start stop step,
  Z.of_nat (length l) <= i128_max -> opt_in_i128 start -> opt_in_i128 stop -> opt_in_i128 step ->
  value_slice (VArr l) start stop step =
    if step_of step =? 0 then RErr ErrMsg else ROk (VArr (py_slice l start stop (step_of step))).
Proof. exact value_slice_array. Qed.

Theorem C14_value_slice_string : forall s safe start stop step,
  Z.of_nat (length s) <= i128_max -> opt_in_i128 start -> opt_in_i128 stop -> opt_in_i128 step ->
  value_slice (VStr s safe) start stop step =
    if step_of step =? 0 then RErr ErrMsg else ROk (VStr (py_slice s start stop (step_of step)) safe).
Proof. exact value_slice_string. Qed.

(* the VM instruction with integer operands of ANY width (u128 above i128::MAX included),
   `none` meaning absent: the result is Python's slice taken at the operands' exact
   mathematical values *)
Theorem C14_vm_slice_is_python : forall opt l start stop step,
  Z.of_nat (length l) <= i128_max ->
  slice_arg start -> slice_arg stop -> slice_arg step ->
  vm_slice opt (VArr l) start stop step =
    if step_of (arg_val step) =? 0 then RErr ErrRender
    else ROk (VArr (py_slice l (arg_val start) (arg_val stop) (step_of (arg_val step)))).
Proof. exact vm_slice_is_python. Qed.

Theorem C14_vm_slice_string_is_python : forall opt s safe start stop step,
  Z.of_nat (length s) <= i128_max ->
  slice_arg start -> slice_arg stop -> slice_arg step ->
  vm_slice opt (VStr s safe) start stop step =
    if step_of (arg_val step) =? 0 then RErr ErrRender
    else ROk (VStr (py_slice s (arg_val start) (arg_val stop) (step_of (arg_val step))) safe).
Proof. exact vm_slice_string_is_python. Qed.

(* x[i]: element i, from the end when negative, undefined (never an error or panic) when out of
   range, for integers of every width *)
Theorem C14_index_array_is_python : forall l v,
  int_value v -> Z.of_nat (length l) <= i128_max ->
  get_item_seq (VArr l) v =
    ROk (match py_index l (int_val v) with Some x => x | None => VUndef end).
Proof. exact index_array_is_python. Qed.

Theorem C14_index_string_is_python : forall s safe v,
  int_value v -> Z.of_nat (length s) <= i128_max ->
  get_item_seq (VStr s safe) v =
    ROk (match py_index s (int_val v) with Some c => VStr [c] safe | None => VUndef end).
Proof. exact index_string_is_python. Qed.

(* the loop runs at most len times *)
Theorem C14_slice_terminates_within_len : forall (A : Type) (items : list A) start stop step,
  step <> 0 -> (length (py_slice items start stop step) <= length items)%nat.
Proof. exact @py_slice_length. Qed.

(* strings: every operation works on whole characters; results contain only characters of the
   input (plus the end marker for truncate), so they are valid text whenever the input is *)
Theorem C14_slice_only_input_chars : forall (A : Type) (items : list A) start stop step,
  incl (py_slice items start stop step) items.
Proof. exact @py_slice_incl. Qed.

Theorem C14_string_ops_valid_text : forall s safe start stop step n e v,
  valid_text s -> valid_text (match e with Some e => e | None => ellipsis end) ->
  value_valid_text (str_reverse s) /\
  value_valid_text (str_truncate s n e) /\
  Forall (fun p => value_valid_text (fst p)) (str_iter s) /\
  value_valid_text (VStr (py_slice s start stop step) safe) /\
  (forall c, py_index s v = Some c -> valid_text [c]).
Proof. exact string_ops_valid_text. Qed.

Theorem C14_string_ops_by_chars : forall s n e,
  str_length s = VInt U64 (Z.of_nat (length s)) /\
  (exists r, str_reverse s = VStr r false /\ rev r = s) /\
  (str_truncate s n e =
     if Nat.ltb n (length s)
     then VStr (firstn n s ++ match e with Some e => e | None => ellipsis end) false
     else VStr s false) /\
  concat (map (fun p => match fst p with VStr c _ => c | _ => [] end) (str_iter s)) = s /\
  map (fun p => snd p) (str_iter s) =
    map (fun i => (i, length s, Nat.eqb i 0, Nat.eqb (S i) (length s))) (seq 0 (length s)).
Proof. exact string_ops_by_chars. Qed.

Print Assumptions C14_slice_indices_is_python.
Print Assumptions C14_slice_items_is_python.
Print Assumptions C14_vm_slice_is_python.
Print Assumptions C14_index_array_is_python.
Print Assumptions C14_string_ops_valid_text.

(* non-vacuity: the hypotheses are satisfiable and the statements compute what one expects *)
Example C14_ex_neg_step :
  vm_slice false (VArr [VInt U64 0; VInt U64 10; VInt U64 20; VInt U64 30]) VNone VNone (VInt I64 (-2))
  = ROk (VArr [VInt U64 30; VInt U64 10]).
Proof. vm_compute. reflexivity. Qed.

Example C14_ex_extremes :
  vm_slice false (VArr [VInt U64 0; VInt U64 10; VInt U64 20]) (VInt I128 i128_min) (VInt U128 u128_max) (VInt I128 i128_max)
  = ROk (VArr [VInt U64 0]).
Proof. vm_compute. reflexivity. Qed.
