(* C19 — Data put in a context through serde is represented faithfully.
   Only statements, each closed by `exact`; proofs live in Proofs/SerdeProofs.v and
   Proofs/FormatProofs.v.  Quantification: every type of the grammar `ty` (all integer widths,
   f32/f64, char, string, unit, option, unit/newtype/tuple structs, sequences, tuples, maps,
   structs, enums with unit/newtype/tuple/struct variants, nested without bound) and every value
   `sval` of it; both entry points (T::deserialize(value), T::deserialize(&value)).
   The model is of the code with the repairs fixes/D7-deser-by-ref.patch and
   fixes/D14-newtype-struct-deser.patch applied (`Fixed`); `Pinned` is the tree before them. *)
From TeraV Require Import Model.Value Model.Format Model.Serde Proofs.SerdeProofs Proofs.FormatProofs Proofs.SerdePinned Proofs.ReserProofs.
From Coq Require Import Permutation Sorted.

(* converting a value and reading it back into the same type returns the original, through either
   entry point.  Side conditions: the property's own exclusion (no none-like type directly under an
   Option), a description that is one of a Rust type (distinct field names, variant payloads of
   their shape), admissible key types (so that serialisation succeeds at all). *)
Theorem C19_de_ser_roundtrip : forall e t v,
  has_type v t -> no_none_like_under_option t = true -> names_ok t = true -> keys_ok t = true ->
  res_bind (ser v) (de_entry Fixed e t) = ROk v.
Proof. exact de_ser_roundtrip. Qed.

(* stronger: WHENEVER serialisation succeeds (whatever the key types), every Deserializer of the
   bridge — Value, &Value and the inner ValueDeserializer — reads the original back *)
Theorem C19_de_ser_roundtrip_whenever_ser_ok : forall t v d x,
  no_none_like_under_option t = true -> names_ok t = true ->
  has_type v t -> ser v = ROk x -> de Fixed t d x = ROk v.
Proof. exact de_ser_roundtrip_strong. Qed.

(* with admissible key types serialisation does succeed *)
Theorem C19_ser_total : forall t v, keys_ok t = true -> has_type v t -> exists x, ser v = ROk x.
Proof. exact ser_total. Qed.

(* a map holding a key that is not a bool, integer, char, string or unit variant (through Some and
   newtype wrappers) is refused; in particular every non-empty map whose key type is a float, unit,
   sequence, tuple, map or struct *)
Theorem C19_bad_key_refused : forall m k x,
  In (k, x) m -> admissible_key k = false -> exists e, ser (SMap m) = RErr e.
Proof. exact bad_key_refused. Qed.

Theorem C19_bad_key_type_refused : forall m kt vt,
  has_type (SMap m) (TMap kt vt) -> key_ty_bad kt = true -> m <> [] -> exists e, ser (SMap m) = RErr e.
Proof. exact bad_key_type_refused. Qed.

(* MapKeySerializer accepts exactly the documented keys *)
Theorem C19_key_accepted_iff_admissible : forall k, admissible_key k = true <-> exists kk, ser_key k = ROk kk.
Proof. exact ser_key_admissible. Qed.

(* distinct keys of one key type stay distinct: no entry of a map is lost or merged *)
Theorem C19_keys_stay_distinct : forall t k1 k2 a b,
  has_type k1 t -> has_type k2 t -> ser_key k1 = ROk a -> ser_key k2 = ROk b ->
  fkey_eqb a b = true -> k1 = k2.
Proof. exact ser_key_inj. Qed.

(* printing.  `format` is a function of the value (and of the three std oracles) alone; what has
   to be shown is that the part of a value that is NOT data — the internal order of map entries —
   does not reach the output, that the entries come out in key order, and that integers come out
   as their decimal numeral. *)
Theorem C19_print_map_order_irrelevant : forall ffmt sdbg blossy m m',
  Permutation m m' -> kdistinct m ->
  format ffmt sdbg blossy (VMap m) = format ffmt sdbg blossy (VMap m').
Proof. exact format_map_perm. Qed.

Theorem C19_print_determined_by_data : forall ffmt sdbg blossy v w,
  canon v = canon w -> format ffmt sdbg blossy v = format ffmt sdbg blossy w.
Proof. exact format_determined_by_canon. Qed.

Theorem C19_print_map_sorted : forall ffmt sdbg blossy m,
  exists es,
    format ffmt sdbg blossy (VMap m)
      = [123%N] ++ join s_comma (map (fmt_entry sdbg) es) ++ [125%N]
    /\ Permutation es (map (fun e : key * value => (fst e, inner ffmt sdbg blossy (snd e))) m)
    /\ Sorted kle es.
Proof. exact format_map_sorted. Qed.

Theorem C19_print_integers_exact : forall ffmt sdbg blossy sg bits z,
  (exists x, ser (SInt sg bits z) = ROk x /\ format ffmt sdbg blossy x = dec z)
  /\ parse_dec (dec z) = Some z.
Proof. exact print_integers_exact. Qed.

(* the three ways of building a Context agree *)
Theorem C19_context_paths_agree : forall xs es,
  str_nodupb (map fst xs) = true -> ser_fields xs = ROk es ->
  from_serialize (SStruct xs) = ROk (insert_value_all es [])
  /\ insert_all xs [] = ROk (insert_value_all es []).
Proof. exact context_paths_agree. Qed.

(* a Value sent through serde AGAIN (`impl Serialize for Value` / `for Key`: Context::insert(k, &value),
   Value::from_serializable(&value)).  For every converted value — whatever it was converted from —
   the result is the same value (same kinds, same integer representations, same keys of the same
   key kind, same order; only the String-vs-Str variant of string keys, which no operation of the
   engine observes, may differ) *)
Theorem C19_reserialize_identity : forall sv x,
  ser sv = ROk x -> exists y, reser x = ROk y /\ value_same y x = true.
Proof. exact reserialize_identity. Qed.

(* for ALL well-formed values (bytes, 128-bit integers, undefined, safe strings, every key kind):
   never an error, and the result is `renorm` of the value: undefined -> none, the safe flag is
   dropped, borrowed string keys become owned; nothing else changes ... *)
Theorem C19_reserialize_all_values : forall v, wfv v -> reser v = ROk (renorm v).
Proof. exact reser_renorm. Qed.

(* ... so the values without undefined, safe strings and borrowed keys are exact fixed points *)
Theorem C19_reserialize_fixed_point : forall v, wfv v -> fixedv v -> reser v = ROk v.
Proof. exact reser_fixed_point. Qed.

(* the model of `impl Serialize for Value` is the existing serialiser applied to the data-model
   term a Value emits *)
Theorem C19_reser_is_ser : forall v, bytes_free v -> reser v = ser (to_sval v).
Proof. exact reser_is_ser. Qed.

(* `insert(k, &converted)` = `insert_value(k, converted)` *)
Theorem C19_insert_eq_insert_value : forall sv x k c,
  ser sv = ROk x ->
  exists y, insert_reser k x c = ROk (insert_value k y c) /\ value_same y x = true.
Proof. exact insert_eq_insert_value. Qed.

(* the pinned tree violates the round trip: D7 (by reference: options and enums), D14 (newtype
   structs, either entry point, silently altered) *)
Theorem C19_D7_pinned_byref_refuted :
  exists t v x, has_type v t /\ no_none_like_under_option t = true /\ names_ok t = true /\ keys_ok t = true /\
                ser v = ROk x /\ de_entry Pinned Owned t x = ROk v /\ de_entry Pinned ByRef t x = RErr ErrMsg.
Proof. exact D7_pinned_byref_refuted. Qed.

Theorem C19_D14_pinned_newtype_refuted :
  exists t v x w, has_type v t /\ no_none_like_under_option t = true /\ names_ok t = true /\ keys_ok t = true /\
                  ser v = ROk x /\ de_entry Pinned Owned t x = ROk w /\ de_entry Pinned ByRef t x = ROk w /\ w <> v.
Proof. exact D14_pinned_newtype_refuted. Qed.

(* ... and those two are the only ways it fails there: without newtype structs the owned entry point
   round-trips on the pinned tree, and so does `&Value` unless the type is an Option or an enum at
   the top *)
Theorem C19_pinned_roundtrip_outside_D7_D14 : forall t v x,
  no_newtype t = true -> no_none_like_under_option t = true -> names_ok t = true ->
  has_type v t -> ser v = ROk x ->
  de_entry Pinned Owned t x = ROk v
  /\ ((match t with TOption _ | TEnum _ => false | _ => true end) = true -> de_entry Pinned ByRef t x = ROk v).
Proof. exact pinned_roundtrip_outside_D7_D14. Qed.

Print Assumptions C19_de_ser_roundtrip.
Print Assumptions C19_pinned_roundtrip_outside_D7_D14.
Print Assumptions C19_de_ser_roundtrip_whenever_ser_ok.
Print Assumptions C19_bad_key_type_refused.
Print Assumptions C19_print_determined_by_data.
Print Assumptions C19_print_map_order_irrelevant.
Print Assumptions C19_print_integers_exact.
Print Assumptions C19_context_paths_agree.
Print Assumptions C19_reserialize_identity.
Print Assumptions C19_reserialize_all_values.
Print Assumptions C19_insert_eq_insert_value.

(* non-vacuity *)
Definition ex_ty : ty :=
  TStruct [([97%N], TInt false 64);
           ([98%N], TOption (TEnum [VUnit [65%N]; VTuple [67%N] [TInt true 128; TChar]]));
           ([109%N], TMap TChar (TSeq (TFloat 64)))].
Definition ex_val : sval :=
  SStruct [([97%N], SInt false 64 18446744073709551615);
           ([98%N], SSome (SVariant [67%N] VKTuple (STuple [SInt true 128 (-170141183460469231731687303715884105728); SChar 233%N])));
           ([109%N], SMap [(SChar 122%N, SSeq [SFloat 64 (S754_zero true)]); (SChar 97%N, SSeq [])])].

Example C19_ex_conditions :
  no_none_like_under_option ex_ty = true /\ names_ok ex_ty = true /\ keys_ok ex_ty = true.
Proof. vm_compute. repeat split. Qed.

Example C19_ex_roundtrip_both :
  res_bind (ser ex_val) (de_entry Fixed Owned ex_ty) = ROk ex_val
  /\ res_bind (ser ex_val) (de_entry Fixed ByRef ex_ty) = ROk ex_val.
Proof. vm_compute. split; reflexivity. Qed.

(* the excluded class really is excluded for a reason: Some(None) and Some(()) come back as None *)
Example C19_ex_nested_option_collapses :
  res_bind (ser (SSome SNone)) (de_entry Fixed Owned (TOption (TOption TBool))) = ROk SNone
  /\ res_bind (ser (SSome SUnit)) (de_entry Fixed Owned (TOption TUnit)) = ROk SNone.
Proof. vm_compute. split; reflexivity. Qed.

Example C19_ex_float_key_refused :
  ser (SMap [(SFloat 64 (S754_zero false), SBool true)]) = RErr ErrMsg.
Proof. vm_compute. reflexivity. Qed.

(* {"b": 1, "a": [true, none]} prints sorted whatever order it is stored in *)
Example C19_ex_print_sorted :
  format (fun _ => []) (fun s => [34%N] ++ s ++ [34%N]) (fun _ => [])
         (VMap [(KStr [98%N] true, VInt U64 1); (KStr [97%N] false, VArr [VBool true; VNone])])
  = [123; 34; 97; 34; 58; 32; 91; 116; 114; 117; 101; 44; 32; 93; 44; 32; 34; 98; 34; 58; 32; 49; 125]%N.
Proof. vm_compute. reflexivity. Qed.

(* a bool-keyed map stays bool-keyed when it goes through serde again *)
Example C19_ex_reser_bool_keys :
  res_bind (ser (SMap [(SBool true, SStr [121%N]); (SBool false, SStr [110%N])])) reser
  = ROk (VMap [(KBool true, VStr [121%N] false); (KBool false, VStr [110%N] false)]).
Proof. vm_compute. reflexivity. Qed.
