(* C13 — Integer arithmetic is exact or an error; mixed comparisons are exact.
   Only statements, each closed by `exact`; proofs live in Proofs/NumberProofs.v (arithmetic) and
   Proofs/NumCmpProofs.v (comparison).  Quantification: every integer operand in any of the four
   representations (the tag is universally quantified and never matters), every Z as its value
   (so also u128 values above i128::MAX, which are refused, never truncated), every double.

   `exact_or_error a b r` is: if a, b and r all fit i128 then Ok (VInt I128 r) else an error. *)
From TeraV Require Import Model.Value Model.Number Spec.Arith Proofs.NumberProofs
  Proofs.NumCmpProofs Proofs.NumCmpQ.

(* + - * and unary minus: the exact result iff operands and result fit, otherwise an error;
   nothing else can come out (no wrapped / truncated value, no panic) *)
Theorem C13_add_exact_or_error : forall ra a rb b,
  num_add (VInt ra a) (VInt rb b) = exact_or_error a b (a + b).
Proof. exact add_exact. Qed.

Theorem C13_sub_exact_or_error : forall ra a rb b,
  num_sub (VInt ra a) (VInt rb b) = exact_or_error a b (a - b).
Proof. exact sub_exact. Qed.

Theorem C13_mul_exact_or_error : forall ra a rb b,
  num_mul (VInt ra a) (VInt rb b) = exact_or_error a b (a * b).
Proof. exact mul_exact. Qed.

Theorem C13_neg_exact_or_error : forall ra a,
  num_negate (VInt ra a) = exact_or_error a a (- a).
Proof. exact neg_exact. Qed.

(* the same in the `<->` form of the design: Ok v iff operands in range, v exact, v in range *)
Theorem C13_exact_or_error_ok_iff : forall a b r v,
  exact_or_error a b r = Some (ROk v) <->
  fits_i128 a /\ fits_i128 b /\ v = VInt I128 r /\ fits_i128 r.
Proof. exact exact_or_error_ok. Qed.

Theorem C13_exact_or_error_else_error : forall a b r,
  exact_or_error a b r = Some (ROk (VInt I128 r)) \/ exact_or_error a b r = Some (RErr ErrMsg).
Proof. exact exact_or_error_total. Qed.

(* // and %: Euclidean quotient and remainder (the unique pair of the property text), each
   returned iff in range; division by zero is an error *)
Theorem C13_floordiv_rem_euclid : forall ra a rb b,
  b <> 0 ->
  num_floor_div (VInt ra a) (VInt rb b) = exact_or_error a b (euclid_div a b) /\
  num_rem (VInt ra a) (VInt rb b) = exact_or_error a b (euclid_mod a b) /\
  euclid_div a b * b + euclid_mod a b = a /\
  0 <= euclid_mod a b < Z.abs b.
Proof.
  exact (fun ra a rb b H =>
    conj (floor_div_exact ra a rb b H)
      (conj (rem_exact ra a rb b H) (euclid_spec_is_euclid a b H))).
Qed.

(* the specification's pair is THE pair satisfying the two laws of the property text *)
Theorem C13_euclid_pair_unique : forall a b q r,
  b <> 0 -> q * b + r = a /\ 0 <= r < Z.abs b -> q = euclid_div a b /\ r = euclid_mod a b.
Proof. exact euclid_unique. Qed.

(* the remainder always fits; the quotient fits except for i128::MIN // -1 *)
Theorem C13_euclid_results_fit : forall a b,
  b <> 0 -> fits_i128 a -> fits_i128 b ->
  fits_i128 (euclid_mod a b) /\
  (fits_i128 (euclid_div a b) <-> ~ (a = i128_min /\ b = -1)).
Proof.
  exact (fun a b H Ha Hb => conj (euclid_mod_fits a b H Hb) (euclid_div_fits a b H Ha Hb)).
Qed.

Theorem C13_division_by_zero_is_error : forall a rb s,
  (num_floor_div a (VInt rb 0) = Some (RErr ErrMsg) /\
   num_rem a (VInt rb 0) = Some (RErr ErrMsg) /\
   num_div a (VInt rb 0) = Some (RErr ErrMsg)) /\
  (num_floor_div a (VFloat (S754_zero s)) = Some (RErr ErrMsg) /\
   num_rem a (VFloat (S754_zero s)) = Some (RErr ErrMsg) /\
   num_div a (VFloat (S754_zero s)) = Some (RErr ErrMsg)).
Proof. exact (fun a rb s => conj (div_by_zero_errors a rb) (div_by_float_zero_errors a s)). Qed.

(* D3: the function as it was before fixes/D3-rem-min-neg1.patch refuses i128::MIN % -1 *)
Theorem C13_rem_before_D3_refuted : exists a b,
  b <> 0 /\ fits_i128 a /\ fits_i128 b /\ fits_i128 (euclid_mod a b) /\
  num_rem_before_D3 (VInt I128 a) (VInt I64 b) <> exact_or_error a b (euclid_mod a b).
Proof. exact rem_before_D3_refuted. Qed.

(* **: exact iff in range for every non-negative exponent up to u32::MAX.  Exponents above
   u32::MAX are the known finding `pow:exponent>u32::MAX` (D4): always an error, although the
   result fits when the base is -1, 0 or 1. *)
Theorem C13_pow_exact : forall ra a rb b,
  0 <= b -> ~ pow_exponent_above_u32 b ->
  num_pow (VInt ra a) (VInt rb b) = exact_or_error a b (a ^ b).
Proof. exact pow_exact. Qed.

Theorem C13_pow_exact_refuted : exists a b,
  0 <= b /\ pow_exponent_above_u32 b /\ fits_i128 a /\ fits_i128 b /\ fits_i128 (a ^ b) /\
  num_pow (VInt U64 a) (VInt U64 b) = Some (RErr ErrMsg).
Proof. exact pow_exact_refuted. Qed.

Theorem C13_pow_above_u32_is_error : forall ra a rb b,
  pow_exponent_above_u32 b -> num_pow (VInt ra a) (VInt rb b) = Some (RErr ErrMsg).
Proof. exact pow_above_u32_errors. Qed.

(* std's checked_pow (square-and-multiply over checked_mul, ported literally with 32 units of
   fuel) never runs out of fuel for a u32 exponent and returns the exact power iff it fits *)
Theorem C13_checked_pow_loop_exact : forall a e,
  fits_i128 a -> 0 <= e <= u32_max ->
  checked_pow_loop a e = Some (if in_i128 (a ^ e) then Some (a ^ e) else None).
Proof.
  exact (fun a e Ha He =>
    eq_trans (checked_pow_loop_spec a e Ha He)
             (f_equal Some (checked_pow_spec a e (proj1 He)))).
Qed.

(* `/` always yields the float quotient of the two operands converted to f64 *)
Theorem C13_div_is_float : forall a b l r,
  as_number a = Some l -> as_number b = Some r ->
  num_div a b =
    if num_is_zero r then Some (RErr ErrMsg)
    else Some (ROk (VFloat (SFdiv 53 1024 (into_float l) (into_float r)))).
Proof. exact div_is_float. Qed.

(* any float operand: the operation is the IEEE one on the operands converted to f64 *)
Theorem C13_float_operand_promotes : forall a b l r,
  as_number a = Some l -> as_number b = Some r ->
  num_is_float l || num_is_float r = true ->
  num_add a b = Some (ROk (VFloat (SFadd 53 1024 (into_float l) (into_float r)))) /\
  num_sub a b = Some (ROk (VFloat (SFsub 53 1024 (into_float l) (into_float r)))) /\
  num_mul a b = Some (ROk (VFloat (SFmul 53 1024 (into_float l) (into_float r)))).
Proof. exact float_operand_promotes. Qed.

(* an integer that does not fit i128 (a u128 above i128::MAX) is refused by every operation *)
Theorem C13_oversize_operand_is_error : forall op ra a b,
  in_i128 a = false ->
  num_binop op (VInt ra a) b = Some (RErr ErrMsg) /\ num_binop op b (VInt ra a) = Some (RErr ErrMsg).
Proof. exact oversize_operand_errors. Qed.

(* never a panic, for operands of any kind *)
Theorem C13_no_panic : forall op a b,
  vm_binop op a b <> Some (RErr ErrPanic) /\ vm_negative a <> Some (RErr ErrPanic).
Proof. exact (fun op a b => conj (vm_binop_no_panic op a b) (vm_negative_no_panic a)). Qed.

(* ------------------------------------------------------------------ comparison
   wf_num v: v is an integer within the range of its representation tag (any of U64 / I64 /
   U128 / I128) or a binary64 double (any: zeros, subnormals, infinities, NaN).
   xval v: its exact mathematical value (an integer, a dyadic rational m*2^e, -inf, +inf, NaN);
   xcmp: the exact order on those, NaN equal to itself and above everything. *)

(* the ordering and the equality the engine computes ARE the exact ones, for any two numbers in
   any of the five encodings *)
Theorem C13_num_cmp_exact : forall a b,
  wf_num a -> wf_num b ->
  num_partial_cmp a b = Some (xcmp (xval a) (xval b)) /\
  (num_eq a b = true <-> xeq (xval a) (xval b)).
Proof. exact num_cmp_exact. Qed.

(* the literal ports of cmp_f64_to_i128 / cmp_f64_to_u128 (guards at 2^127 and 2^128 through the
   rounded constants, floor, saturating cast, tie-break) compare a double with an integer exactly *)
Theorem C13_cmp_f64_to_i128_exact : forall x n,
  valid64 x -> fits_i128 n ->
  cmp_f64_to_i128 x n = xcmp (xval_float x) (XFin n 0).
Proof. exact cmp_f64_to_i128_exact. Qed.

Theorem C13_cmp_f64_to_u128_exact : forall x n,
  valid64 x -> 0 <= n <= u128_max ->
  cmp_f64_to_u128 x n = xcmp (xval_float x) (XFin n 0).
Proof. exact cmp_f64_to_u128_exact. Qed.

(* the six template operators == != < <= > >= answer according to the exact order *)
Theorem C13_vm_cmp_exact : forall op a b,
  wf_num a -> wf_num b ->
  vm_cmp op a b = ROk (VBool (spec_test op (xcmp (xval a) (xval b)))).
Proof. exact vm_cmp_exact. Qed.

(* IEEE comparison of two valid doubles is the exact comparison of their values *)
Theorem C13_float_compare_exact : forall x y,
  valid64 x -> valid64 y -> not_nan x -> not_nan y ->
  SFcompare x y = Some (xcmp (xval_float x) (xval_float y)).
Proof. exact SFcompare_exact. Qed.

(* the exact order is a total order (on values up to equality of value) *)
Theorem C13_xcmp_total_order : forall a b c r,
  xcmp a a = Eq /\ xcmp b a = CompOpp (xcmp a b) /\
  (xcmp a b = r -> xcmp b c = r -> xcmp a c = r) /\
  (xcmp a b = Eq -> xcmp a c = xcmp b c).
Proof.
  exact (fun a b c r => conj (xcmp_refl a) (conj (xcmp_antisym a b)
           (conj (xcmp_trans r a b c) (xcmp_eq_l a b c)))).
Qed.

(* ... and it is the order of the rationals: comparing m1 * 2^e1 with m2 * 2^e2 in Coq's Q *)
Theorem C13_exact_order_is_rational_order : forall m1 e1 m2 e2,
  xcmp (XFin m1 e1) (XFin m2 e2) =
  QArith_base.Qcompare (dyQ m1 e1) (dyQ m2 e2).
Proof. exact dy_cmp_is_Qcompare. Qed.

(* hence: reflexive, antisymmetric / symmetric, transitive, == consistent with the ordering *)
Theorem C13_num_cmp_reflexive : forall a, wf_num a ->
  num_partial_cmp a a = Some Eq /\ num_eq a a = true.
Proof. exact num_cmp_refl. Qed.

Theorem C13_num_cmp_antisymmetric : forall a b, wf_num a -> wf_num b ->
  num_partial_cmp b a = option_map CompOpp (num_partial_cmp a b) /\ num_eq b a = num_eq a b.
Proof. exact num_cmp_antisym. Qed.

Theorem C13_num_cmp_transitive : forall r a b c, wf_num a -> wf_num b -> wf_num c ->
  num_partial_cmp a b = Some r -> num_partial_cmp b c = Some r -> num_partial_cmp a c = Some r.
Proof. exact num_cmp_trans. Qed.

Theorem C13_num_eq_transitive : forall a b c, wf_num a -> wf_num b -> wf_num c ->
  num_eq a b = true -> num_eq b c = true -> num_eq a c = true.
Proof. exact num_eq_trans. Qed.

Theorem C13_num_eq_iff_cmp_equal : forall a b, wf_num a -> wf_num b ->
  (num_eq a b = true <-> num_partial_cmp a b = Some Eq).
Proof. exact num_eq_iff_cmp_eq. Qed.

(* comparison results never depend on how a number happened to be represented *)
Theorem C13_num_cmp_representation_independent : forall a a' b,
  wf_num a -> wf_num a' -> wf_num b -> num_eq a a' = true ->
  num_partial_cmp a b = num_partial_cmp a' b /\ num_eq a b = num_eq a' b /\
  num_partial_cmp b a = num_partial_cmp b a' /\ num_eq b a = num_eq b a'.
Proof. exact num_cmp_rep_independent. Qed.

Theorem C13_same_integer_any_tag : forall ra rb z b,
  rep_ok ra z = true -> rep_ok rb z = true -> wf_num b ->
  num_partial_cmp (VInt ra z) b = num_partial_cmp (VInt rb z) b /\
  num_eq (VInt ra z) b = num_eq (VInt rb z) b.
Proof. exact same_int_any_rep. Qed.

(* NaN equal to itself and ordered after every number; -0 = +0 = 0 *)
Theorem C13_nan_is_greatest : forall b, wf_num b ->
  num_partial_cmp (VFloat S754_nan) b = Some (match b with VFloat S754_nan => Eq | _ => Gt end) /\
  num_eq (VFloat S754_nan) (VFloat S754_nan) = true.
Proof. exact nan_is_greatest. Qed.

(* explicit clause for the zeros: -0.0, +0.0 and the integer 0 in any tag are equal and NEITHER
   IS BELOW THE OTHER — for each of the six operators the answer is the one for equal operands,
   in every pairing and operand order *)
Theorem C13_signed_zeros_equal_and_unordered : forall sa sb r op,
  vm_cmp op (VFloat (S754_zero sa)) (VFloat (S754_zero sb)) = ROk (VBool (spec_test op Eq)) /\
  vm_cmp op (VFloat (S754_zero sa)) (VInt r 0) = ROk (VBool (spec_test op Eq)) /\
  vm_cmp op (VInt r 0) (VFloat (S754_zero sa)) = ROk (VBool (spec_test op Eq)) /\
  num_partial_cmp (VFloat (S754_zero sa)) (VFloat (S754_zero sb)) = Some Eq /\
  num_eq (VFloat (S754_zero sa)) (VFloat (S754_zero sb)) = true.
Proof. exact signed_zero_clause. Qed.

(* explicit clause for NaN: equal to itself and ordered after every other number (integers of
   every width, every double, both infinities), on either side, for each of the six operators.
   spec_float has ONE NaN: sign bit and payload do not exist in the model, so the statement is
   about NaNs of either sign and any payload; that the code really does not look at them is what
   the correspondence run checks with eight NaN bit patterns (quiet/signalling, both signs). *)
Theorem C13_nan_equal_to_itself_and_last : forall b op, wf_num b -> b <> VFloat S754_nan ->
  vm_cmp op (VFloat S754_nan) b = ROk (VBool (spec_test op Gt)) /\
  vm_cmp op b (VFloat S754_nan) = ROk (VBool (spec_test op Lt)) /\
  vm_cmp op (VFloat S754_nan) (VFloat S754_nan) = ROk (VBool (spec_test op Eq)).
Proof. exact nan_clause. Qed.

Theorem C13_zeros_equal : forall r,
  num_eq (VFloat (S754_zero true)) (VFloat (S754_zero false)) = true /\
  num_eq (VFloat (S754_zero true)) (VInt r 0) = true /\
  num_eq (VInt r 0) (VFloat (S754_zero false)) = true /\
  num_partial_cmp (VFloat (S754_zero true)) (VInt r 0) = Some Eq.
Proof. exact zeros_equal. Qed.

Print Assumptions C13_add_exact_or_error.
Print Assumptions C13_floordiv_rem_euclid.
Print Assumptions C13_pow_exact.
Print Assumptions C13_no_panic.
Print Assumptions C13_num_cmp_exact.
Print Assumptions C13_vm_cmp_exact.
Print Assumptions C13_exact_order_is_rational_order.
Print Assumptions C13_checked_pow_loop_exact.
Print Assumptions C13_num_cmp_representation_independent.

(* non-vacuity *)
Example C13_ex_add_overflow :
  vm_binop OpAdd (VInt I128 i128_max) (VInt U64 1) = Some (RErr ErrRender).
Proof. vm_compute. reflexivity. Qed.
Example C13_ex_mixed_reps :
  vm_binop OpSub (VInt U128 5) (VInt U64 10) = Some (ROk (VInt I128 (-5))).
Proof. vm_compute. reflexivity. Qed.
Example C13_ex_euclid :
  vm_binop OpFloorDiv (VInt I64 (-7)) (VInt I64 2) = Some (ROk (VInt I128 (-4))) /\
  vm_binop OpRem (VInt I64 (-7)) (VInt I64 2) = Some (ROk (VInt I128 1)) /\
  vm_binop OpFloorDiv (VInt I64 7) (VInt I64 (-2)) = Some (ROk (VInt I128 (-3))) /\
  vm_binop OpRem (VInt I64 7) (VInt I64 (-2)) = Some (ROk (VInt I128 1)).
Proof. vm_compute. auto. Qed.
Example C13_ex_min_neg1 :
  vm_binop OpRem (VInt I128 i128_min) (VInt I64 (-1)) = Some (ROk (VInt I128 0)) /\
  vm_binop OpFloorDiv (VInt I128 i128_min) (VInt I64 (-1)) = Some (RErr ErrRender).
Proof. vm_compute. auto. Qed.
Example C13_ex_pow :
  vm_binop OpPow (VInt I64 (-2)) (VInt U64 127) = Some (ROk (VInt I128 i128_min)) /\
  vm_binop OpPow (VInt U64 2) (VInt U64 127) = Some (RErr ErrRender).
Proof. vm_compute. auto. Qed.

(* 2^53 + 1 is not representable: the double 2^53 is below it, the double 2^53 + 2 above it, and
   a lossy `as f64` comparison would call the first pair equal *)
Example C13_ex_cmp_2p53 :
  vm_cmp OpLt (VFloat (S754_finite false 4503599627370496 1)) (VInt U64 9007199254740993) = ROk (VBool true) /\
  vm_cmp OpEq (VFloat (S754_finite false 4503599627370496 1)) (VInt U64 9007199254740993) = ROk (VBool false) /\
  vm_cmp OpGt (VFloat (S754_finite false 4503599627370497 1)) (VInt I128 9007199254740993) = ROk (VBool true).
Proof. vm_compute. auto. Qed.
(* i128::MAX as f64 rounds to 2^127, which is above i128::MAX and equal to the u128 2^127 *)
Example C13_ex_cmp_2p127 :
  vm_cmp OpGt (VFloat (S754_finite false 4503599627370496 75)) (VInt I128 i128_max) = ROk (VBool true) /\
  vm_cmp OpEq (VFloat (S754_finite false 4503599627370496 75)) (VInt U128 two127) = ROk (VBool true) /\
  vm_cmp OpLt (VFloat (S754_finite false 4503599627370496 76)) (VInt U128 u128_max) = ROk (VBool false).
Proof. vm_compute. auto. Qed.
Example C13_ex_wf_satisfiable :
  wf_num (VInt U128 u128_max) /\ wf_num (VInt I128 i128_min) /\ wf_num (VFloat S754_nan) /\
  wf_num (VFloat (S754_finite true 1 (-1074))) /\ wf_num (VFloat (S754_finite false 9007199254740991 971)).
Proof. vm_compute. auto. Qed.

Example C13_ex_zero_not_below_zero :
  vm_cmp OpLt (VFloat (S754_zero true)) (VFloat (S754_zero false)) = ROk (VBool false) /\
  vm_cmp OpGe (VFloat (S754_zero true)) (VFloat (S754_zero false)) = ROk (VBool true) /\
  vm_cmp OpGt (VFloat S754_nan) (VFloat (S754_infinity false)) = ROk (VBool true) /\
  vm_cmp OpLe (VFloat S754_nan) (VFloat S754_nan) = ROk (VBool true).
Proof. vm_compute. auto. Qed.
