(* C03 — Control flow, variable scoping, captures and includes behave as documented.
   Statements over the concrete VM model (Model/VM.v); proofs in Proofs/VMProofs.v.
   The model itself is tied to vm/interpreter.rs, vm/state.rs and vm/for_loop.rs by running the
   REAL finalized chunks of generated templates and template sets on it (Corr/CorrVM.v). *)
From TeraV Require Import Model.Value Model.Instr Model.VFormat Model.VM Model.World0 Spec.Stmt Model.Compile
  Proofs.VMProofs Proofs.CompileProofs.
Local Open Scope nat_scope.

(* Names resolve innermost loop first, then assignments, then the includer's scopes (only when
   they bind the name), then the render context, then the global context. *)
Theorem C03_scope_chain : forall loops setvars parent context global n,
  scope_get (Scope loops setvars parent context global) n =
  lookup_spec loops setvars (match parent with Some p => scope_get p n | None => VUndef end)
              context global n.
Proof. exact scope_chain. Qed.

(* loop.index0 / first / last / length and the current element after the k-th Iterate of a loop
   over `items` (array elements, string characters, map entries), for every k and every
   non-zero end_ip (compiled loops always have one: C09's iterate_forward side condition);
   per-iteration assignments are cleared when the next iteration starts *)
Theorem C03_loop_counters : forall items comp e k,
  e <> 0 -> 1 <= k <= length items ->
  let f := advance_n k (new_loop items comp) e in
  lf_index0 f = k - 1 /\
  lf_first f = Nat.eqb k 1 /\
  lf_last f = Nat.eqb k (length items) /\
  lf_length f = length items /\
  nth_error items (k - 1) = Some (lf_current f) /\
  lf_rest f = skipn k items /\
  lf_iterated f = true /\
  lf_end_ip f = e /\
  (2 <= k -> lf_context f = []).
Proof. exact loop_counters. Qed.

(* the `end_ip != 0` convention is load-bearing: with a zero end_ip the counters never move *)
Theorem C03_loop_counters_need_nonzero_end_ip : forall items comp k,
  lf_index0 (advance_n k (new_loop items comp) 0) = 0.
Proof. exact loop_counters_need_nonzero_end_ip. Qed.

(* an assignment inside a loop body goes to the innermost frame only; outside loops it is global *)
Theorem C03_store_local_in_loop : forall s f t n v,
  loops s = f :: t ->
  loops (store_local s n v) = lf_store f n v :: t /\ setvars (store_local s n v) = setvars s.
Proof. exact store_local_in_loop. Qed.

Theorem C03_store_local_outside_loop : forall s n v,
  loops s = [] -> store_local s n v = store_global s n v.
Proof. exact store_local_outside_loop. Qed.

(* set_global (and set outside loops) is what later lookups see, unless a loop variable shadows it *)
Theorem C03_set_global_persists : forall s n v,
  get_value (store_global s n v) n = v \/ exists f, In f (loops s) /\ lf_get f n <> None.
Proof. exact set_global_persists. Qed.

Print Assumptions C03_scope_chain.
Print Assumptions C03_loop_counters.

Example C03_ex_counters :
  let f := advance_n 2 (new_loop [(None, VInt U64 7); (None, VInt U64 8); (None, VInt U64 9)] false) 5 in
  (lf_index0 f, lf_first f, lf_last f, snd (lf_current f)) = (1, false, false, VInt U64 8).
Proof. vm_compute. reflexivity. Qed.


(* ================= compiled control flow = the reference interpreter ================= *)

(* MAIN THEOREM (compile_correct).  Spec/Stmt.v is a big-step, fuel-free interpreter of statement
   trees written from the documentation; Model/Compile.v is the port of compile_node/compile_expr
   (back-patched jump targets); Model/VM.v is the port of interpret().  For every template
   library (statement trees of ANY nesting: if/elif/else, for [key,] value with else over arrays,
   strings and maps, break/continue under any ifs in nested loops, set/set_global, set blocks and
   filter sections with filters, includes -- in captures, in loops), every context and global
   context, every world whose kwargs keys are strings and whose filters and functions do not
   inspect the VM state, and every non-failing appending writer: rendering the compiled library on the VM gives
   exactly the text of the reference interpreter, or both fail; any fuel >= n is enough.
   This contains for_loop_refinement, break_continue_innermost, if_first_truthy_branch (with
   C03_if_first_truthy_branch below) and capture exactness of DESIGN §6.
   Expressions covered (Spec/Stmt.v expr, Compile.wf_expr): constants, variables, loop.* fields,
   attributes (plain and optional `?.`), not/and/or, ==, every other binary operator (+ - * / //
   % ** < <= > >= != ~ in; `not in` = not (.. in ..)), unary minus, the ternary, subscripts and
   slices (plain and optional), tests, filters with keyword arguments.  The operators, subscript
   and slice are parameters of the reference interpreter (builtins b_binop, b_neg, b_subscript,
   b_slice: C13/C14/C17 own their meaning); what is proved here is evaluation order, error
   propagation, short-circuiting and that only the chosen branch of a ternary is evaluated.
   Function calls with keyword arguments are covered too (b_function; the world's functions must
   not read the VM state, as for filters; `super()` is excluded by wf_expr: it is not a function).
   EXCLUDED by wf_expr (compiled by Model/Compile.v and covered by C07_compile_always_checks,
   but compile_correct is not proved for them): array and map literals.
   Hypotheses on the trees (lib_wf = what the parser guarantees, Compile.wf_stmt): break/continue
   only in a loop and not across a capture, loop.* only inside a for, non-empty loop variable
   names, user variables not named __tera_context/__tera_loop_*, includes name templates listed
   later in the library (acyclic include graph, C11). *)
Theorem C03_compile_correct :
  forall (W : Type) (wr : W -> str -> option W) (wapp : W -> str -> W),
    (forall w t, wr w t = Some (wapp w t)) ->
    (forall w a b, wapp (wapp w a) b = wapp w (a ++ b)) ->
    (forall w, wapp w [] = w) ->
  forall wd : world,
    (forall k, w_as_key wd (VStr k false) = Some (KStr k true)) ->
    (forall n v k sc sc', w_filter wd n v k sc = w_filter wd n v k sc') ->
    (forall n k sc sc', w_function wd n k sc = w_function wd n k sc') ->
  forall (lib : list tdef) (name : str) (t : tdef) (cx glob : ctx) (w : W),
    world_has wd lib -> lib_wf lib -> find_t lib name = Some t ->
    match render (builtins_of_world wd) None lib name cx glob with
    | ROk text => exists n s', forall k,
        render_to W wr wd (n + k) (compile_tdef t) None cx glob w = RDone s' (SinkTop (wapp w text))
    | RErr _ => exists n e, forall k,
        render_to W wr wd (n + k) (compile_tdef t) None cx glob w = RFail e
    end.
Proof. exact compile_correct. Qed.

(* the instance the correspondence runs: string writer, the world of Model/World0.v whose template
   table is the compiled library *)
Theorem C03_compile_correct_world0 :
  forall (lib : list tdef) (name : str) (t : tdef) (cx glob : ctx) (w : str),
    NoDup (map td_name lib) -> lib_wf lib -> find_t lib name = Some t ->
    let wd := world0 (map (fun t => (td_name t, compile_tdef t)) lib) in
    match render (builtins_of_world wd) None lib name cx glob with
    | ROk text => exists n s', forall k,
        render_to str wr_str wd (n + k) (compile_tdef t) None cx glob w = RDone s' (SinkTop (w ++ text))
    | RErr _ => exists n e, forall k,
        render_to str wr_str wd (n + k) (compile_tdef t) None cx glob w = RFail e
    end.
Proof. exact compile_correct_world0. Qed.

(* statement level, inside any chunk at any position: the "code at pc" invariant.  list_ok says:
   from pc, in any state, the compiled statements reach pc+length (normal end), the Iterate of
   the innermost enclosing loop (continue) or that loop's end (break) -- never another loop's --
   with the loops/assignments of the reference outcome and its text appended to the current
   sink (innermost capture buffer, else the output); or fail when the reference fails. *)
Theorem C03_body_correct :
  forall (W : Type) (wr : W -> str -> option W) (wapp : W -> str -> W),
    (forall w t, wr w t = Some (wapp w t)) ->
    (forall w a b, wapp (wapp w a) b = wapp w (a ++ b)) ->
    (forall w, wapp w [] = w) ->
  forall wd : world,
    (forall k, w_as_key wd (VStr k false) = Some (KStr k true)) ->
    (forall n v k sc sc', w_filter wd n v k sc = w_filter wd n v k sc') ->
    (forall n k sc sc', w_function wd n k sc = w_function wd n k sc') ->
  forall tpl ae depth ch inc okn,
    inc_sim W wr wapp wd ae depth inc okn ->
    forall body, list_ok W wr wapp wd tpl ae depth ch inc okn body.
Proof. exact body_correct. Qed.

(* if / elif* / else renders exactly the first branch whose condition is truthy (reference
   interpreter; C03_compile_correct carries it to the compiled code) *)
Theorem C03_if_first_truthy_branch : forall B ae inc branches els en,
  exec_list B ae inc (if_chain branches els) en
  = match first_truthy B branches els en with
    | ROk body => exec_list B ae inc body en
    | RErr x => RErr x
    end.
Proof. exact if_first_truthy_branch. Qed.

(* capture exactness.  PARTIAL: stated for compiled statement lists (every body a set block or
   filter section can have), not for arbitrary instruction segments between Capture and
   EndCapture: the captured string (run with a fresh buffer on the capture stack) is exactly the
   text the same code appends to the enclosing sink when run without it, includes included. *)
Theorem C03_capture_is_exact_partial :
  forall (W : Type) (wr : W -> str -> option W) (wapp : W -> str -> W),
    (forall w t, wr w t = Some (wapp w t)) ->
    (forall w a b, wapp (wapp w a) b = wapp w (a ++ b)) ->
    (forall w, wapp w [] = w) ->
  forall wd : world,
    (forall k, w_as_key wd (VStr k false) = Some (KStr k true)) ->
    (forall n v k sc sc', w_filter wd n v k sc = w_filter wd n v k sc') ->
    (forall n k sc sc', w_function wd n k sc = w_function wd n k sc') ->
  forall tpl ae depth ch inc okn,
    inc_sim W wr wapp wd ae depth inc okn ->
  forall body lex pc b stk l sv c o,
    forallb (wf_stmt okn lex false) body = true -> pre lex None b l ->
    code_at ch pc (compile_seq compile_node pc None body) ->
    match exec_list (builtins_of_world wd) (aesc tpl ae) inc body (absE b l sv) with
    | ROk (en1, text, SigNormal) =>
        let pe := pc + length (compile_seq compile_node pc None body) in
        (exists l' sv', en1 = absE b l' sv' /\
           steps W wr wd tpl ae depth ch pc (mk b stk l sv ([] :: c)) o pe (mk b stk l' sv' (text :: c)) o) /\
        (exists l' sv', en1 = absE b l' sv' /\
           steps W wr wd tpl ae depth ch pc (mk b stk l sv c) o pe
                 (mk b stk l' sv' (out_caps c text)) (out_sink W wapp c o text))
    | _ => True
    end.
Proof. exact capture_is_exact_compiled. Qed.

(* Include, for EVERY chunk, included chunk and outcome: the include's own final state is dropped;
   the includer goes on from its own unchanged state, only the text reaches its current sink *)
Theorem C03_include_state_is_fresh :
  forall (W : Type) (wr : W -> str -> option W) (wd : world) f tpl ae depth ch pc s (o : sink W) name t2,
    nth_error ch pc = Some (Include name) -> assoc_get (w_templates wd) name = Some t2 ->
    run W wr wd (S f) tpl ae depth ch pc s o
    = match caps s with
      | [] => match run W wr wd f t2 ae depth (t_root_chunk t2) 0 (inc_state (scope_of s) (context s)) o with
              | RDone _ o1 => run W wr wd f tpl ae depth ch (S pc) s o1
              | RFail e => RFail e
              | ROutOfFuel => ROutOfFuel
              end
      | c :: ct => match run W wr wd f t2 ae depth (t_root_chunk t2) 0 (inc_state (scope_of s) (context s)) (SinkBuf c) with
                   | RDone _ (SinkBuf c1) => run W wr wd f tpl ae depth ch (S pc) (upd_caps s (c1 :: ct)) o
                   | RDone _ (SinkTop _) => RFail ErrPanic
                   | RFail e => RFail e
                   | ROutOfFuel => ROutOfFuel
                   end
      end.
Proof. exact include_state_is_fresh. Qed.

(* a render is a function of (templates, context, global context) only: it starts from the fresh
   state, in which a name resolves to the context, then the global context, else Undefined *)
Theorem C03_nothing_survives_render :
  forall (W : Type) (wr : W -> str -> option W) (wd : world) fuel tpl cx glob (w : W),
    render_to W wr wd fuel tpl None cx glob w
    = run W wr wd fuel tpl None 0 (t_root_chunk tpl) 0 (fresh_state cx glob) (SinkTop w)
    /\ forall n, get_value (fresh_state cx glob) n
                 = match ctx_get cx n with
                   | Some v => v
                   | None => match ctx_get glob n with Some v => v | None => VUndef end
                   end.
Proof. exact nothing_survives_render. Qed.

Print Assumptions C03_compile_correct.
Print Assumptions C03_compile_correct_world0.
Print Assumptions C03_body_correct.
Print Assumptions C03_if_first_truthy_branch.
Print Assumptions C03_capture_is_exact_partial.
Print Assumptions C03_include_state_is_fresh.
Print Assumptions C03_nothing_survives_render.

(* non-vacuity: {% for x in a %}{% if x == 2 %}{% continue %}{% endif %}{% if x == 4 %}{% break %}{% endif %}
   {{ loop.index }}:{% include "i" %};{% else %}e{% endfor %}{{ x | default(value="n") }}
   with "i" = {{ x }}{% set x = 9 %}: continue and break act on the loop, the include sees the loop
   variable, its assignment does not reach the includer, the loop variable is gone after the loop *)
Definition ex_inc : tdef :=
  {| td_name := [105]%N; td_autoescape := false;
     td_body := [SPrint (EVar [120]%N); SAssign false [120]%N (EConst (VInt U64 9))] |}.
Definition ex_main : tdef :=
  {| td_name := [116]%N; td_autoescape := false;
     td_body :=
       [SFor None [120]%N (EVar [97]%N)
          [SIf (EEq (EVar [120]%N) (EConst (VInt U64 2))) [SContinue] [];
           SIf (EEq (EVar [120]%N) (EConst (VInt U64 4))) [SBreak] [];
           SPrint (ELoop LIndex); SText [58]%N; SInclude [105]%N; SText [59]%N]
          [SText [101]%N];
        SPrint (EFilter (EVar [120]%N) [100;101;102;97;117;108;116]%N
                  [([118;97;108;117;101]%N, EConst (VStr [110]%N false))])] |}.
Definition ex_lib := [ex_main; ex_inc].
Definition ex_ctx : ctx :=
  [([97]%N, VArr [VInt U64 1; VInt U64 2; VInt U64 3; VInt U64 4; VInt U64 5])].
Definition ex_world := world0 (map (fun t => (td_name t, compile_tdef t)) ex_lib).

Example C03_ex_lib_wf : lib_wf ex_lib /\ NoDup (map td_name ex_lib) /\ find_t ex_lib [116]%N = Some ex_main.
Proof.
  split; [vm_compute; repeat split|]. split; [|reflexivity].
  repeat constructor; cbn; intuition discriminate.
Qed.

Example C03_ex_reference :
  render (builtins_of_world ex_world) None ex_lib [116]%N ex_ctx [] = ROk [49;58;49;59;51;58;51;59;110]%N.
Proof. vm_compute. reflexivity. Qed.

Example C03_ex_vm :
  match render_to str wr_str ex_world 400 (compile_tdef ex_main) None ex_ctx [] [] with
  | RDone _ (SinkTop out) => out
  | _ => []
  end = [49;58;49;59;51;58;51;59;110]%N.
Proof. vm_compute. reflexivity. Qed.

(* the operator / ternary / subscript / slice / optional-chaining forms:
   {% for x in a %}{{ (x ~ "<") if x < 3 and x != 2 else ("k" in m) }}{{ a[1:][0] }}{{ m?.k }}{% endfor %}
   is well formed, and the reference interpreter and the compiled code on the VM agree *)
Definition ex2_main : tdef :=
  {| td_name := [116]%N; td_autoescape := false;
     td_body :=
       [SFor None [120]%N (EVar [97]%N)
          [SPrint (ETernary (EAnd (EBin BLt (EVar [120]%N) (EConst (VInt I64 3))) (EBin BNe (EVar [120]%N) (EConst (VInt I64 2))))
                            (EBin BConcat (EVar [120]%N) (EConst (VStr [60]%N false)))
                            (EBin BIn (EConst (VStr [107]%N false)) (EVar [109]%N)));
           SPrint (ESub false (ESlice false (EVar [97]%N) (Some (EConst (VInt I64 1))) None None) (EConst (VInt I64 0)));
           SPrint (EAttrOpt (EVar [109]%N) [107]%N)] []] |}.
Definition ex2_ctx : ctx :=
  [([97]%N, VArr [VInt U64 1; VInt U64 2; VInt U64 3]); ([109]%N, VMap [(KStr [107]%N true, VStr [118]%N false)])].
Definition ex2_world := world0 [([116]%N, compile_tdef ex2_main)].
Definition ex2_out : str := [49; 60; 50; 118; 116; 114; 117; 101; 50; 118; 116; 114; 117; 101; 50; 118]%N.   (* 1<2vtrue2vtrue2v *)

Example C03_ex_operators :
  wf_body (fun _ => false) (td_body ex2_main) = true /\
  render (builtins_of_world ex2_world) None [ex2_main] [116]%N ex2_ctx [] = ROk ex2_out /\
  match render_to str wr_str ex2_world 400 (compile_tdef ex2_main) None ex2_ctx [] [] with
  | RDone _ (SinkTop out) => out
  | _ => []
  end = ex2_out.
Proof. vm_compute. repeat split. Qed.

(* ================= the full world (Model/World1.v) ================= *)
(* Everything the VM delegates is, in World1, the per-property model of the Rust function: Number.v
   (C13), Order.v (C15), CollFilters.v (C16), Builtins.v (C17), Component.v (C05), Format.v (C19)
   with FloatFmt.v for `{:?}` of f64.  Family `vm1` runs the real chunks in that world. *)
From TeraV Require Model.World1 Model.Number Model.Order Model.Component Model.Format Model.Builtins
  Proofs.World1Proofs Proofs.World1Compile Proofs.World1Format Proofs.NumCmpProofs.

(* the main theorem transfers: World1 satisfies the two world hypotheses of C03_compile_correct
   (string kwargs keys become owned string keys; no built-in filter reads the VM state), for any
   component table *)
Theorem C03_compile_correct_world1 :
  forall (lib : list tdef) (comps : list (str * (comp_def * list instr)))
         (name : str) (t : tdef) (cx glob : ctx) (w : str),
    NoDup (map td_name lib) -> lib_wf lib -> find_t lib name = Some t ->
    let wd := World1.world1 (map (fun t => (td_name t, compile_tdef t)) lib) comps in
    match render (builtins_of_world wd) None lib name cx glob with
    | ROk text => exists n s', forall k,
        render_to str World1.wr_str1 wd (n + k) (compile_tdef t) None cx glob w = RDone s' (SinkTop (w ++ text))
    | RErr _ => exists n e, forall k,
        render_to str World1.wr_str1 wd (n + k) (compile_tdef t) None cx glob w = RFail e
    end.
Proof. exact World1Compile.compile_correct_world1. Qed.

(* World1 answers what World0 answers on the World0 subset: well-formed (Order.wf) float-free
   values; `<` between undefined/none/bool/integer/string operands; default, length, upper on
   ASCII text, safe on strings (`pushed` = the value ApplyFilter pushes: World0 flags `safe` as an
   is_safe filter, the engine and World1 do not -- the filter mints the safe string itself);
   tests defined/undefined.  w_format: C03_world1_format_extends_world0 below.  World0 has no
   arithmetic, functions or components to agree with (ErrOther / None there).  Outside the subset
   World0 is NOT the engine (see C03_world0_is_a_toy). *)
Theorem C03_world1_extends_world0 : forall tpls comps,
  let w1 := World1.world1 tpls comps in
  let w0 := world0 tpls in
  w_templates w1 = w_templates w0 /\
  w_max_depth w1 = w_max_depth w0 /\
  w_escape w1 = w_escape w0 /\
  (forall v, w_as_key w1 v = w_as_key w0 v) /\
  (forall v a, w_get_attr w1 v a = w_get_attr w0 v a) /\
  (forall m k, World1Proofs.kwf m -> Order.key_wf k = true -> w_map_get w1 m k = w_map_get w0 m k) /\
  (forall a b, Order.wf a -> World1Proofs.ffree a = true -> Order.wf b -> World1Proofs.ffree b = true ->
               w_eq w1 a b = w_eq w0 a b) /\
  (forall a b, Order.wf a -> Order.wf b -> World1Proofs.w0_scalar a = true -> World1Proofs.w0_scalar b = true ->
               w_cmp w1 a b = w_cmp w0 a b) /\
  (forall c n, Order.wf c -> World1Proofs.ffree c = true -> Order.wf n -> World1Proofs.ffree n = true ->
               w_contains w1 c n = w_contains w0 c n) /\
  (forall v k sc, w_filter w1 n_default v k sc = w_filter w0 n_default v k sc) /\
  (forall v k sc, w_filter w1 n_length v k sc = w_filter w0 n_length v k sc) /\
  (forall s o k sc, World1Proofs.pushed (w_filter w1 n_safe (VStr s o) k sc)
                    = World1Proofs.pushed (w_filter w0 n_safe (VStr s o) k sc)) /\
  (forall v k sc, (forall s o, v = VStr s o -> World1.is_ascii_str s = true) ->
                  w_filter w1 n_upper v k sc = w_filter w0 n_upper v k sc) /\
  (forall v k, w_test w1 n_defined v k = w_test w0 n_defined v k) /\
  (forall v k, w_test w1 n_undefined v k = w_test w0 n_undefined v k).
Proof. exact World1Proofs.world1_extends_world0. Qed.

(* Value::format: Format.v (C19) with World1's oracles prints what VFormat.v (World0) prints for
   every well-formed value without floats and byte strings -- in particular the two decimal
   printers (Coq's Z.to_int and the division loop of VFormat.z_to_str) give the same numeral *)
Theorem C03_world1_format_extends_world0 : forall tpls comps v,
  Order.wf v -> World1Format.plain v = true ->
  w_format (World1.world1 tpls comps) v = w_format (world0 tpls) v.
Proof. exact (fun _ _ => World1Format.format1_format_value). Qed.

(* where the toy world is not the engine (all three outside what the `vm` family generates):
   arrays are ordered, `safe` formats a non-string receiver, an ill-formed "unsigned -1" key *)
Theorem C03_world0_is_a_toy :
  (vcmp0 (VArr [VInt U64 1%Z]) (VArr [VInt U64 2%Z]) = None /\
   Order.vpcmp (VArr [VInt U64 1%Z]) (VArr [VInt U64 2%Z]) = Some Lt) /\
  (filter0 n_safe (VInt U64 1%Z) [] (Scope [] [] None [] None) = Some (RErr ErrMsg, true) /\
   World1.filter1 n_safe (VInt U64 1%Z) [] (Scope [] [] None [] None) = Some (ROk (VStr [49%N] true), false)) /\
  (key_eq (KInt I64 (-1)%Z) (KInt U64 (-1)%Z) = true /\ Order.key_eq (KInt I64 (-1)%Z) (KInt U64 (-1)%Z) = false).
Proof.
  exact (conj World1Proofs.vcmp0_differs_on_arrays
           (conj World1Proofs.filter_safe_differs_on_non_strings World1Proofs.key_eq_vformat_differs_on_ill_formed)).
Qed.

(* the models World1 plugs together agree where they describe the same Rust function *)

(* Key::eq and Key::cmp: VFormat.v (C01/C03), Format.v (C19), Component.v (C05) = Order.v (C15) on
   keys whose integer fits its variant *)
Theorem C03_models_agree_on_keys : forall a b, Order.key_wf a = true -> Order.key_wf b = true ->
  key_eq a b = Order.key_eq a b /\ Format.fkey_eqb a b = Order.key_eq a b /\
  Component.key_eqb a b = Order.key_eq a b /\
  key_cmp a b = Order.key_cmp a b /\ Format.fkey_cmp a b = Order.key_cmp a b.
Proof.
  exact (fun a b Ha Hb =>
    conj (World1Proofs.key_eq_vformat a b Ha Hb)
      (conj (World1Proofs.key_eq_format a b Ha Hb)
        (conj (World1Proofs.key_eq_component a b Ha Hb)
          (conj (World1Proofs.key_cmp_vformat a b Ha Hb) (World1Proofs.key_cmp_format a b Ha Hb))))).
Qed.

(* Map::get, Value::get_attr (VFormat.v looks up with Map::get, Order.v ports the linear scan under
   the cutoff + the hash lookup), kwargs.get(&Key::Str(name)) as Component.v and Builtins.v read it *)
Theorem C03_models_agree_on_lookups :
  (forall m k, World1Proofs.kwf m -> Order.key_wf k = true -> map_get m k = Order.map_get m k) /\
  (forall v a, get_attr v a = Order.get_attr v a) /\
  (forall v, as_key v = Order.as_key v) /\
  (forall m n, Component.kw_get m n = Order.map_get m (KStr n false)) /\
  (forall k n, Builtins.kw_find n (World1.kw_strs k) = Order.map_get k (KStr n false)).
Proof.
  exact (conj World1Proofs.map_get_vformat
          (conj World1Proofs.get_attr_vformat
            (conj World1Proofs.as_key_vformat
              (conj World1Proofs.kw_get_component World1Proofs.kw_find_strs)))).
Qed.

(* numeric == and partial_cmp: Number.v (C13, f64 primitives of SpecFloat) = Order.v (C15, exact
   dyadic comparison) for every pair of numbers the engine can hold *)
Theorem C03_models_agree_on_numbers : forall a b, NumCmpProofs.wf_num a -> NumCmpProofs.wf_num b ->
  Number.num_partial_cmp a b = Order.vpcmp a b /\ Number.num_eq a b = Order.veq a b.
Proof.
  exact (fun a b Wa Wb => conj (World1Proofs.num_partial_cmp_vpcmp a b Wa Wb) (World1Proofs.num_eq_veq a b Wa Wb)).
Qed.

(* utils::escape_html: Builtins.v (the escape_html filter) = VFormat.v (the escaper of WriteTop) *)
Theorem C03_models_agree_on_escape_html : forall s, Builtins.escape_html s = escape_html s.
Proof. exact World1Proofs.escape_html_builtins. Qed.

Print Assumptions C03_compile_correct_world1.
Print Assumptions C03_world1_extends_world0.
Print Assumptions C03_world1_format_extends_world0.
Print Assumptions C03_world0_is_a_toy.
Print Assumptions C03_models_agree_on_keys.
Print Assumptions C03_models_agree_on_lookups.
Print Assumptions C03_models_agree_on_numbers.
Print Assumptions C03_models_agree_on_escape_html.

(* non-vacuity: {{ (n + 1.5) * 2 }}|{{ xs | sort | join(sep="-") }}|{{ 7 // 2 }} in World1 *)
Example C03_ex_world1 :
  let tpl := {| t_name := [116]%N;
                t_chunk := [LoadName [110]%N; LoadConst (VFloat (S754_finite false 6755399441055744 (-52))); Plus;
                            LoadConst (VInt U64 2%Z); Mul; WriteTop; WriteText [124]%N;
                            LoadName [120;115]%N; LoadConst (VMap []); ApplyFilter [115;111;114;116]%N;
                            LoadConst (VMap [(KStr [115;101;112]%N true, VStr [45]%N false)]);
                            ApplyFilter [106;111;105;110]%N; WriteTop; WriteText [124]%N;
                            LoadConst (VInt U64 7%Z); LoadConst (VInt U64 2%Z); FloorDiv; WriteTop];
                t_root_chunk := []; t_lineage := []; t_autoescape := true |} in
  match run str World1.wr_str1 (World1.world1 [] []) 100 tpl None 0 (t_chunk tpl) 0
            (new_state [([110]%N, VInt U64 3%Z); ([120;115]%N, VArr [VInt U64 3%Z; VInt U64 1%Z; VInt U64 2%Z])])
            (SinkTop []) with
  | RDone _ (SinkTop out) => out
  | _ => []
  end = [57;46;48;124;49;45;50;45;51;124;51]%N.   (* 9.0|1-2-3|3 *)
Proof. vm_compute. reflexivity. Qed.
