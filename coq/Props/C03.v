(* C03 — Control flow, variable scoping, captures and includes behave as documented.
   Statements over the concrete VM model (Model/VM.v); proofs in Proofs/VMProofs.v.
   The model itself is tied to vm/interpreter.rs, vm/state.rs and vm/for_loop.rs by running the
   REAL finalized chunks of generated templates and template sets on it (Corr/CorrVM.v). *)
From TeraV Require Import Model.Value Model.Instr Model.VFormat Model.VM Model.World0 Spec.Stmt Model.Compile
  Proofs.VMProofs Proofs.CompileProofs.
Local Open Scope nat_scope.

(* Names resolve innermost loop first, then assignments, then the includer's scopes (only when
   they bind the name), then the render context, then the global context. *)
Theorem C03_scope_chain : forall loops setvars parent context global n,
  scope_get (Scope loops setvars parent context global) n =
  lookup_spec loops setvars (match parent with Some p => scope_get p n | None => VUndef end)
              context global n.
Proof. exact scope_chain. Qed.

(* loop.index0 / first / last / length and the current element after the k-th Iterate of a loop
   over `items` (array elements, string characters, map entries), for every k and every
   non-zero end_ip (compiled loops always have one: C09's iterate_forward side condition);
   per-iteration assignments are cleared when the next iteration starts *)
Theorem C03_loop_counters : forall items comp e k,
  e <> 0 -> 1 <= k <= length items ->
  let f := advance_n k (new_loop items comp) e in
  lf_index0 f = k - 1 /\
  lf_first f = Nat.eqb k 1 /\
  lf_last f = Nat.eqb k (length items) /\
  lf_length f = length items /\
  nth_error items (k - 1) = Some (lf_current f) /\
  lf_rest f = skipn k items /\
  lf_iterated f = true /\
  lf_end_ip f = e /\
  (2 <= k -> lf_context f = []).
Proof. exact loop_counters. Qed.

(* the `end_ip != 0` convention is load-bearing: with a zero end_ip the counters never move *)
Theorem C03_loop_counters_need_nonzero_end_ip : forall items comp k,
  lf_index0 (advance_n k (new_loop items comp) 0) = 0.
Proof. exact loop_counters_need_nonzero_end_ip. Qed.

(* an assignment inside a loop body goes to the innermost frame only; outside loops it is global *)
Theorem C03_store_local_in_loop : forall s f t n v,
  loops s = f :: t ->
  loops (store_local s n v) = lf_store f n v :: t /\ setvars (store_local s n v) = setvars s.
Proof. exact store_local_in_loop. Qed.

Theorem C03_store_local_outside_loop : forall s n v,
  loops s = [] -> store_local s n v = store_global s n v.
Proof. exact store_local_outside_loop. Qed.

(* set_global (and set outside loops) is what later lookups see, unless a loop variable shadows it *)
Theorem C03_set_global_persists : forall s n v,
  get_value (store_global s n v) n = v \/ exists f, In f (loops s) /\ lf_get f n <> None.
Proof. exact set_global_persists. Qed.

Print Assumptions C03_scope_chain.
Print Assumptions C03_loop_counters.

Example C03_ex_counters :
  let f := advance_n 2 (new_loop [(None, VInt U64 7); (None, VInt U64 8); (None, VInt U64 9)] false) 5 in
  (lf_index0 f, lf_first f, lf_last f, snd (lf_current f)) = (1, false, false, VInt U64 8).
Proof. vm_compute. reflexivity. Qed.


(* ================= compiled control flow = the reference interpreter ================= *)

(* MAIN THEOREM (compile_correct).  Spec/Stmt.v is a big-step, fuel-free interpreter of statement
   trees written from the documentation; Model/Compile.v is the port of compile_node/compile_expr
   (back-patched jump targets); Model/VM.v is the port of interpret().  For every template
   library (statement trees of ANY nesting: if/elif/else, for [key,] value with else over arrays,
   strings and maps, break/continue under any ifs in nested loops, set/set_global, set blocks and
   filter sections with filters, includes -- in captures, in loops), every context and global
   context, every world whose kwargs keys are strings and whose filters do not inspect the VM
   state, and every non-failing appending writer: rendering the compiled library on the VM gives
   exactly the text of the reference interpreter, or both fail; any fuel >= n is enough.
   This contains for_loop_refinement, break_continue_innermost, if_first_truthy_branch (with
   C03_if_first_truthy_branch below) and capture exactness of DESIGN §6.
   Hypotheses on the trees (lib_wf = what the parser guarantees, Compile.wf_stmt): break/continue
   only in a loop and not across a capture, loop.* only inside a for, non-empty loop variable
   names, user variables not named __tera_context/__tera_loop_*, includes name templates listed
   later in the library (acyclic include graph, C11). *)
Theorem C03_compile_correct :
  forall (W : Type) (wr : W -> str -> option W) (wapp : W -> str -> W),
    (forall w t, wr w t = Some (wapp w t)) ->
    (forall w a b, wapp (wapp w a) b = wapp w (a ++ b)) ->
    (forall w, wapp w [] = w) ->
  forall wd : world,
    (forall k, w_as_key wd (VStr k false) = Some (KStr k true)) ->
    (forall n v k sc sc', w_filter wd n v k sc = w_filter wd n v k sc') ->
  forall (lib : list tdef) (name : str) (t : tdef) (cx glob : ctx) (w : W),
    world_has wd lib -> lib_wf lib -> find_t lib name = Some t ->
    match render (builtins_of_world wd) None lib name cx glob with
    | ROk text => exists n s', forall k,
        render_to W wr wd (n + k) (compile_tdef t) None cx glob w = RDone s' (SinkTop (wapp w text))
    | RErr _ => exists n e, forall k,
        render_to W wr wd (n + k) (compile_tdef t) None cx glob w = RFail e
    end.
Proof. exact compile_correct. Qed.

(* the instance the correspondence runs: string writer, the world of Model/World0.v whose template
   table is the compiled library *)
Theorem C03_compile_correct_world0 :
  forall (lib : list tdef) (name : str) (t : tdef) (cx glob : ctx) (w : str),
    NoDup (map td_name lib) -> lib_wf lib -> find_t lib name = Some t ->
    let wd := world0 (map (fun t => (td_name t, compile_tdef t)) lib) in
    match render (builtins_of_world wd) None lib name cx glob with
    | ROk text => exists n s', forall k,
        render_to str wr_str wd (n + k) (compile_tdef t) None cx glob w = RDone s' (SinkTop (w ++ text))
    | RErr _ => exists n e, forall k,
        render_to str wr_str wd (n + k) (compile_tdef t) None cx glob w = RFail e
    end.
Proof. exact compile_correct_world0. Qed.

(* statement level, inside any chunk at any position: the "code at pc" invariant.  list_ok says:
   from pc, in any state, the compiled statements reach pc+length (normal end), the Iterate of
   the innermost enclosing loop (continue) or that loop's end (break) -- never another loop's --
   with the loops/assignments of the reference outcome and its text appended to the current
   sink (innermost capture buffer, else the output); or fail when the reference fails. *)
Theorem C03_body_correct :
  forall (W : Type) (wr : W -> str -> option W) (wapp : W -> str -> W),
    (forall w t, wr w t = Some (wapp w t)) ->
    (forall w a b, wapp (wapp w a) b = wapp w (a ++ b)) ->
    (forall w, wapp w [] = w) ->
  forall wd : world,
    (forall k, w_as_key wd (VStr k false) = Some (KStr k true)) ->
    (forall n v k sc sc', w_filter wd n v k sc = w_filter wd n v k sc') ->
  forall tpl ae depth ch inc okn,
    inc_sim W wr wapp wd ae depth inc okn ->
    forall body, list_ok W wr wapp wd tpl ae depth ch inc okn body.
Proof. exact body_correct. Qed.

(* if / elif* / else renders exactly the first branch whose condition is truthy (reference
   interpreter; C03_compile_correct carries it to the compiled code) *)
Theorem C03_if_first_truthy_branch : forall B ae inc branches els en,
  exec_list B ae inc (if_chain branches els) en
  = match first_truthy B branches els en with
    | ROk body => exec_list B ae inc body en
    | RErr x => RErr x
    end.
Proof. exact if_first_truthy_branch. Qed.

(* capture exactness.  PARTIAL: stated for compiled statement lists (every body a set block or
   filter section can have), not for arbitrary instruction segments between Capture and
   EndCapture: the captured string (run with a fresh buffer on the capture stack) is exactly the
   text the same code appends to the enclosing sink when run without it, includes included. *)
Theorem C03_capture_is_exact_partial :
  forall (W : Type) (wr : W -> str -> option W) (wapp : W -> str -> W),
    (forall w t, wr w t = Some (wapp w t)) ->
    (forall w a b, wapp (wapp w a) b = wapp w (a ++ b)) ->
    (forall w, wapp w [] = w) ->
  forall wd : world,
    (forall k, w_as_key wd (VStr k false) = Some (KStr k true)) ->
    (forall n v k sc sc', w_filter wd n v k sc = w_filter wd n v k sc') ->
  forall tpl ae depth ch inc okn,
    inc_sim W wr wapp wd ae depth inc okn ->
  forall body lex pc b stk l sv c o,
    forallb (wf_stmt okn lex false) body = true -> pre lex None b l ->
    code_at ch pc (compile_seq compile_node pc None body) ->
    match exec_list (builtins_of_world wd) (aesc tpl ae) inc body (absE b l sv) with
    | ROk (en1, text, SigNormal) =>
        let pe := pc + length (compile_seq compile_node pc None body) in
        (exists l' sv', en1 = absE b l' sv' /\
           steps W wr wd tpl ae depth ch pc (mk b stk l sv ([] :: c)) o pe (mk b stk l' sv' (text :: c)) o) /\
        (exists l' sv', en1 = absE b l' sv' /\
           steps W wr wd tpl ae depth ch pc (mk b stk l sv c) o pe
                 (mk b stk l' sv' (out_caps c text)) (out_sink W wapp c o text))
    | _ => True
    end.
Proof. exact capture_is_exact_compiled. Qed.

(* Include, for EVERY chunk, included chunk and outcome: the include's own final state is dropped;
   the includer goes on from its own unchanged state, only the text reaches its current sink *)
Theorem C03_include_state_is_fresh :
  forall (W : Type) (wr : W -> str -> option W) (wd : world) f tpl ae depth ch pc s (o : sink W) name t2,
    nth_error ch pc = Some (Include name) -> assoc_get (w_templates wd) name = Some t2 ->
    run W wr wd (S f) tpl ae depth ch pc s o
    = match caps s with
      | [] => match run W wr wd f t2 ae depth (t_root_chunk t2) 0 (inc_state (scope_of s) (context s)) o with
              | RDone _ o1 => run W wr wd f tpl ae depth ch (S pc) s o1
              | RFail e => RFail e
              | ROutOfFuel => ROutOfFuel
              end
      | c :: ct => match run W wr wd f t2 ae depth (t_root_chunk t2) 0 (inc_state (scope_of s) (context s)) (SinkBuf c) with
                   | RDone _ (SinkBuf c1) => run W wr wd f tpl ae depth ch (S pc) (upd_caps s (c1 :: ct)) o
                   | RDone _ (SinkTop _) => RFail ErrPanic
                   | RFail e => RFail e
                   | ROutOfFuel => ROutOfFuel
                   end
      end.
Proof. exact include_state_is_fresh. Qed.

(* a render is a function of (templates, context, global context) only: it starts from the fresh
   state, in which a name resolves to the context, then the global context, else Undefined *)
Theorem C03_nothing_survives_render :
  forall (W : Type) (wr : W -> str -> option W) (wd : world) fuel tpl cx glob (w : W),
    render_to W wr wd fuel tpl None cx glob w
    = run W wr wd fuel tpl None 0 (t_root_chunk tpl) 0 (fresh_state cx glob) (SinkTop w)
    /\ forall n, get_value (fresh_state cx glob) n
                 = match ctx_get cx n with
                   | Some v => v
                   | None => match ctx_get glob n with Some v => v | None => VUndef end
                   end.
Proof. exact nothing_survives_render. Qed.

Print Assumptions C03_compile_correct.
Print Assumptions C03_compile_correct_world0.
Print Assumptions C03_body_correct.
Print Assumptions C03_if_first_truthy_branch.
Print Assumptions C03_capture_is_exact_partial.
Print Assumptions C03_include_state_is_fresh.
Print Assumptions C03_nothing_survives_render.

(* non-vacuity: {% for x in a %}{% if x == 2 %}{% continue %}{% endif %}{% if x == 4 %}{% break %}{% endif %}
   {{ loop.index }}:{% include "i" %};{% else %}e{% endfor %}{{ x | default(value="n") }}
   with "i" = {{ x }}{% set x = 9 %}: continue and break act on the loop, the include sees the loop
   variable, its assignment does not reach the includer, the loop variable is gone after the loop *)
Definition ex_inc : tdef :=
  {| td_name := [105]%N; td_autoescape := false;
     td_body := [SPrint (EVar [120]%N); SAssign false [120]%N (EConst (VInt U64 9))] |}.
Definition ex_main : tdef :=
  {| td_name := [116]%N; td_autoescape := false;
     td_body :=
       [SFor None [120]%N (EVar [97]%N)
          [SIf (EEq (EVar [120]%N) (EConst (VInt U64 2))) [SContinue] [];
           SIf (EEq (EVar [120]%N) (EConst (VInt U64 4))) [SBreak] [];
           SPrint (ELoop LIndex); SText [58]%N; SInclude [105]%N; SText [59]%N]
          [SText [101]%N];
        SPrint (EFilter (EVar [120]%N) [100;101;102;97;117;108;116]%N
                  [([118;97;108;117;101]%N, EConst (VStr [110]%N false))])] |}.
Definition ex_lib := [ex_main; ex_inc].
Definition ex_ctx : ctx :=
  [([97]%N, VArr [VInt U64 1; VInt U64 2; VInt U64 3; VInt U64 4; VInt U64 5])].
Definition ex_world := world0 (map (fun t => (td_name t, compile_tdef t)) ex_lib).

Example C03_ex_lib_wf : lib_wf ex_lib /\ NoDup (map td_name ex_lib) /\ find_t ex_lib [116]%N = Some ex_main.
Proof.
  split; [vm_compute; repeat split|]. split; [|reflexivity].
  repeat constructor; cbn; intuition discriminate.
Qed.

Example C03_ex_reference :
  render (builtins_of_world ex_world) None ex_lib [116]%N ex_ctx [] = ROk [49;58;49;59;51;58;51;59;110]%N.
Proof. vm_compute. reflexivity. Qed.

Example C03_ex_vm :
  match render_to str wr_str ex_world 400 (compile_tdef ex_main) None ex_ctx [] [] with
  | RDone _ (SinkTop out) => out
  | _ => []
  end = [49;58;49;59;51;58;51;59;110]%N.
Proof. vm_compute. reflexivity. Qed.
