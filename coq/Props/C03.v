(* C03 — Control flow, variable scoping, captures and includes behave as documented.
   Statements over the concrete VM model (Model/VM.v); proofs in Proofs/VMProofs.v.
   The model itself is tied to vm/interpreter.rs, vm/state.rs and vm/for_loop.rs by running the
   REAL finalized chunks of generated templates and template sets on it (Corr/CorrVM.v). *)
From TeraV Require Import Model.Value Model.Instr Model.VFormat Model.VM Proofs.VMProofs.
Local Open Scope nat_scope.

(* Names resolve innermost loop first, then assignments, then the includer's scopes (only when
   they bind the name), then the render context, then the global context. *)
Theorem C03_scope_chain : forall loops setvars parent context global n,
  scope_get (Scope loops setvars parent context global) n =
  lookup_spec loops setvars (match parent with Some p => scope_get p n | None => VUndef end)
              context global n.
Proof. exact scope_chain. Qed.

(* loop.index0 / first / last / length and the current element after the k-th Iterate of a loop
   over `items` (array elements, string characters, map entries), for every k and every
   non-zero end_ip (compiled loops always have one: C09's iterate_forward side condition);
   per-iteration assignments are cleared when the next iteration starts *)
Theorem C03_loop_counters : forall items comp e k,
  e <> 0 -> 1 <= k <= length items ->
  let f := advance_n k (new_loop items comp) e in
  lf_index0 f = k - 1 /\
  lf_first f = Nat.eqb k 1 /\
  lf_last f = Nat.eqb k (length items) /\
  lf_length f = length items /\
  nth_error items (k - 1) = Some (lf_current f) /\
  lf_rest f = skipn k items /\
  lf_iterated f = true /\
  lf_end_ip f = e /\
  (2 <= k -> lf_context f = []).
Proof. exact loop_counters. Qed.

(* the `end_ip != 0` convention is load-bearing: with a zero end_ip the counters never move *)
Theorem C03_loop_counters_need_nonzero_end_ip : forall items comp k,
  lf_index0 (advance_n k (new_loop items comp) 0) = 0.
Proof. exact loop_counters_need_nonzero_end_ip. Qed.

(* an assignment inside a loop body goes to the innermost frame only; outside loops it is global *)
Theorem C03_store_local_in_loop : forall s f t n v,
  loops s = f :: t ->
  loops (store_local s n v) = lf_store f n v :: t /\ setvars (store_local s n v) = setvars s.
Proof. exact store_local_in_loop. Qed.

Theorem C03_store_local_outside_loop : forall s n v,
  loops s = [] -> store_local s n v = store_global s n v.
Proof. exact store_local_outside_loop. Qed.

(* set_global (and set outside loops) is what later lookups see, unless a loop variable shadows it *)
Theorem C03_set_global_persists : forall s n v,
  get_value (store_global s n v) n = v \/ exists f, In f (loops s) /\ lf_get f n <> None.
Proof. exact set_global_persists. Qed.

Print Assumptions C03_scope_chain.
Print Assumptions C03_loop_counters.

Example C03_ex_counters :
  let f := advance_n 2 (new_loop [(None, VInt U64 7); (None, VInt U64 8); (None, VInt U64 9)] false) 5 in
  (lf_index0 f, lf_first f, lf_last f, snd (lf_current f)) = (1, false, false, VInt U64 8).
Proof. vm_compute. reflexivity. Qed.
