(* C04 — Inheritance: blocks resolve to the most-derived override and super() walks up.
   Property theorems only; proofs are in Proofs/Lineage{Render,Proofs,Main}.v.

   Reading guide.  ts : the registered template set (names distinct); ord / ord' : the
   iteration orders of every HashMap finalize_templates walks (any permutations);
   is_chain ts (T :: anc) : T extends the head of anc, ... , the last one extends nothing;
   register = parse-level checks + finalize_templates; render_model / render_block_model =
   the VM on the finalized set (with fixes/D8 applied; *_pinned = the code before it);
   spec_* = Spec/Inherit.v, written from the property text.
   Termination.  Model and specification carry the SAME fuel (depth of nested block/super()
   activations), so the render theorems hold for every fuel without a termination hypothesis
   (a render that exceeds the fuel says EOutOfFuel on both sides).  Since the D13 repair,
   finalize rejects every set whose (block, level) graph has a cycle (EBlockCycle; ported as
   find_block_cycle / cycle_pass), including sets whose render would stop with an error before
   looping; "accepted => the render terminates" is plausible but NOT proved here
   (accepted_no_block_cycle only states that the ported check found nothing). *)
From Coq Require Import List NArith Bool.
From TeraV Require Import Model.Lineage Spec.Inherit Proofs.LineageRender Proofs.LineageProofs Proofs.LineageMain Proofs.LineageNoNest.
Import ListNotations.

(* block_lineage(T)(b) = most-derived definition, then - while the previous one calls super() -
   the nearest ancestors defining b (the list stops at the first definition without super():
   nothing further can be reached); absent iff nobody in the chain defines b.
   For every chain and every iteration order. *)
Theorem lineage_spec : forall ord ts fr T anc b,
  orders_ok ord -> NoDup (tnames ts) -> register ord ts = Ok fr -> is_chain ts (T :: anc) ->
  lineage_of fr (t_name T) b = nonempty (map code_of (spec_lineage (T :: anc) b)).
Proof. intros. eapply registered_chain; eauto. Qed.

(* verdict (accepted / which error), parents and every lineage entry are the same for all
   iteration orders of the template map, the blocks maps, tpl_parents and the cloned parent maps *)
Theorem finalize_order_independent : forall ord ord' ts,
  orders_ok ord -> orders_ok ord' -> NoDup (tnames ts) ->
  rmap (fun _ => tt) (register ord ts) = rmap (fun _ => tt) (register ord' ts) /\
  forall fr fr', register ord ts = Ok fr -> register ord' ts = Ok fr' ->
    f_tpls fr = f_tpls fr' /\
    forall t, In t ts ->
      ancl (f_parents fr) (t_name t) = ancl (f_parents fr') (t_name t) /\
      forall b, lineage_of fr (t_name t) b = lineage_of fr' (t_name t) b.
Proof. exact register_order_independent. Qed.

(* the VM render of T = the root ancestor's body with every block (any depth, inside captures)
   replaced by its most-derived definition, super() = same block in the nearest defining
   ancestor, error if none.  Any chain length, any nesting, any fuel. *)
Theorem render_chain_spec : forall ord ts fr fuel T anc,
  orders_ok ord -> NoDup (tnames ts) -> register ord ts = Ok fr -> is_chain ts (T :: anc) ->
  render_model fuel fr (t_name T) = rmap flat (spec_render fuel (T :: anc)).
Proof. intros. eapply render_chain_spec_l; eauto. Qed.

(* an accepted set: in every chain, every top-level block of a child is defined (anywhere) by
   an ancestor *)
Theorem child_blocks_must_exist : forall ord ts fr ch,
  orders_ok ord -> NoDup (tnames ts) -> register ord ts = Ok fr -> is_chain ts ch ->
  spec_accepts ch = true.
Proof. intros. eapply accepted_chain_ok; eauto. Qed.

(* ... and a chain that breaks the rule makes registration fail with the orphan-block error
   (sets without duplicate block names in which every template has a chain) *)
Theorem child_blocks_must_exist_rejects : forall ord ts ch,
  orders_ok ord -> NoDup (tnames ts) ->
  (forall t, In t ts -> NoDup (map fst (blocks_of (t_body t)))) ->
  (forall t, In t ts -> exists anc, is_chain ts (t :: anc)) ->
  is_chain ts ch -> spec_accepts ch = false ->
  register ord ts = Err EOrphanBlock.
Proof. intros. eapply chain_bad_rejected; eauto. Qed.

(* the orphan rule looks at top-level blocks only: whatever blocks children introduce inside
   other blocks, a set whose chains pass the rule is not rejected by it.  What is left is
   finalize's block-cycle check (the D13 repair, find_block_cycle): registration succeeds unless
   that check finds a block that ends up rendering itself.  (EPanic / EOutOfFuel are the
   model's explicit markers for an impossible index / too little fuel inside the ported walk;
   the correspondence run never meets them; they are not excluded by proof.) *)
Theorem nested_new_blocks_allowed : forall ord ts,
  orders_ok ord -> NoDup (tnames ts) ->
  (forall t, In t ts -> NoDup (map fst (blocks_of (t_body t)))) ->
  (forall t, In t ts -> exists anc, is_chain ts (t :: anc)) ->
  (forall ch, is_chain ts ch -> spec_accepts ch = true) ->
  forall e, register ord ts = Err e -> e = EBlockCycle \/ e = EPanic \/ e = EOutOfFuel.
Proof. intros. eapply chains_ok_only_cycle_rejection; eauto. Qed.

(* an accepted set passed the block-cycle check for every template *)
Theorem accepted_no_block_cycle : forall ord ts fr,
  orders_ok ord -> NoDup (tnames ts) -> register ord ts = Ok fr ->
  cycle_pass (f_tpls fr) (f_lineage fr) = Ok [].
Proof.
  intros ord ts fr Ho Hnd Hr. destruct (reg_facts ord ts fr Hr) as (Hca & Hfin & Hbl).
  assert (Hwf : reg_wf (map compiled ts)) by (eapply reg_wf_compiled; eauto).
  destruct (finalize_ok ord _ fr Ho Hwf Hfin) as (Htp & _ & _ & Hc & _). now rewrite Htp.
Qed.

(* single-block rendering, exact form: the block buffer after the full render's tree *)
Theorem render_block_spec : forall ord ts fr fuel T anc b,
  orders_ok ord -> NoDup (tnames ts) -> register ord ts = Ok fr -> is_chain ts (T :: anc) ->
  render_block_model fuel fr (t_name T) b =
  match resolve (T :: anc) b with
  | None => Err EBlockNotFound
  | Some _ => rmap (lastw (Some b) []) (spec_render fuel (T :: anc))
  end.
Proof. intros. eapply render_block_spec_l; eauto. Qed.

(* a finite render never activates a block inside its own activation (an activation does not
   depend on its context, so it would contain itself) *)
Theorem no_block_inside_itself : forall fuel ch b tr,
  spec_render fuel ch = Ok tr -> self_nested b tr = false.
Proof. intros. eapply no_self_nesting; eauto. Qed.

(* render_block(T, b) = exactly the text block b writes during the full render of T: the text
   under its TBlock node (all its activations write the same text; the buffer keeps the last
   one), "" if the render never reaches it; the same error if the render fails; "not found" iff
   nobody in the chain defines b. *)
Theorem render_block_is_slice_of_render : forall ord ts fr fuel T anc b,
  orders_ok ord -> NoDup (tnames ts) -> register ord ts = Ok fr -> is_chain ts (T :: anc) ->
  match resolve (T :: anc) b with
  | None => render_block_model fuel fr (t_name T) b = Err EBlockNotFound
  | Some _ =>
      match spec_render fuel (T :: anc) with
      | Ok tr => render_model fuel fr (t_name T) = Ok (flat tr) /\
                 render_block_model fuel fr (t_name T) b = Ok (last (block_writes b tr) [])
      | Err e => render_model fuel fr (t_name T) = Err e /\
                 render_block_model fuel fr (t_name T) b = Err e
      end
  end.
Proof.
  intros ord ts fr fuel T anc b Ho Hnd Hr Hc.
  rewrite (render_chain_spec_l ord ts fr Ho Hnd Hr fuel T anc Hc).
  rewrite (render_block_spec_l ord ts fr Ho Hnd Hr fuel T anc b Hc).
  destruct (resolve (T :: anc) b); auto.
  destruct (spec_render fuel (T :: anc)) as [tr|e] eqn:E; cbn [rmap]; auto.
  split; auto. rewrite lastw_last; auto. eapply no_self_nesting; eauto.
Qed.

(* ------------------------------------------------------------------ D8: the pinned code *)

Local Open Scope N_scope.

Definition d8_base : template :=
  {| t_name := 0; t_extends := None;
     t_body := [Text 1; FilterSection KFilter [Text 2; BlockDef 0 [Text 3]; Text 4]; Text 5] |}.

(* before fixes/D8-render-block-in-capture.patch: render_block of a block inside a filter
   section returns "" although the block writes t3 during the full render *)
Theorem render_block_is_slice_of_render_pinned_refuted :
  exists ts fr T b tr,
    register id_orders ts = Ok fr /\ is_chain ts [T] /\
    spec_render 5 [T] = Ok tr /\ self_nested b tr = false /\
    block_writes b tr = [[OText 3]] /\
    render_block_model_pinned 5 fr (t_name T) b = Ok [] /\
    render_block_model 5 fr (t_name T) b = Ok [OText 3].
Proof.
  eexists [d8_base], _, d8_base, 0, _. split; [vm_compute; reflexivity|].
  split; [cbn; auto|]. split; [vm_compute; reflexivity|]. repeat split; vm_compute; reflexivity.
Qed.

Print Assumptions lineage_spec.
Print Assumptions finalize_order_independent.
Print Assumptions render_chain_spec.
Print Assumptions child_blocks_must_exist.
Print Assumptions child_blocks_must_exist_rejects.
Print Assumptions nested_new_blocks_allowed.
Print Assumptions accepted_no_block_cycle.
Print Assumptions render_block_spec.
Print Assumptions no_block_inside_itself.
Print Assumptions render_block_is_slice_of_render.
Print Assumptions render_block_is_slice_of_render_pinned_refuted.

(* ------------------------------------------------------------------ non-vacuity *)

Definition ex_base : template :=
  {| t_name := 0; t_extends := None;
     t_body := [Text 1; BlockDef 10 [Text 2; FilterSection KFilter [BlockDef 11 [Text 3]]; Text 4]; Text 5] |}.
Definition ex_mid : template :=
  {| t_name := 1; t_extends := Some 0; t_body := [BlockDef 11 [Text 6; Super]] |}.
Definition ex_kid : template :=
  {| t_name := 2; t_extends := Some 1; t_body := [BlockDef 10 [Text 7; Super; BlockDef 12 [Text 8]]] |}.

Definition on_reg {A} (ts : list template) (k : freg -> rres A) : rres A :=
  match register id_orders ts with Ok fr => k fr | Err e => Err e end.

Example ex_chain : is_chain [ex_base; ex_mid; ex_kid] [ex_kid; ex_mid; ex_base].
Proof. cbn. tauto. Qed.

Example ex_render :
  on_reg [ex_base; ex_mid; ex_kid] (fun fr => render_model 10 fr 2) =
  Ok [OText 1; OText 7; OText 2; OOpen; OText 6; OText 3; OClose; OText 4; OText 8; OText 5].
Proof. vm_compute. reflexivity. Qed.

Example ex_render_block :
  on_reg [ex_base; ex_mid; ex_kid] (fun fr => render_block_model 10 fr 2 11) = Ok [OText 6; OText 3].
Proof. vm_compute. reflexivity. Qed.

Example ex_lineage :
  on_reg [ex_base; ex_mid; ex_kid] (fun fr => Ok (lineage_of fr 2 11)) =
  Ok (Some [[IText 6; ISuper]; [IText 3]]).
Proof. vm_compute. reflexivity. Qed.

(* super() where no ancestor defines the block is an error *)
Example ex_super_top :
  on_reg [{| t_name := 0; t_extends := None; t_body := [BlockDef 0 [Text 1; Super]] |}]
         (fun fr => render_model 10 fr 0) = Err ESuperTop.
Proof. vm_compute. reflexivity. Qed.

(* orphan top-level block rejected; the same block nested in an overridden block accepted *)
Example ex_orphan :
  rmap (fun _ => tt)
       (register id_orders [{| t_name := 0; t_extends := None; t_body := [BlockDef 0 [Text 1]] |};
                            {| t_name := 1; t_extends := Some 0; t_body := [BlockDef 1 [Text 2]] |}])
  = Err EOrphanBlock.
Proof. vm_compute. reflexivity. Qed.
Example ex_nested_new :
  on_reg [{| t_name := 0; t_extends := None; t_body := [BlockDef 0 [Text 1]] |};
          {| t_name := 1; t_extends := Some 0; t_body := [BlockDef 0 [Text 2; BlockDef 1 [Text 3]]] |}]
         (fun fr => render_model 10 fr 1) = Ok [OText 2; OText 3].
Proof. vm_compute. reflexivity. Qed.

(* D13 (owned by C11): block nesting cyclic through the chain is now rejected by finalize; the
   specification of its render has no finite expansion *)
Definition d13_base : template :=
  {| t_name := 0; t_extends := None; t_body := [BlockDef 0 [Text 1; BlockDef 1 [Text 2]]] |}.
Definition d13_child : template :=
  {| t_name := 1; t_extends := Some 0; t_body := [BlockDef 1 [BlockDef 0 [Super]]] |}.
Example d13_rejected :
  rmap (fun _ => tt) (register id_orders [d13_base; d13_child]) = Err EBlockCycle /\
  spec_render 300 [d13_child; d13_base] = Err EOutOfFuel.
Proof. split; vm_compute; reflexivity. Qed.

(* the check is static: this set is rejected although its render would stop with the super()
   error of the root block before it could loop *)
Example static_cycle_rejected :
  rmap (fun _ => tt)
       (register id_orders
          [{| t_name := 0; t_extends := None; t_body := [BlockDef 0 [Super; BlockDef 1 [Text 1]]] |};
           {| t_name := 1; t_extends := Some 0; t_body := [BlockDef 1 [BlockDef 0 [Super]]] |}])
  = Err EBlockCycle /\
  spec_render 300 [{| t_name := 1; t_extends := Some 0; t_body := [BlockDef 1 [BlockDef 0 [Super]]] |};
                   {| t_name := 0; t_extends := None; t_body := [BlockDef 0 [Super; BlockDef 1 [Text 1]]] |}]
  = Err ESuperTop.
Proof. split; vm_compute; reflexivity. Qed.
