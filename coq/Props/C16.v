(* C16 — Collection filters keep their contracts.
   Only statements, each closed by `exact`; proofs live in Proofs/CollProofs.v.
   Quantification: every array of any length whose elements are arbitrary well-formed value trees
   (any mix of kinds, duplicates, nested arrays and maps, missing attributes), every attribute
   path, every separator / pattern string, every map.  `wf` is the well-formedness of
   Props/C15.v.  Orderings are those of the code with fixes/D2-total-order.patch applied. *)
From Coq Require Import List ZArith NArith Permutation Sorted.
From TeraV Require Import Model.Value Model.Order Model.CollFilters Spec.CollSpec
  Proofs.OrderProofs Proofs.CollProofs.
Import ListNotations.

(* sort without attribute: a permutation of the input, non-decreasing in the `cmp` order, and
   stable (for every k the elements Equal to k appear in their input order) *)
Theorem C16_sort_spec : forall l r, Forall wf l -> filter_sort l None = ROk r ->
  Permutation r l /\ StronglySorted vle r /\
  (forall k, wf k -> filter (fun x => cmp_is_eq (vcmp x k)) r = filter (fun x => cmp_is_eq (vcmp x k)) l).
Proof. exact sort_spec. Qed.

(* sort(attribute=p): the same three contracts on the keys found by get_from_path, every element
   must have the attribute, and the accepted keys are pairwise comparable *)
Theorem C16_sort_attr_spec : forall l path r, Forall wf l -> filter_sort l (Some path) = ROk r -> l <> [] ->
  exists d, decorate path l = Some d /\ map snd d = l /\
    Forall (fun kv => get_from_path (snd kv) path = Some (fst kv)) d /\
    r = map snd (sort_by fst d) /\ Permutation r l /\
    StronglySorted (kle fst) (sort_by fst d) /\
    (forall k, wf k -> filter (same_key fst k) (sort_by fst d) = filter (same_key fst k) d) /\
    ForallOrdPairs reg_cmp_wf (map fst d) /\
    (Forall (fun v => is_none v = false) (map fst d) -> ForallOrdPairs all_cmp_wf (map fst d)).
Proof. exact sort_attr_spec. Qed.

(* sort refuses keys that are not mutually comparable: whenever it answers, any two keys at
   different positions that sort in front of `none` (bool, number, string, array, map, bytes) are
   `<`-comparable; if no key is none, ALL keys are (so two maps, or a number and a string, are
   always refused).  The check looks at neighbours only; that this suffices is the convexity
   theorem below. *)
Theorem C16_sort_rejects_incomparable : forall l r, Forall wf l -> filter_sort l None = ROk r ->
  ForallOrdPairs reg_cmp_wf l /\
  (Forall (fun v => is_none v = false) l -> ForallOrdPairs all_cmp_wf l).
Proof. exact sort_rejects_incomparable. Qed.

(* what the neighbour check does NOT refuse (finding key sort:undefined-key-behind-none): an
   `undefined` element together with a none and a regular element, e.g. [1, none, undefined] —
   while [1, undefined] is refused.  `undefined` elements only arise through the Rust API. *)
Theorem C16_sort_rejects_incomparable_refuted_for_undefined_behind_none :
  exists l r, Forall wf l /\ filter_sort l None = ROk r /\
    exists x y, In x l /\ In y l /\ is_none x = false /\ is_none y = false /\ cmpb x y = false.
Proof. exact sort_undefined_behind_none_witness. Qed.

Theorem C16_comparability_is_convex : forall a b c, wf a -> wf b -> wf c ->
  vle a b -> vle b c -> cmpb a b = true -> cmpb b c = true -> cmpb a c = true.
Proof. intros a b c Wa Wb Wc. exact (vpcmp_convex a Wa b c Wb Wc). Qed.

Theorem C16_sort_errors : forall l, l <> [] ->
  (forall path, decorate path l = None -> filter_sort l (Some path) = RErr ErrMsg) /\
  (ensure_comparable (sort_by (fun v => v) l) = false -> filter_sort l None = RErr ErrMsg).
Proof. exact sort_errors. Qed.

(* unique: exactly the elements that no earlier element of the input is == to, in order *)
Theorem C16_unique_spec : forall l, Forall wf l -> filter_unique l = first_occurrences veq [] l.
Proof. exact unique_spec. Qed.

(* group_by: the groups partition, keeping input order, the elements whose attribute is present
   and not none; keys of different width / ownership that are equal share a group; an element
   without the attribute, or with one that cannot be a key, makes the filter fail *)
Theorem C16_group_by_spec : forall l path r, Forall wf l -> l <> [] -> filter_group_by l path = ROk r ->
  exists g, r = VMap (map (fun kv => (fst kv, VArr (snd kv))) g) /\
    kwf g /\ kdist g /\
    (forall k vs, In (k, vs) g -> vs <> [] /\ vs = filter (in_group path k) l) /\
    (forall v k', In v l -> gkey path v = Some k' ->
       exists k vs, In (k, vs) g /\ key_eq k k' = true /\ In v vs) /\
    Forall (fun v => gok path v = true) l.
Proof. exact group_by_spec. Qed.

Theorem C16_group_by_errors : forall l path, (exists v, In v l /\ gok path v = false) ->
  filter_group_by l path = RErr ErrMsg.
Proof. exact group_by_errors. Qed.

(* first / last / nth / length / reverse agree with the list functions and with one another *)
Theorem C16_access_consistent : forall l : list value, Z.of_nat (length l) < two64 ->
  filter_length (VArr l) = ROk (VInt U64 (Z.of_nat (length l))) /\
  filter_first l = match nth_error l 0 with Some x => x | None => VNone end /\
  filter_last l = match nth_error l (length l - 1) with Some x => x | None => VNone end /\
  (forall r z, in_u64 z = true ->
     filter_nth l (VInt r z) = ROk (match nth_error l (Z.to_nat z) with Some x => x | None => VNone end)) /\
  (forall r z, in_u64 z = false -> filter_nth l (VInt r z) = RErr ErrMsg) /\
  (forall r, filter_nth l (VInt r 0) = ROk (filter_first l)) /\
  (forall r, l <> [] -> filter_nth l (VInt r (Z.of_nat (length l - 1))) = ROk (filter_last l)) /\
  (forall r z, Z.of_nat (length l) <= z -> in_u64 z = true -> filter_nth l (VInt r z) = ROk VNone) /\
  filter_first (rev l) = filter_last l /\
  filter_reverse (VArr l) = ROk (VArr (rev l)) /\
  filter_length (VArr (rev l)) = filter_length (VArr l).
Proof. exact access_consistent. Qed.

Theorem C16_reverse_involutive :
  (forall l, res_bind (filter_reverse (VArr l)) filter_reverse = ROk (VArr l)) /\
  (forall s f, res_bind (filter_reverse (VStr s f)) filter_reverse = ROk (VStr s false)).
Proof. exact reverse_involutive. Qed.

(* split then join on the same separator is the identity, for every string and every pattern,
   the empty pattern included (which yields "", each character, "") *)
Theorem C16_split_join_id : forall s p, join_strs p (str_split s p) = s.
Proof. exact split_join_id. Qed.

Theorem C16_filter_split_join : forall s f p g,
  res_bind (filter_split (VStr s f) (VStr p g))
    (fun r => match r with VArr l => filter_join l (Some (VStr p g)) | _ => RErr ErrOther end)
  = ROk (VStr s false).
Proof. exact filter_split_join. Qed.

(* keys / values / pairs agree position by position, and every key finds its value *)
Theorem C16_keys_values_pairs : forall m : list (key * value),
  length (filter_keys m) = length m /\ length (filter_values m) = length m /\
  filter_pairs m = map (fun kv => VArr [fst kv; snd kv]) (combine (filter_keys m) (filter_values m)) /\
  filter_length (VMap m) = filter_length (VArr (filter_keys m)) /\
  (forall i k v, nth_error (filter_keys m) i = Some k -> nth_error (filter_values m) i = Some v ->
     nth_error (filter_pairs m) i = Some (VArr [k; v])).
Proof. exact keys_values_pairs. Qed.

Theorem C16_keys_lookup : forall m : list (key * value), wf (VMap m) ->
  forall i k v, nth_error m i = Some (k, v) -> get_item_map m (key_to_value k) = ROk v.
Proof. exact keys_lookup. Qed.

Print Assumptions C16_sort_spec.
Print Assumptions C16_sort_rejects_incomparable.
Print Assumptions C16_unique_spec.
Print Assumptions C16_split_join_id.
Print Assumptions C16_group_by_spec.

(* non-vacuity *)
Example C16_ex_sort :
  filter_sort [VInt U64 3; VNone; VFloat (S754_finite false 4503599627370496 (-51)); VInt I64 (-1)] None
  = ROk [VInt I64 (-1); VFloat (S754_finite false 4503599627370496 (-51)); VInt U64 3; VNone].
Proof. vm_compute. reflexivity. Qed.
Example C16_ex_sort_refused : filter_sort [VInt U64 1; VStr [97%N] false] None = RErr ErrMsg.
Proof. vm_compute. reflexivity. Qed.
Example C16_ex_sort_two_maps_refused : filter_sort [d2_m1; d2_m2] None = RErr ErrMsg.
Proof. vm_compute. reflexivity. Qed.
Example C16_ex_unique_maps : filter_unique [d2_m1; d2_m2; d2_m1] = [d2_m1; d2_m2].
Proof. vm_compute. reflexivity. Qed.
Example C16_ex_unique_arrays : filter_unique [d2_a1; d2_a2; d2_a3] = [d2_a1; d2_a2; d2_a3].
Proof. vm_compute. reflexivity. Qed.
Example C16_ex_group_by :
  filter_group_by [VMap [(KStr [107%N] true, VInt U64 1)]; VMap [(KStr [107%N] false, VNone)];
                   VMap [(KStr [107%N] true, VInt I128 1)]] [SegName [107%N]]
  = ROk (VMap [(KInt U64 1, VArr [VMap [(KStr [107%N] true, VInt U64 1)]; VMap [(KStr [107%N] true, VInt I128 1)]])]).
Proof. vm_compute. reflexivity. Qed.
Example C16_ex_split_empty : str_split [97%N; 98%N] [] = [[]; [97%N]; [98%N]; []].
Proof. vm_compute. reflexivity. Qed.
