(* C06 — Registering any source text ends in Ok or Err: no panic, hang or stack overflow.
   PARTIAL BY NATURE (DESIGN §10): native stack exhaustion, panics and hangs are runtime
   behaviour; they are observed by the child-process oracle of harness/src/bin/c06.rs.  What is
   logic is proved here, over the skeleton model of parser.rs (Model/ParseDepth.v): the counters
   bound the native recursion of the parser and the depth of the AST it hands to the (recursive)
   compiler and destructors, independently of the input length.

   Statements only; proofs in Proofs/ParseDepthProofs.v, ParseDepthLimits.v, ParseDepthAst.v,
   ParseDepthNoPanic.v; the lexer half cites Props/C08.v and Props/C12.v and adds Proofs/LexerBoundary.v.
   `cfg` = the five limits of the parser; `cfg_tree` = their values in the working tree
   (re-extracted on every run: Gen/Tables.v, Gen/ParseLimits.v); `cfg_unrepaired` = the tree
   before fixes/D11-ast-depth.patch (no MAX_EXPRESSION_DEPTH / MAX_ELIF_DEPTH). *)
From Coq Require Import List Arith ZArith Lia.
From TeraV Require Import Model.Value Model.Instr Model.Optimize Proofs.OptimizeProofs Props.C09.
From TeraV Require Spec.Utf8Chars Spec.Doc Model.Lexer Model.LexerSlices Model.Report Proofs.LexerSpans
  Proofs.ReportProofs Proofs.LexerBoundary Proofs.LexerTokenCuts Props.C08 Props.C12.
From TeraV Require Import Gen.Tables Gen.ParseLimits Model.ParseDepth
  Proofs.ParseDepthProofs Proofs.ParseDepthLimits Proofs.ParseDepthAst Proofs.ParseDepthNoPanic.
Import ListNotations.
Local Open Scope nat_scope.

(* NATIVE DEPTH.  For every limit configuration with an elif limit L, every token list and every
   fuel: whatever the outcome (accepted, syntax error, even the unreachable arm), the number of
   nested Rust function frames of the parser never exceeds 7 * MAX_RECURSION_DEPTH + L + 7. *)
Theorem C06_parser_depth_bounded : forall (C : cfg) (L : nat),
  c_elif_limit C = Some L ->
  forall fuel ts,
    match parse C fuel ts with
    | ROk _ s => peak s <= 7 * c_max_rd C + L + 7
    | RErr s => peak s <= 7 * c_max_rd C + L + 7
    | RPanic s => peak s <= 7 * c_max_rd C + L + 7
    | RFuel => True
    end.
Proof. exact native_depth_bounded. Qed.

(* ... and that is FALSE of the tree before the repair: `{% if a %}` + 1000 x `{% elif a %}` is
   accepted with more than 1000 native frames (parse_if recursed per elif, uncounted: D11 a) *)
Definition elif_chain (n : nat) : list tok :=
  [TTagStart; TWord WIf; TWord (WId 0); TTagEnd] ++
  concat (repeat [TTagStart; TWord WElif; TWord (WId 0); TTagEnd] n) ++
  [TTagStart; TWord WEndif; TTagEnd].
Theorem C06_parser_depth_bounded_refuted :
  exists ts, length ts <= 4 * 1000 + 7 /\
    match parse cfg_unrepaired (fuel_for ts) ts with
    | ROk _ s => 7 * c_max_rd cfg_unrepaired + 7 + 700 < peak s
    | _ => False
    end.
Proof. exists (elif_chain 1000). vm_compute. split; [lia | lia]. Qed.

(* AST DEPTH is not bounded in the tree before the repair (D11 b): the iterative operator loop
   builds a left-deep tree, one level per link *)
Definition plus_chain (n : nat) : list tok :=
  [TVarStart; TAtom] ++ concat (repeat [TSym SPlus; TAtom] n) ++ [TVarEnd].
Theorem C06_ast_depth_bounded_refuted :
  exists ts, length ts <= 2 * 2000 + 3 /\
    match parse cfg_unrepaired (fuel_for ts) ts with
    | ROk nodes _ => 2000 < depth_list nodes
    | _ => False
    end.
Proof. exists (plus_chain 2000). vm_compute. split; [lia | lia]. Qed.

(* ... and with the two limits of the repair present (chain limit E = MAX_EXPRESSION_DEPTH, elif
   limit L = MAX_ELIF_DEPTH) every accepted token list, of any length, yields an AST of depth at
   most E + 2 * MAX_RECURSION_DEPTH + L + 2 (838 with the values of the patch): the recursion of
   compile_expr / compile_node / Drop / Clone on it is bounded by the limits alone. *)
Theorem C06_ast_depth_bounded : forall (C : cfg) (E L : nat),
  c_expr_limit C = Some E -> c_elif_limit C = Some L ->
  forall fuel ts nodes s,
    parse C fuel ts = ROk nodes s -> depth_list nodes <= E + 2 * c_max_rd C + L + 2.
Proof. exact ast_depth_bounded. Qed.

(* NESTING BEYOND A LIMIT IS A SYNTAX ERROR, for every continuation of the input.
   Local form: at each check, a counter at its limit gives the error outcome. *)
Theorem C06_nesting_limit_is_syntax_error_expression : forall C f bp s,
  c_max_rd C <= rd s -> inner_parse_expression C (S f) bp s = RErr s.
Proof. exact ipe_at_limit. Qed.
Theorem C06_nesting_limit_is_syntax_error_tags : forall C f endp s,
  c_max_rd C <= rd s -> parse_until C (S f) endp s = RErr s.
Proof. exact until_at_limit. Qed.
Theorem C06_nesting_limit_is_syntax_error_arrays : forall C f s,
  c_max_ad C <= ad s -> parse_array C (S f) s = RErr (set_ad (S (ad s)) s).
Proof. exact array_at_limit. Qed.
Theorem C06_nesting_limit_is_syntax_error_brackets : forall C f e s r,
  toks s = TLBracket :: r -> c_max_nb C <= nb s ->
  parse_subscript C (S f) e s = RErr (set_nb (S (nb s)) (set_toks r s)).
Proof. exact subscript_at_limit. Qed.
Theorem C06_nesting_limit_is_syntax_error_elif : forall C A (m : M A) lim s,
  c_elif_limit C = Some lim -> lim <= el s -> elif_counted C m s = RErr (set_el (S (el s)) s).
Proof. exact elif_at_limit. Qed.
Theorem C06_nesting_limit_is_syntax_error_chain : forall C lim s,
  c_expr_limit C = Some lim -> lim <= ht s -> bump C s = RErr s.
Proof. exact bump_at_limit. Qed.
Theorem C06_unary_chain_is_syntax_error : forall C f bp s r t u,
  toks s = t :: u :: r ->
  (t = TMinus \/ t = TWord WNot) -> (u = TMinus \/ u = TWord WNot) ->
  parse_expr_bp C (S f) bp s = RErr (set_toks (u :: r) s).
Proof. exact unary_unary_rejected. Qed.

(* Family form: `{{ ((( ... ` with at least MAX_RECURSION_DEPTH - 1 parentheses is never accepted,
   whatever follows and whatever the fuel *)
Theorem C06_nesting_limit_is_syntax_error_parens : forall C n fuel rest,
  c_max_rd C <= n + 1 ->
  nok (parse C fuel (TVarStart :: repeat TLParen n ++ rest)).
Proof. exact parens_beyond_limit_rejected. Qed.

(* THE `unreachable!` ARM OF parse_until_inner (parser.rs:1699) IS DEAD on every token stream the
   lexer can produce: template-level tokens in the Template state, anything else inside
   {{ }} / {% %}, each closed by its own end token, the stream stopping anywhere or at the first
   error item (lexer_shaped, Proofs/ParseDepthNoPanic.v) - for every limit configuration and
   every fuel.  (The other `unreachable!`/`expect` sites of parser.rs - 277 `start.expect`, 715 -
   are dead by construction in the model: the corresponding match arms do not exist; those of
   compiler.rs are outside this skeleton and stay with the runtime oracle.) *)
Theorem C06_parser_unreachables_unreachable : forall C fuel ts,
  lexer_shaped MT ts = true ->
  match parse C fuel ts with RPanic _ => False | _ => True end.
Proof. exact parse_never_panics_on_lexer_streams. Qed.

(* the hypothesis actually used is weaker and local: each Content / VariableEnd / TagEnd token
   before the first error item is followed by the end of the stream or by a template-level token,
   and the stream starts with one *)
Theorem C06_parser_unreachables_unreachable_local : forall C fuel ts,
  cok ts = true -> headok ts = true ->
  match parse C fuel ts with RPanic _ => False | _ => True end.
Proof. exact parse_never_panics. Qed.

(* ... and some such hypothesis is needed: on a token list no lexer run yields (an expression
   token at template level) the arm IS reached *)
Theorem C06_parser_unreachable_reached_off_lexer_streams :
  exists ts, lexer_shaped MT ts = false /\
    match parse cfg_tree (fuel_for ts) ts with RPanic _ => True | _ => False end.
Proof. exists [TAtom]. vm_compute. split; [reflexivity | exact I]. Qed.

(* THE LEXER HALF, by citation (1-3) and by Proofs/LexerBoundary.v, LexerTokenCuts.v (4-6).
   Model/Lexer.v (C08) is a byte-level port of the WHOLE of
   basic_tokenize: the Template state (delimiter tests, check_ws_start!, raw blocks through
   skip_tag / memstr, comments, text up to find_start_marker) and the Variable/Tag state
   (scan_inside: whitespace skipping, end-delimiter tests, and inner_token = spread, two- and
   one-byte operators, lex_string! with its escape flag and unescaping, lex_number! with the i64
   range test, identifiers, true/false).  Cited:
     1. TERMINATION (C08_lexer_total): for every delimiter set accepted by validate and every
        source, the run never needs more iterations than bytes + 1: each iteration of the main
        loop and of scan_inside consumes at least one byte.
     2. IN BOUNDS (C08_token_ranges_in_source): every (start, end) byte range of an accepted run
        is ordered and lies inside the source, so no advance!(n) has n > rest.len().
     3. SLICING (C12_advance_total_on_boundaries / C12_advance_panics_off_boundary, Model/Report.v):
        advance!(n) = split_at(n) + location bookkeeping succeeds, with both pieces valid UTF-8
        again, exactly when n is a character boundary of the valid-UTF-8 rest, and panics otherwise.
     4. EVERY CUT IS ON A CHARACTER BOUNDARY (new here; Model/LexerSlices.v, Proofs/LexerBoundary.v).
        Model/LexerSlices.v lists, next to the token model, every offset into the source at which
        basic_tokenize cuts its `&str` - each advance!(n) (check_ws_start!, raw block, comment, text,
        whitespace in a tag, end delimiters, spread and operators, lex_number!, lex_string!,
        identifiers), `&s[1..s.len() - 1]` of lex_string!, `&rest.as_bytes()[offset..]`,
        `&rest[offset..]` and `&rest[body_start..body_end]` of the raw-block loop - also for a run
        that ends in a syntax error (the cuts made before the error).  Theorem: for every delimiter
        set accepted by validate whose six strings are valid UTF-8 and every valid UTF-8 source, every
        one of these offsets is a character boundary of the source.
        The UTF-8 hypothesis on the delimiters is not an extra assumption about the caller: the
        fields of `Delimiters` are `Cow<'static, str>` (delimiters.rs 9-22), and a Rust `str` is valid
        UTF-8 by type invariant; validate (delimiters.rs 39-87) adds `len() == 2`, so a delimiter is two
        ASCII characters or one 2-byte character - it cannot be a fragment of a character.  (The
        model type `delims` holds arbitrary byte lists, hence the explicit hypothesis
        `LexerSlices.delims_utf8`.)  The proof is UTF-8 self-synchronisation: a byte that announces
        a k-byte character is, in a valid string, followed k bytes later by a boundary; so a byte
        match of a delimiter (memstr, find_start_marker, starts2) starts and ends on boundaries and
        every run that ends in an ASCII byte ends on one.
     5. `rest.get(a..a+2) == Some(delim)` - the CHECKED slice, None off a boundary - is the byte
        comparison Model/Lexer.v uses for it (C06_checked_get_is_byte_test): on valid UTF-8 the
        bytes of a delimiter cannot start or end inside a character, so the model is not wrong
        about the boundary test it does not perform.
     6. Hence no slicing panic (fourth conjunct below): at a position reached by a listed cut, an
        advance!(k) to another listed cut returns the two pieces, both valid UTF-8 again.
   Not modelled, left to the runtime oracle: `num.parse::<f64>()`, the Display of tokens inside
   error messages, `strip_prefix` / `trim_start` / `trim_end` (std functions on `str` that cannot
   cut off a boundary).  Correspondence: family `slices` (Corr/CorrC06Lex.v) compares the model's
   token byte ranges with the real lexer's and checks that every real token start/end is one of
   the listed offsets, on sources with multi-byte characters next to every kind of delimiter and
   on 2-byte-character delimiter sets. *)
Theorem C06_lexer_total_and_boundary_safe :
  (forall dl src, Lexer.validate dl = Value.ROk tt ->
     Lexer.lex_ptoks dl src <> Value.RErr Value.ErrPanic) /\
  (forall dl src pt s e, Lexer.validate dl = Value.ROk tt -> Lexer.lex_ptoks dl src = Value.ROk pt ->
     In (s, e) (LexerSpans.offsets 0 pt) -> s <= e /\ e <= length src) /\
  (forall dl src, Lexer.validate dl = Value.ROk tt -> LexerSlices.delims_utf8 dl ->
     Utf8Chars.valid_utf8 src ->
     forall n, In n (LexerSlices.slice_offsets dl src) -> Report.is_char_boundary src n = true) /\
  (forall src p rest k st, Utf8Chars.valid_utf8 src -> src = p ++ rest ->
     Report.is_char_boundary src (length p) = true ->
     Report.is_char_boundary src (length p + k) = true ->
     exists st', Report.advance st rest k = Some (st', firstn k rest, skipn k rest) /\
       Utf8Chars.valid_utf8 (firstn k rest) /\ Utf8Chars.valid_utf8 (skipn k rest) /\
       Utf8Chars.valid_utf8 rest) /\
  (forall st rest n, Report.is_char_boundary rest n = false -> Report.advance st rest n = None).
Proof. exact LexerBoundary.lexer_total_and_boundary_safe. Qed.

(* the checked form `rest.get(a..a+2)` agrees with the byte window the model compares *)
Theorem C06_checked_get_is_byte_test : forall s d a,
  Utf8Chars.valid_utf8 s -> Utf8Chars.valid_utf8 d -> length d = 2 ->
  (LexerSlices.get2 s a = Some d <-> Doc.window s a = d).
Proof. exact LexerBoundary.get2_is_window. Qed.

(* the cuts and the token ranges describe the same run: every token of an accepted run starts at
   0, at the previous cut or after the whitespace advance!, and ends where an advance! ended
   (Proofs/LexerTokenCuts.v); so every token byte range - the `range` of every lexer Span, which
   C12 needs on character boundaries - lies on character boundaries of the source *)
Theorem C06_token_ranges_are_cuts : forall dl src pt s e,
  Lexer.lex_ptoks dl src = Value.ROk pt -> In (s, e) (LexerSpans.offsets 0 pt) ->
  (s = 0 \/ In s (LexerSlices.slice_offsets dl src)) /\ In e (LexerSlices.slice_offsets dl src).
Proof. exact LexerTokenCuts.token_ranges_are_cuts. Qed.

Theorem C06_token_ranges_on_boundaries : forall dl src pt s e,
  Lexer.validate dl = Value.ROk tt -> LexerSlices.delims_utf8 dl -> Utf8Chars.valid_utf8 src ->
  Lexer.lex_ptoks dl src = Value.ROk pt -> In (s, e) (LexerSpans.offsets 0 pt) ->
  Report.is_char_boundary src s = true /\ Report.is_char_boundary src e = true.
Proof. exact LexerTokenCuts.token_ranges_on_boundaries. Qed.

(* the hypothesis on the delimiters is needed by the MODEL (whose delimiters are byte lists): with
   the second half of `é` and the first half of another character as "delimiter" - not a Rust
   str - the run cuts inside a character *)
Theorem C06_boundary_needs_utf8_delimiters :
  exists dl src, Lexer.validate dl = Value.ROk tt /\ Utf8Chars.valid_utf8 src /\
    exists n, In n (LexerSlices.slice_offsets dl src) /\ Report.is_char_boundary src n = false.
Proof. exact LexerBoundary.boundary_needs_utf8_delimiters. Qed.

(* THE FUSION PASS NEVER INDEXES OUT OF BOUNDS (panic-freedom of Chunk::optimize): for every
   chunk whose jump targets are in range the ported pass returns Some, i.e. no index_map /
   is_jump_target access fell outside (reuse of the C09 structure theorem) *)
Theorem C06_optimize_indices_in_bounds : forall p,
  unfused p -> targets_in_range p ->
  exists o, optimize p = Some o /\ length (expand (map fst o)) = length p.
Proof.
  intros p H1 H2. destruct (C09_optimize_structure p H1 H2) as (o & Ho & _ & _ & Hl & _).
  exists o. split; assumption.
Qed.

Print Assumptions C06_parser_depth_bounded.
Print Assumptions C06_parser_depth_bounded_refuted.
Print Assumptions C06_ast_depth_bounded_refuted.
Print Assumptions C06_ast_depth_bounded.
Print Assumptions C06_nesting_limit_is_syntax_error_parens.
Print Assumptions C06_optimize_indices_in_bounds.
Print Assumptions C06_parser_unreachables_unreachable.
Print Assumptions C06_parser_unreachable_reached_off_lexer_streams.
Print Assumptions C06_lexer_total_and_boundary_safe.
Print Assumptions C06_checked_get_is_byte_test.
Print Assumptions C06_boundary_needs_utf8_delimiters.
Print Assumptions C06_token_ranges_are_cuts.
Print Assumptions C06_token_ranges_on_boundaries.

(* non-vacuity: real runs with enough fuel *)
Example C06_ex_accepts :
  match parse cfg_tree 200 [TVarStart; TWord (WId 0); TSym SPlus; TAtom; TSym SMul; TAtom; TVarEnd] with
  | ROk [T KExprNode [T KBin [T KVar []; T KBin [T KConst []; T KConst []]]]] s => peak s = 10
  | _ => False
  end.
Proof. vm_compute. reflexivity. Qed.

(* 38 parentheses are accepted, 39 are a syntax error, at the tree's MAX_RECURSION_DEPTH *)
Example C06_ex_paren_limit :
  (match parse cfg_tree 400 (TVarStart :: repeat TLParen 38 ++ TAtom :: repeat TRParen 38 ++ [TVarEnd]) with
   | ROk _ _ => True | _ => False end) /\
  (match parse cfg_tree 400 (TVarStart :: repeat TLParen 39 ++ TAtom :: repeat TRParen 39 ++ [TVarEnd]) with
   | RErr _ => True | _ => False end).
Proof. vm_compute. split; exact I. Qed.

(* with the limits of the patch: a 200-link chain is accepted (depth 202: the node, 200 operators,
   a leaf), a 300-link chain and a 501-branch elif are syntax errors *)
Definition cfg_patched : cfg := mkcfg 40 2 4 (Some 256) (Some 500).
Example C06_ex_chain_limits :
  (match parse cfg_patched (fuel_for (plus_chain 200)) (plus_chain 200) with
   | ROk nodes _ => depth_list nodes = 202 | _ => False end) /\
  (match parse cfg_patched (fuel_for (plus_chain 300)) (plus_chain 300) with
   | RErr _ => True | _ => False end) /\
  (match parse cfg_patched (fuel_for (elif_chain 500)) (elif_chain 500) with
   | ROk nodes _ => depth_list nodes = 502 | _ => False end) /\
  (match parse cfg_patched (fuel_for (elif_chain 501)) (elif_chain 501) with
   | RErr _ => True | _ => False end).
Proof. vm_compute. repeat split. Qed.

(* a real template shape: `x{{ a }}{% if a %}x{% endif %}` is lexer-shaped and accepted *)
Example C06_ex_lexer_shaped :
  let ts := [TText; TVarStart; TWord (WId 0); TVarEnd; TTagStart; TWord WIf; TWord (WId 0); TTagEnd; TText;
             TTagStart; TWord WEndif; TTagEnd] in
  lexer_shaped MT ts = true /\ match parse cfg_tree (fuel_for ts) ts with ROk _ _ => True | _ => False end.
Proof. vm_compute. split; [reflexivity | exact I]. Qed.

(* the lexer half is not vacuous: a delimiter set made of 2-byte characters (÷ × {{ }} é è) is
   accepted and satisfies the UTF-8 hypothesis *)
Definition dl_2byte : Lexer.delims :=
  Lexer.mkDelims [0xC3; 0xB7]%N [0xC3; 0x97]%N [0x7B; 0x7B]%N [0x7D; 0x7D]%N [0xC3; 0xA9]%N [0xC3; 0xA8]%N.
Example C06_ex_2byte_delimiters_accepted :
  Lexer.validate dl_2byte = Value.ROk tt /\ LexerSlices.delims_utf8 dl_2byte.
Proof.
  split; [reflexivity|]. repeat split; apply ReportProofs.valid_utf8b_ok; vm_compute; reflexivity.
Qed.

(* `é{{ 'é' }}`: text cut at 2, `{{` at 4, whitespace at 5, the string advance! at 9 and its
   inner `&s[1..len-1]` at 6 and 8, whitespace at 10, `}}` at 12 *)
Example C06_ex_slice_offsets :
  LexerSlices.slice_offsets Lexer.default_delims
    [0xC3; 0xA9; 0x7B; 0x7B; 0x20; 0x27; 0xC3; 0xA9; 0x27; 0x20; 0x7D; 0x7D]%N
  = [2; 4; 5; 9; 6; 8; 10; 12].
Proof. vm_compute. reflexivity. Qed.

(* with é as comment start and è as comment end, `aé-日è` is text, then a comment: cuts at 1
   (text), 4 (`é-`), 9 (comment end found by memstr after the 3-byte character) *)
Example C06_ex_slice_offsets_2byte :
  LexerSlices.slice_offsets dl_2byte [0x61; 0xC3; 0xA9; 0x2D; 0xE6; 0x97; 0xA5; 0xC3; 0xA8]%N = [1; 4; 9].
Proof. vm_compute. reflexivity. Qed.
