(* C06 - stub, replaced below *)
From TeraV Require Import Model.Value Model.Instr Model.Optimize Proofs.OptimizeProofs Props.C09.
Local Open Scope nat_scope.
Theorem C06_optimize_indices_in_bounds : forall p,
  unfused p -> targets_in_range p -> exists o, optimize p = Some o.
Proof. intros p H1 H2. destruct (C09_optimize_structure p H1 H2) as [o [H _]]. exists o. exact H. Qed.
Print Assumptions C06_optimize_indices_in_bounds.
