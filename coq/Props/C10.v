(* C10 — Template registration is atomic and independent of history.
   Only statements, each closed by `exact`; proofs live in Proofs/RegistryProofs.v.
   Quantification: every instance state whose template map is a well-formed finite map
   (`msorted`: the canonical sorted representation of HashMap<String, Template>), every batch
   (any length, duplicates allowed, any mixture of sources that parse and sources that do not),
   every configuration (fallback prefixes, registered filters/tests/functions, with or without
   the D10/D13 repairs), every history of add / failing add / autoescape_on calls. *)
From Coq Require Import List NArith Bool.
From TeraV Require Import Model.Registry Spec.Graph Proofs.RegistryProofs.
Import ListNotations.

(* the undo list: for every map m and batch b, inserting b while recording the previous entries
   and undoing in reverse yields m -- also when the batch was cut short by a syntax error *)
Theorem C10_undo_restores : forall (m : tmap) b ok m1 log,
  msorted m -> insert_all m b [] = (ok, m1, log) -> undo log m1 = m.
Proof. exact undo_restores. Qed.

(* a failing call (syntax error, missing parent, extends cycle, include cycle, unknown
   filter/test/function/component/include target, duplicate component, orphan block: whatever
   kind e) leaves every template with its parents, lineage, size hint and autoescape flag, the
   component table and the suffixes exactly as before *)
Theorem C10_add_err_is_identity : forall ev s b e s',
  msorted (st_tpls s) -> add_batch ev s b = (Err e, s') -> s' = s.
Proof. exact add_err_is_identity. Qed.

(* a successful call leaves the (name, source) set `override old b` (re-adding a name replaces
   it) and exactly the state a FRESH instance reaches when given that set in one batch b',
   whatever the order or repetitions inside b' *)
Theorem C10_add_ok_equals_fresh : forall ev s b s',
  msorted (st_tpls s) -> add_batch ev s b = (Ok tt, s') ->
  sources (st_tpls s') = override (sources (st_tpls s)) b /\
  forall b' m' log',
    insert_all [] b' [] = (true, m', log') -> sources m' = sources (st_tpls s') ->
    add_batch ev (init (st_sufs s)) b' = (Ok tt, s').
Proof. exact add_ok_equals_fresh. Qed.

(* such a batch exists: the sorted listing of the set *)
Theorem C10_listing_describes_set : forall m : smap,
  msorted m -> override [] (listing m) = m.
Proof. intros m Hm. exact (override_listing m [] Hm). Qed.

(* invariant over arbitrary histories (successful adds, failing adds of every kind,
   autoescape_on): every derived field is `finalize` of the current set and configuration *)
Theorem C10_reachable_inv : forall ev s, reachable ev s -> canonical ev s.
Proof. exact reachable_inv. Qed.

(* two histories that end with the same (name, source) set and suffixes end in the same
   state, whatever the order, the grouping into batches, the failed attempts and the
   replacements on the way *)
Theorem C10_order_and_grouping_irrelevant : forall ev sufs1 sufs2 h1 h2,
  let s1 := snd (run ev (init sufs1) h1) in
  let s2 := snd (run ev (init sufs2) h2) in
  st_sufs s1 = st_sufs s2 -> sources (st_tpls s1) = sources (st_tpls s2) -> s1 = s2.
Proof. exact order_and_grouping_irrelevant. Qed.

Print Assumptions C10_undo_restores.
Print Assumptions C10_add_err_is_identity.
Print Assumptions C10_add_ok_equals_fresh.
Print Assumptions C10_listing_describes_set.
Print Assumptions C10_reachable_inv.
Print Assumptions C10_order_and_grouping_irrelevant.

(* ---- non-vacuity: a real history with a replacement, a failing add and a reconfiguration *)
Definition ev0 : env :=
  {| ev_prefixes := []; ev_filters := []; ev_tests := []; ev_funcs := [];
     ev_fix_d10 := true; ev_fix_d13 := true |}.
Definition nA : name := [97%N].
Definition nB : name := [98%N].
Definition t_plain (i : N) : tdesc :=
  {| td_extends := None; td_main := [OText i; OBlock [121%N]]; td_blocks := [([121%N], [OText (i + 1)])];
     td_top := [[121%N]]; td_comps := []; td_filters := []; td_tests := []; td_funcs := []; td_len := 10 |}.
Definition t_child (p : name) : tdesc :=
  {| td_extends := Some p; td_main := [OBlock [121%N]]; td_blocks := [([121%N], [OText 7%N; OSuper])];
     td_top := [[121%N]]; td_comps := []; td_filters := []; td_tests := []; td_funcs := []; td_len := 20 |}.

Example history_runs :
  let h := [CAdd [(nA, Some (t_plain 1%N))]; CAdd [(nB, Some (t_child nA))];
            CAdd [(nB, Some (t_child [99%N]))];                      (* missing parent: fails *)
            CAuto [[97%N]]; CAdd [(nA, Some (t_plain 3%N))]] in      (* replaces a *)
  let '(rs, s) := run ev0 (init []) h in
  rs = [Ok tt; Ok tt; Err EkMissingParent; Ok tt; Ok tt] /\
  render 50 [] s nB = RText [3%N; 7%N; 4%N] /\
  option_map e_auto (mfind nA (st_tpls s)) = Some true /\
  s = snd (add_batch ev0 (init [[97%N]]) [(nB, Some (t_child nA)); (nA, Some (t_plain 3%N))]).
Proof. vm_compute. repeat split. Qed.
