(* C10 — Template registration is atomic and independent of history.
   Only statements, each closed by `exact`; proofs live in Proofs/RegistryProofs.v.
   Quantification: every instance state whose template map is a well-formed finite map
   (`msorted`: the canonical sorted representation of HashMap<String, Template>), every batch
   (any length, duplicates allowed, any mixture of sources that parse and sources that do not),
   every configuration (fallback prefixes, registered filters/tests/functions, with or without
   the D10/D13 repairs), every history of add_raw_templates / add_template_file(s) / failing add /
   autoescape_on calls. *)
From Coq Require Import List NArith Bool.
From TeraV Require Import Model.Registry Model.RegistryGlob Spec.Graph Proofs.RegistryProofs
  Proofs.RegistryGlobProofs.
Import ListNotations.

(* the undo list: for every map m and batch b, inserting b while recording the previous entries
   and undoing in reverse yields m -- also when the batch was cut short by a syntax error *)
Theorem C10_undo_restores : forall (m : tmap) b ok m1 log,
  msorted m -> insert_all m b [] = (ok, m1, log) -> undo log m1 = m.
Proof. exact undo_restores. Qed.

(* a failing call (syntax error, missing parent, extends cycle, include cycle, unknown
   filter/test/function/component/include target, duplicate component, orphan block: whatever
   kind e) leaves every template with its parents, lineage, size hint and autoescape flag, the
   component table and the suffixes exactly as before *)
Theorem C10_add_err_is_identity : forall ev s b e s',
  msorted (st_tpls s) -> add_batch ev s b = (Err e, s') -> s' = s.
Proof. exact add_err_is_identity. Qed.

(* a successful call leaves the (name, source) set `override old b` (re-adding a name replaces
   it) and exactly the state a FRESH instance reaches when given that set in one batch b',
   whatever the order or repetitions inside b' *)
Theorem C10_add_ok_equals_fresh : forall ev s b s',
  msorted (st_tpls s) -> add_batch ev s b = (Ok tt, s') ->
  sources (st_tpls s') = override (sources (st_tpls s)) b /\
  forall b' m' log',
    insert_all [] b' [] = (true, m', log') -> sources m' = sources (st_tpls s') ->
    add_batch ev (init (st_sufs s)) b' = (Ok tt, s').
Proof. exact add_ok_equals_fresh. Qed.

(* such a batch exists: the sorted listing of the set *)
Theorem C10_listing_describes_set : forall m : smap,
  msorted m -> override [] (listing m) = m.
Proof. intros m Hm. exact (override_listing m [] Hm). Qed.

(* invariant over arbitrary histories (successful raw and file adds, failing adds of every kind
   -- including unreadable files --, autoescape_on): every derived field is `finalize` of the current set and configuration *)
Theorem C10_reachable_inv : forall ev s, reachable ev s -> canonical ev s.
Proof. exact reachable_inv. Qed.

(* two histories that end with the same (name, source) set and suffixes end in the same
   state, whatever the order, the grouping into batches, the failed attempts and the
   replacements on the way *)
Theorem C10_order_and_grouping_irrelevant : forall ev sufs1 sufs2 h1 h2,
  let s1 := snd (run ev (init sufs1) h1) in
  let s2 := snd (run ev (init sufs2) h2) in
  st_sufs s1 = st_sufs s2 -> sources (st_tpls s1) = sources (st_tpls s2) -> s1 = s2.
Proof. exact order_and_grouping_irrelevant. Qed.

(* ---- the file entry points: add_template_file / add_template_files (private add_file).
   Quantification: every list of (path, what reading the path yields, optional name) -- any
   length, any mixture of non-UTF-8 paths, files that cannot be opened, files that are not
   UTF-8, sources that do not parse and sources that do, the same key any number of times, with
   or without explicit names. *)

(* the loop over files with its undo list and early exit is the raw loop over `files_batch fs`
   (key and source of every entry up to and including the first that fails); the two calls
   leave the same state and differ only in the kind of a read/parse error *)
Theorem C10_add_files_as_batch : forall ev s fs,
  add_files ev s fs =
  (match files_first_err fs with
   | Some e => Err e
   | None => fst (add_batch ev s (files_batch fs))
   end,
   snd (add_batch ev s (files_batch fs))).
Proof. exact add_files_as_batch. Qed.

(* a failing file call -- whichever entry fails, for whichever reason, or finalize afterwards --
   leaves the instance exactly as it was *)
Theorem C10_add_files_err_is_identity : forall ev s fs e s',
  msorted (st_tpls s) -> add_files ev s fs = (Err e, s') -> s' = s.
Proof. exact add_files_err_is_identity. Qed.

(* a successful file call: every entry was read and parsed, the set is `override old batch`, and
   the state is the one a FRESH instance reaches when given that set in one raw batch or in one
   list of files, whatever their order, repetitions and naming *)
Theorem C10_add_files_ok_equals_fresh : forall ev s fs s',
  msorted (st_tpls s) -> add_files ev s fs = (Ok tt, s') ->
  files_first_err fs = None /\
  sources (st_tpls s') = override (sources (st_tpls s)) (files_batch fs) /\
  (forall b' m' log',
     insert_all [] b' [] = (true, m', log') -> sources m' = sources (st_tpls s') ->
     add_batch ev (init (st_sufs s)) b' = (Ok tt, s')) /\
  (forall fs' m' log',
     insert_files [] fs' [] = (None, m', log') -> sources m' = sources (st_tpls s') ->
     add_files ev (init (st_sufs s)) fs' = (Ok tt, s')).
Proof. exact add_files_ok_equals_fresh. Qed.

(* C10_reachable_inv and C10_order_and_grouping_irrelevant above are stated over `reachable` /
   `run`, whose calls are all three kinds (CAdd, CAuto, CAddFiles): the next statement makes
   that explicit for a history that interleaves them *)
Theorem C10_file_calls_are_steps : forall ev s fs,
  reachable ev s -> reachable ev (snd (add_files ev s fs)) /\ canonical ev (snd (add_files ev s fs)).
Proof. exact add_files_reachable. Qed.

(* ---- the glob entry points (cargo feature glob_fs): load_from_glob / full_reload, on an
   instance that remembers its glob and which templates came from it (Model/RegistryGlob.v).
   Quantification: every instance whose template map is well formed, every set of from_glob
   marks, every remembered glob, every answer of the directory walk (invalid pattern; any list
   of matched files, each unreadable / not UTF-8 / not parsing / fine, in any order). *)

(* a failing call of ANY kind (raw batch, files, glob load, reload -- invalid pattern, one bad
   file among good ones, a set that does not finalize, reload without a glob) leaves templates
   with all derived fields, component table, suffixes, from_glob marks and the remembered glob
   exactly as they were *)
Theorem C10_glob_err_is_identity : forall ev g c e g',
  msorted (st_tpls (gs_st g)) -> gstep ev g c = (Err e, g') -> g' = g.
Proof. exact gstep_err_is_identity. Qed.

(* a successful load: every matched file was read and parsed; the templates of the previous glob
   are gone, the manual ones kept, the matched ones added (override); the glob is remembered and
   exactly the matched names are marked; and the instance is the one a FRESH instance reaches
   given that set in one raw batch, or through one glob load that matches files describing it *)
Theorem C10_load_glob_ok_equals_fresh : forall ev g pat fs g',
  msorted (st_tpls (gs_st g)) ->
  load_glob ev g pat (GFiles fs) = (Ok tt, g') ->
  files_first_err fs = None /\
  gs_glob g' = Some pat /\ gs_globbed g' = glob_keys fs /\
  sources (st_tpls (gs_st g')) =
    override (sources (drop_globbed (gs_globbed g) (st_tpls (gs_st g)))) (files_batch fs) /\
  (forall b' m' log',
     insert_all [] b' [] = (true, m', log') -> sources m' = sources (st_tpls (gs_st g')) ->
     add_batch ev (init (st_sufs (gs_st g))) b' = (Ok tt, gs_st g')) /\
  (forall pat' fs' m' mk',
     glob_insert [] fs' false [] = (false, m', mk') -> sources m' = sources (st_tpls (gs_st g')) ->
     load_glob ev (ginit (st_sufs (gs_st g))) pat' (GFiles fs') =
     (Ok tt, {| gs_st := gs_st g'; gs_globbed := glob_keys fs'; gs_glob := Some pat' |})).
Proof. exact load_glob_ok_equals_fresh. Qed.

(* the invariant and history-independence over histories of ALL call kinds *)
Theorem C10_greachable_inv : forall ev g, greachable ev g -> canonical ev (gs_st g).
Proof. exact greachable_inv. Qed.

Theorem C10_gorder_and_grouping_irrelevant : forall ev sufs1 sufs2 h1 h2,
  let s1 := gs_st (snd (grun ev (ginit sufs1) h1)) in
  let s2 := gs_st (snd (grun ev (ginit sufs2) h2)) in
  st_sufs s1 = st_sufs s2 -> sources (st_tpls s1) = sources (st_tpls s2) -> s1 = s2.
Proof. exact gorder_and_grouping_irrelevant. Qed.

(* on histories without glob calls the instance with a glob is the plain instance *)
Theorem C10_grun_without_glob : forall ev h g,
  fst (grun ev g (map GCall h)) = fst (run ev (gs_st g) h) /\
  gs_st (snd (grun ev g (map GCall h))) = snd (run ev (gs_st g) h).
Proof. exact grun_lift. Qed.

Print Assumptions C10_glob_err_is_identity.
Print Assumptions C10_load_glob_ok_equals_fresh.
Print Assumptions C10_greachable_inv.
Print Assumptions C10_gorder_and_grouping_irrelevant.
Print Assumptions C10_grun_without_glob.
Print Assumptions C10_undo_restores.
Print Assumptions C10_add_files_as_batch.
Print Assumptions C10_add_files_err_is_identity.
Print Assumptions C10_add_files_ok_equals_fresh.
Print Assumptions C10_file_calls_are_steps.
Print Assumptions C10_add_err_is_identity.
Print Assumptions C10_add_ok_equals_fresh.
Print Assumptions C10_listing_describes_set.
Print Assumptions C10_reachable_inv.
Print Assumptions C10_order_and_grouping_irrelevant.

(* ---- non-vacuity: a real history with a replacement, a failing add and a reconfiguration *)
Definition ev0 : env :=
  {| ev_prefixes := []; ev_filters := []; ev_tests := []; ev_funcs := [];
     ev_fix_d10 := true; ev_fix_d13 := true |}.
Definition nA : name := [97%N].
Definition nB : name := [98%N].
Definition t_plain (i : N) : tdesc :=
  {| td_extends := None; td_main := [OText i; OBlock [121%N]]; td_blocks := [([121%N], [OText (i + 1)])];
     td_top := [[121%N]]; td_comps := []; td_filters := []; td_tests := []; td_funcs := []; td_len := 10 |}.
Definition t_child (p : name) : tdesc :=
  {| td_extends := Some p; td_main := [OBlock [121%N]]; td_blocks := [([121%N], [OText 7%N; OSuper])];
     td_top := [[121%N]]; td_comps := []; td_filters := []; td_tests := []; td_funcs := []; td_len := 20 |}.

Example history_runs :
  let h := [CAdd [(nA, Some (t_plain 1%N))]; CAdd [(nB, Some (t_child nA))];
            CAdd [(nB, Some (t_child [99%N]))];                      (* missing parent: fails *)
            CAuto [[97%N]]; CAdd [(nA, Some (t_plain 3%N))]] in      (* replaces a *)
  let '(rs, s) := run ev0 (init []) h in
  rs = [Ok tt; Ok tt; Err EkMissingParent; Ok tt; Ok tt] /\
  render 50 [] s nB = RText [3%N; 7%N; 4%N] /\
  option_map e_auto (mfind nA (st_tpls s)) = Some true /\
  s = snd (add_batch ev0 (init [[97%N]]) [(nB, Some (t_child nA)); (nA, Some (t_plain 3%N))]).
Proof. vm_compute. repeat split. Qed.

(* ---- non-vacuity for the file form: explicit name and path-as-name, the same key twice in one
   batch, an unreadable file and a syntax error in the middle of a batch, a batch whose last file
   does not finalize; mixed with raw calls *)
Definition fe (p : name) (r : fread) (n : option name) : fentry :=
  {| fe_path := p; fe_read := r; fe_name := n |}.
Definition pX : name := [47%N; 120%N].   (* "/x": a path that differs from every name *)

Example file_history_runs :
  let h := [CAddFiles [fe nA (FRead (Some (t_plain 1%N))) None];                 (* path as name *)
            CAddFiles [fe pX (FRead (Some (t_plain 5%N))) (Some nA);             (* replaces a ... *)
                       fe pX FNoRead (Some nB)];                                 (* ... not UTF-8: all undone *)
            CAddFiles [fe pX (FRead (Some (t_child nA))) (Some nB);
                       fe pX (FRead None) (Some nA)];                            (* syntax error: undone *)
            CAddFiles [fe pX (FRead (Some (t_plain 5%N))) (Some nA);
                       fe nB (FRead (Some (t_child [99%N]))) None];              (* missing parent: undone *)
            CAdd [(nB, Some (t_child nA))];
            CAddFiles [fe pX (FRead (Some (t_plain 5%N))) (Some nA);             (* same key twice *)
                       fe nA (FRead (Some (t_plain 3%N))) None];
            CAddFiles [fe pX FBadPath None]; CAddFiles [fe pX FNoOpen (Some nA)]] in
  let '(rs, s) := run ev0 (init []) h in
  rs = [Ok tt; Err EkMsg; Err EkSyntax; Err EkMissingParent; Ok tt; Ok tt; Err EkMsg; Err EkMsg] /\
  render 50 [] s nB = RText [3%N; 7%N; 4%N] /\
  s = snd (add_files ev0 (init []) [fe nB (FRead (Some (t_child nA))) None;
                                    fe pX (FRead (Some (t_plain 3%N))) (Some nA)]) /\
  s = snd (add_batch ev0 (init []) [(nB, Some (t_child nA)); (nA, Some (t_plain 3%N))]).
Proof. vm_compute. repeat split. Qed.

(* ---- non-vacuity for the glob form: a manual template and a glob that brings its child; a
   reload after the child's file is gone and another appeared; a reload with one bad file among
   good ones (everything restored, also the marks: the next reload still drops the old ones);
   a manual replacement of a glob template survives the next reload only if the glob no longer
   matches that name; reload without a glob *)
Definition gf (n : name) (r : fread) : fentry := fe ([47%N] ++ n) r (Some n).
Definition nC : name := [99%N].
Definition pat1 : name := [42%N].

Example glob_history_runs :
  let h := [GReload (GFiles []);                                                    (* no glob yet *)
            GCall (CAdd [(nA, Some (t_plain 1%N))]);
            GLoad pat1 (GFiles [gf nB (FRead (Some (t_child nA)))]);
            GReload (GFiles [gf nC (FRead (Some (t_child nA))); gf nB FNoRead]);     (* bad file: restored *)
            GReload (GFiles [gf nC (FRead (Some (t_child nA)))]);                    (* b dropped, c added *)
            GCall (CAdd [(nC, Some (t_child nB))]);                                  (* missing parent b *)
            GLoad pat1 GInvalid;
            GCall (CAddFiles [fe nC (FRead (Some (t_plain 5%N))) None]);             (* c becomes manual *)
            GReload (GFiles [gf nA (FRead (Some (t_plain 3%N)))])] in               (* c stays, a replaced *)
  let '(rs, g) := grun ev0 (ginit []) h in
  rs = [Err EkMsg; Ok tt; Ok tt; Err EkMsg; Ok tt; Err EkMissingParent; Err EkMsg; Ok tt; Ok tt] /\
  mkeys (st_tpls (gs_st g)) = [nA; nC] /\ gs_globbed g = [nA] /\ gs_glob g = Some pat1 /\
  gs_st g = snd (add_batch ev0 (init []) [(nC, Some (t_plain 5%N)); (nA, Some (t_plain 3%N))]).
Proof. vm_compute. repeat split. Qed.
