(* C11 — Cyclic or dangling template graphs are rejected; accepted graphs render finitely.
   Only statements, each closed by `exact`; proofs live in Proofs/RegistryProofs.v.
   Quantification: every finite set of templates (a well-formed finite map `msorted m` from
   names to descriptors), every list of fallback prefixes, every graph shape (self loops, long
   cycles, cycles entered from a tail, edges in the main chunk / in blocks / in component
   bodies), every iteration order of the include names (the walk is generic in `succ`). *)
From Coq Require Import List NArith Bool.
From TeraV Require Import Model.Registry Spec.Graph Proofs.RegistryProofs.
Import ListNotations.

(* name resolution: the exact name first, then the prefixes in order *)
Theorem C11_resolve_spec : forall (V : Type) (m : fmap V) pre n r,
  resolve pre m n = Some r <-> resolves (has m) pre n r.
Proof. exact @resolve_spec. Qed.

Theorem C11_resolve_none_spec : forall (V : Type) (m : fmap V) pre n,
  resolve pre m n = None <-> dangling (has m) pre n.
Proof. exact @resolve_none_spec. Qed.

(* the parent walk.  `fp_spec` spells out each outcome over the resolved extends relation:
     Ok ps              : the walk from n along (rev ps) reaches a template without `extends`,
                          and n :: ps has no repetition              (chain, root first)
     Err MissingParent  : a repetition-free walk reaches a template whose target resolves to nothing
     Err CircularExtend : a repetition-free walk n, l reaches u whose target is n or a member
                          of l (self loop: l = [], long cycle: back to n, cycle entered from
                          a tail: back into the middle of l)
   never any other error, and never out of fuel with fuel = number of templates + 1 *)
Theorem C11_find_parents_spec : forall pre (m : smap), msorted m -> forall n t,
  In (n, t) m ->
  fp_spec pre m n (parents_of pre m n t) /\ parents_of pre m n t <> Err EkFuel.
Proof. exact find_parents_spec. Qed.

(* ... and conversely the chain is returned whenever all targets resolve and nothing repeats *)
Theorem C11_find_parents_complete : forall pre (m : smap), msorted m -> forall n t l u,
  In (n, t) m -> path (ext pre m) n l u -> is_root m u -> NoDup (n :: l) ->
  parents_of pre m n t = Ok (rev l).
Proof. exact find_parents_complete_spec. Qed.

(* the include walk (explicit stack + visited set), for ANY successor function over the
   template names -- any iteration order, the pinned edge set or the repaired one: it succeeds
   for every template iff the relation has no cycle; fuel = number of templates + 1 *)
Theorem C11_include_dfs_spec : forall (m : smap) (succ : name -> list name),
  (forall x y, In y (succ x) -> In y (mkeys m)) ->
  ((forall n, In n (mkeys m) -> check_include_cycles succ m n = Ok tt) <-> acyclic (edge succ)).
Proof. exact include_dfs_spec. Qed.

(* ... and it reports CircularInclude for a start exactly when the start leads to a cycle
   (self loop, long cycle, or a cycle entered from a tail) *)
Theorem C11_include_err_spec : forall (m : smap) (succ : name -> list name) n,
  (forall x y, In y (succ x) -> In y (mkeys m)) -> In n (mkeys m) ->
  (check_include_cycles succ m n = Err EkCircularInclude <-> leads_to_cycle (edge succ) n).
Proof. exact include_err_spec. Qed.

(* the generic walk, over any node type with a decidable equality (also used for block graphs) *)
Theorem C11_dfs_spec : forall (A : Type) (eqb : A -> A -> bool) (succ : A -> list A),
  (forall x y, eqb x y = true <-> x = y) ->
  forall U : list A, (forall x y, edge succ x y -> In y U) ->
  forall fuel, length U <= fuel ->
  ((forall t, In t U -> exists v, dfs_check eqb succ fuel t = Ok v) <-> acyclic (edge succ)).
Proof. exact @dfs_spec. Qed.

(* acceptance: only if every extends target exists and the chains do not repeat, every include
   target exists, and the include relation is acyclic -- with or without the repairs *)
Theorem C11_accepted_only_if : forall ev sufs (m : smap) tm comps,
  msorted m -> finalize_src ev sufs m = Ok (tm, comps) ->
  (forall n t, In (n, t) m ->
     exists ps u, parents_of (ev_prefixes ev) m n t = Ok ps /\
                  path (ext (ev_prefixes ev) m) n (rev ps) u /\ is_root m u /\ NoDup (n :: ps)) /\
  (forall n t i, In (n, t) m -> In i (td_includes t) ->
     exists r, resolve (ev_prefixes ev) m i = Some r) /\
  acyclic (edge (inc_succ_pinned (ev_prefixes ev) m)).
Proof. exact accepted_only_if. Qed.

(* termination.  The render recursion modelled is the one of the CURRENT VM (D9 repaired:
   an include starts from the root ancestor's main chunk of the included template, under the
   included template's lineage).  With the finalize of the PINNED commit (`ev_pinned`: the
   include walk follows a template's own include edges only, no block-lineage check) the
   statement is FALSE (D10): the set
     A = {% block y %}{% include "B" %}{% endblock %}
     B = {% extends "A" %}{% block y %}{{ super() }}{% endblock %}
   is accepted and render("A") recurses without bound (the model runs out of the fuel that is
   proved sufficient below; the pinned VM, whose include ran B's own chunk, aborted on it just
   the same: corpus/C11/D10-include-through-super.json). *)
Definition ev_pinned : env :=
  {| ev_prefixes := []; ev_filters := []; ev_tests := []; ev_funcs := [];
     ev_fix_d10 := false; ev_fix_d13 := false |}.
Definition ev_d10 : env :=
  {| ev_prefixes := []; ev_filters := []; ev_tests := []; ev_funcs := [];
     ev_fix_d10 := true; ev_fix_d13 := false |}.
Definition nA : name := [65%N].
Definition nB : name := [66%N].
Definition nY : name := [121%N].
Definition mk (e : option name) (main : chunk) (blocks : list (name * chunk)) (top : list name) : tdesc :=
  {| td_extends := e; td_main := main; td_blocks := blocks; td_top := top; td_comps := [];
     td_filters := []; td_tests := []; td_funcs := []; td_len := 0 |}.
Definition d10_set : list (name * source) :=
  [ (nA, Some (mk None [OBlock nY] [(nY, [OInclude nB])] [nY]));
    (nB, Some (mk (Some nA) [OBlock nY] [(nY, [OSuper])] [nY])) ].

Theorem C11_accepted_renders_finitely_refuted :
  exists b s, add_batch ev_pinned (init []) b = (Ok tt, s) /\
              render (render_fuel s) [] s nA = ROutOfFuel /\
              render (render_fuel s) [] s nB = ROutOfFuel.
Proof. exists d10_set. eexists. vm_compute. repeat split. Qed.

(* with the repair (the walk follows the includes of a template's parents too) that set is
   rejected with CircularInclude *)
Theorem C11_d10_set_rejected_after_repair :
  fst (add_batch ev_d10 (init []) d10_set) = Err EkCircularInclude.
Proof. vm_compute. reflexivity. Qed.

(* D13 (new, found while proving the above): block nesting inverted across inheritance and
   reached again through super(); no include involved
     base = {% block a %}{% block b %}{% endblock %}{% endblock %}
     kid  = {% extends "base" %}{% block b %}{% block a %}{{ super() }}{% endblock %}{% endblock %}
   is accepted by the pinned finalize AND by the one with only the D10 repair (`ev_d10`), and
   render("kid") recurses without bound *)
Definition nBase : name := [98%N].
Definition nKid : name := [107%N].
Definition bA : name := [97%N].
Definition bB : name := [98%N].
Definition d13_set : list (name * source) :=
  [ (nBase, Some (mk None [OBlock bA] [(bB, [OText 2%N]); (bA, [OText 1%N; OBlock bB])] [bA]));
    (nKid, Some (mk (Some nBase) [OBlock bB] [(bA, [OSuper]); (bB, [OBlock bA])] [bB])) ].

Theorem C11_block_nest_cycle_refuted :
  exists s e, add_batch ev_d10 (init []) d13_set = (Ok tt, s) /\
              mfind nKid (st_tpls s) = Some e /\ blocks_acyclic (e_lineage e) = false /\
              render (render_fuel s) [] s nKid = ROutOfFuel.
Proof. eexists. eexists. vm_compute. repeat split. Qed.

Definition ev_fixed : env :=
  {| ev_prefixes := []; ev_filters := []; ev_tests := []; ev_funcs := [];
     ev_fix_d10 := true; ev_fix_d13 := true |}.

Theorem C11_d13_set_rejected_after_repair :
  fst (add_batch ev_fixed (init []) d13_set) = Err EkMsg.
Proof. vm_compute. reflexivity. Qed.

(* With the D10 repair alone: every accepted set renders with bounded recursion -- the model of
   the render recursion (render and include alike -> the root ancestor's main chunk under the
   template's own lineage; RenderBlock -> lineage[0]; super() -> one level up; component
   call -> one level deeper, cut at 20) never runs out of `render_fuel s` -- provided no
   template's block lineage nests blocks cyclically (`blocks_acyclic`, decidable). *)
Theorem C11_accepted_renders_finitely_modulo_block_nesting : forall ev sufs (m : smap),
  msorted m -> ev_fix_d10 ev = true -> forall tm comps,
  finalize_src ev sufs m = Ok (tm, comps) ->
  (forall n e, mfind n tm = Some e -> blocks_acyclic (e_lineage e) = true) ->
  forall n,
    render (render_fuel {| st_sufs := sufs; st_tpls := tm; st_comps := comps |}) (ev_prefixes ev)
           {| st_sufs := sufs; st_tpls := tm; st_comps := comps |} n <> ROutOfFuel.
Proof. exact render_fuel_suffices. Qed.

(* With both repairs (D10: the include walk follows the parents' includes; D13: finalize rejects
   a block lineage that leads back to itself): EVERY accepted set, over every configuration,
   renders every template with recursion depth below render_fuel -- full strength. *)
Theorem C11_accepted_renders_finitely : forall ev sufs (m : smap),
  msorted m -> ev_fix_d10 ev = true -> ev_fix_d13 ev = true -> forall tm comps,
  finalize_src ev sufs m = Ok (tm, comps) ->
  forall n,
    render (render_fuel {| st_sufs := sufs; st_tpls := tm; st_comps := comps |}) (ev_prefixes ev)
           {| st_sufs := sufs; st_tpls := tm; st_comps := comps |} n <> ROutOfFuel.
Proof. exact render_fuel_suffices_full. Qed.

Print Assumptions C11_resolve_spec.
Print Assumptions C11_resolve_none_spec.
Print Assumptions C11_find_parents_spec.
Print Assumptions C11_find_parents_complete.
Print Assumptions C11_include_dfs_spec.
Print Assumptions C11_include_err_spec.
Print Assumptions C11_dfs_spec.
Print Assumptions C11_accepted_only_if.
Print Assumptions C11_accepted_renders_finitely_refuted.
Print Assumptions C11_d10_set_rejected_after_repair.
Print Assumptions C11_accepted_renders_finitely.
Print Assumptions C11_accepted_renders_finitely_modulo_block_nesting.
Print Assumptions C11_d13_set_rejected_after_repair.
Print Assumptions C11_block_nest_cycle_refuted.

(* ---- non-vacuity: a legitimate set (a parent that includes a partial, a child that calls
   super(), a component that includes) is accepted by the repaired model and renders *)
Definition nP : name := [112%N].
Definition ok_set : list (name * source) :=
  [ (nA, Some (mk None [OText 1%N; OInclude nP; OBlock nY] [(nY, [OText 2%N])] [nY]));
    (nP, Some (mk None [OText 3%N] [] []));
    (nB, Some (mk (Some nA) [OBlock nY] [(nY, [OText 4%N; OSuper])] [nY])) ].
Example ok_set_renders :
  let '(r, s) := add_batch ev_fixed (init []) ok_set in
  r = Ok tt /\ render (render_fuel s) [] s nB = RText [1%N; 3%N; 4%N; 2%N] /\
  forallb (fun ne => blocks_acyclic (e_lineage (snd ne))) (st_tpls s) = true.
Proof. vm_compute. repeat split. Qed.

(* resolution through prefixes: exact name wins, then the first prefix that matches *)
Example resolve_order :
  let m : fmap nat := [([97%N], 0); ([112%N; 47%N; 98%N], 1); ([113%N; 47%N; 98%N], 2)] in
  resolve [[113%N; 47%N]; [112%N; 47%N]] m [98%N] = Some [113%N; 47%N; 98%N] /\
  resolve [[113%N; 47%N]; [112%N; 47%N]] m [97%N] = Some [97%N] /\
  resolve [[113%N; 47%N]] m [99%N] = None.
Proof. vm_compute. repeat split. Qed.
